import MqttVerif.Proofs.Recv
/-
  `connectionLost`: keepalive stopped, retry timers cancelled, SUBSCRIBE/UNSUBSCRIBE requests failed,
  the session purged or preserved, the protocol marked lost, the notification scheduled.
-/
namespace Mqtt

theorem Dict.set_set {α : Type} (d : Dict α) (k : Nat) (a b : α) : (d.set k a).set k b = d.set k b := by
  induction d with
  | nil => simp [Dict.set]
  | cons hd tl ih =>
    obtain ⟨k', v⟩ := hd
    simp only [Dict.set]
    by_cases h : k' = k
    · simp [h, Dict.set]
    · simp [h, Dict.set, ih]

/-! ### the keepalive is stopped -/

/-- the `_pingReq.timer` part of connectionLost -/
theorem stopLoop_inv {x : Option Nat} {w : World} (h : WInvX x w) (p : Nat) (ppr : Proto) (hpp : w.protos.get? p = some ppr) :
    ∃ w', (match ppr.pingTimer with
           | none => Step.ok
           | some _ => loopStop p ;; setProto p (fun pr => { pr with pingTimer := none })) w = (w', none) ∧
      WInvX x w' ∧ w'.protos.get? p = some { ppr with pingTimer := none } ∧ w'.ents = w.ents ∧ w'.reqs = w.reqs ∧
      w'.connReqs = w.connReqs ∧ w'.fired = w.fired := by
  cases hl : ppr.pingTimer with
  | none =>
    refine ⟨w, rfl, h, ?_, rfl, rfl, rfl, rfl⟩
    rw [hpp]; congr 1; cases ppr; simp_all
  | some l =>
    obtain ⟨b1, b2, b3, b4⟩ := h.pingTimer p ppr l hpp hl
    simp only
    obtain ⟨run, iv, call⟩ := l
    simp only at b1; subst b1
    cases call with
    | none =>
      have s1 : setProto p (fun pr => { pr with pingTimer := (pr.pingTimer.map fun l => { l with running := false }) }) w
          = ({ w with protos := w.protos.set p { ppr with pingTimer := some ⟨false, iv, none⟩ } }, none) := by
        rw [setProto_apply, getD_of_get? hpp, hl]; rfl
      have hstop : loopStop p w = ({ w with protos := w.protos.set p { ppr with pingTimer := some ⟨false, iv, none⟩ } }, none) := by
        simp only [loopStop, read_apply, getD_of_get? hpp, hl, Bool.not_true, Bool.false_eq_true, ↓reduceIte]
        rw [seq_ok s1]; rfl
      rw [seq_ok hstop, setProto_apply]
      refine ⟨loopDropW w p ppr, ?_, loopDrop_inv h p ppr hpp (fun l' hl' => by rw [hl] at hl'; injection hl' with hl'; subst hl'; rfl),
        by simp [loopDropW, Dict.get?_set], rfl, rfl, rfl, rfl⟩
      simp only [World.proto, Dict.get?_set, ↓reduceIte, Option.getD_some, Dict.set_set, loopDropW]
    | some t =>
      obtain ⟨tm, htm, hts, hK⟩ := loopKill_inv h p ppr hpp ⟨true, iv, some t⟩ hl t rfl .cancelled (by simp) none (Or.inl rfl) w.now
      have s1 : setProto p (fun pr => { pr with pingTimer := (pr.pingTimer.map fun l => { l with running := false }) }) w
          = ({ w with protos := w.protos.set p { ppr with pingTimer := some ⟨false, iv, some t⟩ } }, none) := by
        rw [setProto_apply, getD_of_get? hpp, hl]; rfl
      have s2 := cancelTimer_at ({ w with protos := w.protos.set p { ppr with pingTimer := some ⟨false, iv, some t⟩ } } : World) t tm htm hts
      have hstop : loopStop p w = ({ w with protos := w.protos.set p { ppr with pingTimer := some ⟨false, iv, none⟩ },
                                              timers := w.timers.set t { tm with status := .cancelled } }, none) := by
        simp only [loopStop, read_apply, getD_of_get? hpp, hl, Bool.not_true, Bool.false_eq_true, ↓reduceIte]
        rw [seq_ok s1, seq_ok s2, setProto_apply]
        simp only [World.proto, Dict.get?_set, ↓reduceIte, Option.getD_some, Dict.set_set, Option.map_some]
      rw [seq_ok hstop, setProto_apply]
      refine ⟨loopKillW w p ppr t tm .cancelled none w.now, ?_, hK, by simp [loopKillW, Dict.get?_set], rfl, rfl, rfl, rfl⟩
      simp only [World.proto, Dict.get?_set, ↓reduceIte, Option.getD_some, Dict.set_set, loopKillW]

/-- the `_pingReq.alarm` part of connectionLost -/
theorem stopAlarm_inv {x : Option Nat} {w : World} (h : WInvX x w) (p : Nat) (ppr : Proto) (hpp : w.protos.get? p = some ppr)
    (pa : Option Nat) (hpa : ppr.pingAlarm = pa) :
    ∃ w', (match pa with
           | none => Step.ok
           | some tid => cancelTimer tid ;; setProto p (fun pr => { pr with pingAlarm := none })) w = (w', none) ∧
      WInvX x w' ∧ w'.protos.get? p = some { ppr with pingAlarm := none } ∧ w'.ents = w.ents ∧ w'.reqs = w.reqs ∧
      w'.connReqs = w.connReqs ∧ w'.fired = w.fired := by
  cases pa with
  | none =>
    refine ⟨w, rfl, h, ?_, rfl, rfl, rfl, rfl⟩
    rw [hpp]; congr 1; cases ppr; simp_all
  | some t =>
    obtain ⟨tm, htm, hts, hO⟩ := pingOff_inv h p ppr hpp t hpa .cancelled (by simp) w.now w.log
    simp only
    rw [seq_ok (cancelTimer_at w t tm htm hts), setProto_apply]
    refine ⟨pingOffW w p ppr t tm .cancelled w.now w.log, ?_, hO, by simp [pingOffW, Dict.get?_set], rfl, rfl, rfl, rfl⟩
    have : ({ w with timers := w.timers.set t { tm with status := .cancelled } } : World).proto p = ppr := getD_of_get? hpp
    rw [this]; rfl

/-! ### the retry timers of the connection are cancelled -/

/-- what the cancellation loops leave alone -/
structure Disarmed (w w' : World) : Prop where
  protos : w'.protos = w.protos
  ents : w'.ents = w.ents
  fired : w'.fired = w.fired
  connReqs : w'.connReqs = w.connReqs
  nextDfd : w'.nextDfd = w.nextDfd
  req : ∀ rid, (w'.req rid).dfd = (w.req rid).dfd ∧ (w'.req rid).msgId = (w.req rid).msgId ∧
    ((w.req rid).alarm = none → (w'.req rid).alarm = none)
  /-- the request objects keep their packet bytes, kind and QoS (only `alarm` is cleared) -/
  same : ∀ rid, (w'.req rid).encoded = (w.req rid).encoded ∧ (w'.req rid).kind = (w.req rid).kind ∧ (w'.req rid).qos = (w.req rid).qos

theorem Disarmed.refl (w : World) : Disarmed w w := ⟨rfl, rfl, rfl, rfl, rfl, fun _ => ⟨rfl, rfl, id⟩, fun _ => ⟨rfl, rfl, rfl⟩⟩

theorem Disarmed.trans {w1 w2 w3 : World} (a : Disarmed w1 w2) (b : Disarmed w2 w3) : Disarmed w1 w3 :=
  ⟨by rw [b.protos, a.protos], by rw [b.ents, a.ents], by rw [b.fired, a.fired], by rw [b.connReqs, a.connReqs], by rw [b.nextDfd, a.nextDfd],
   fun rid => ⟨by rw [(b.req rid).1, (a.req rid).1], by rw [(b.req rid).2.1, (a.req rid).2.1], fun h => (b.req rid).2.2 ((a.req rid).2.2 h)⟩,
   fun rid => ⟨by rw [(b.same rid).1, (a.same rid).1], by rw [(b.same rid).2.1, (a.same rid).2.1], by rw [(b.same rid).2.2, (a.same rid).2.2]⟩⟩

theorem cancelLoop_inv (p : Nat) (ppr : Proto) (hnl : ppr.lost = false) :
    ∀ (l : List Ent) {w : World}, WInvX (some p) w → w.protos.get? p = some ppr → (∀ e ∈ l, e ∈ w.ents ∧ e.addr = ppr.addr) →
    (cancelWindowAlarms l w).2 = none ∧ WInvX (some p) (cancelWindowAlarms l w).1 ∧ Disarmed w (cancelWindowAlarms l w).1 ∧
    ∀ e ∈ l, ((cancelWindowAlarms l w).1.req e.rid).alarm = none := by
  intro l
  induction l with
  | nil => intro w h _ _; exact ⟨rfl, h, Disarmed.refl w, fun _ he => (by cases he)⟩
  | cons e l ih =>
    intro w h hpp hl
    obtain ⟨he, hea⟩ := hl e (by simp)
    simp only [cancelWindowAlarms, forEach]
    cases hal : (w.req e.rid).alarm with
    | none =>
      have s1 : (Step.read fun w => match (w.req e.rid).alarm with
          | none => Step.ok
          | some tid => cancelTimer tid ;; setReq e.rid (fun r => { r with alarm := none })) w = (w, none) := by
        simp only [read_apply, hal]; rfl
      erw [seq_ok s1]
      obtain ⟨r1, r2, r3, r4⟩ := ih h hpp (fun e' he' => hl e' (by simp [he']))
      refine ⟨r1, r2, r3, fun e' he' => ?_⟩
      simp only [List.mem_cons] at he'
      rcases he' with rfl | he'
      · exact (r3.req _).2.2 hal
      · exact r4 e' he'
    | some t =>
      obtain ⟨hq, p0, pr0, hpe, _⟩ := h.alarm e he t hal
      have hD := disarm_inv h he hal
        (by
          intro q qr hq' hx hl' _ hc
          have := h.oneLive q p qr ppr hq' hpp hl' hnl (by rw [hc, hea])
          exact hx (by rw [this]))
        (fun _ => ⟨p, ppr, rfl, hpp, hea.symm⟩)
      have s1 : (Step.read fun w => match (w.req e.rid).alarm with
          | none => Step.ok
          | some tid => cancelTimer tid ;; setReq e.rid (fun r => { r with alarm := none })) w = (disarm w e t, none) := by
        simp only [read_apply, hal]
        rw [seq_ok (cancelTimer_pending w t _ hpe)]; rfl
      erw [seq_ok s1]
      have hreq : ∀ r, (disarm w e t).req r = if e.rid = r then { w.req e.rid with alarm := none } else w.req r :=
        fun r => req_set w e.rid _ r _ rfl
      have hdis : Disarmed w (disarm w e t) := by
        refine ⟨rfl, rfl, rfl, rfl, rfl, fun rid => ?_, fun rid => ?_⟩
        · rw [hreq]
          by_cases hr : e.rid = rid
          · subst hr; simp
          · simp [hr]
        · rw [hreq]
          by_cases hr : e.rid = rid
          · subst hr; simp
          · simp [hr]
      obtain ⟨r1, r2, r3, r4⟩ := ih hD hpp (fun e' he' => hl e' (by simp [he']))
      refine ⟨r1, r2, hdis.trans r3, fun e' he' => ?_⟩
      simp only [List.mem_cons] at he'
      rcases he' with rfl | he'
      · refine (r3.req _).2.2 ?_
        rw [hreq]; simp
      · exact r4 e' he'

/-! ### pending SUBSCRIBE/UNSUBSCRIBE requests fail -/

/-- what the removal loops leave alone -/
structure Removed (w w' : World) : Prop where
  reqs : w'.reqs = w.reqs
  protos : w'.protos = w.protos
  timers : w'.timers = w.timers
  connReqs : w'.connReqs = w.connReqs
  sub : ∀ y ∈ w'.ents, y ∈ w.ents
  nextDfd : w'.nextDfd = w.nextDfd
  fmono : ∀ d ∈ w.fired, d ∈ w'.fired
  /-- an entry that left its container had no identifier (a held-back QoS 0 message) or has had its Deferred fired -/
  gone : ∀ y ∈ w.ents, y ∈ w'.ents ∨ (w.req y.rid).msgId = 0 ∨ ∀ d, (w.req y.rid).dfd = some d → d ∈ w'.fired

theorem Removed.refl (w : World) : Removed w w := ⟨rfl, rfl, rfl, rfl, fun _ h => h, rfl, fun _ h => h, fun _ h => Or.inl h⟩
theorem Removed.trans {w1 w2 w3 : World} (a : Removed w1 w2) (b : Removed w2 w3) : Removed w1 w3 :=
  ⟨by rw [b.reqs, a.reqs], by rw [b.protos, a.protos], by rw [b.timers, a.timers], by rw [b.connReqs, a.connReqs],
   fun y hy => a.sub y (b.sub y hy), by rw [b.nextDfd, a.nextDfd], fun d hd => b.fmono d (a.fmono d hd),
   fun y hy => by
     rcases a.gone y hy with h1 | h1 | h1
     · rcases b.gone y h1 with h2 | h2 | h2
       · exact Or.inl h2
       · exact Or.inr (Or.inl (by rw [req_of_reqs a.reqs] at h2; exact h2))
       · exact Or.inr (Or.inr (fun d hd => h2 d (by rw [req_of_reqs a.reqs]; exact hd)))
     · exact Or.inr (Or.inl h1)
     · exact Or.inr (Or.inr (fun d hd => b.fmono d (h1 d hd)))⟩

theorem Removed.kq {w w' : World} (r : Removed w w') : KQ w w' := by
  intro hq
  refine ⟨⟨fun d hd => ?_, r.fmono, by rw [r.nextDfd]; exact Nat.le_refl _, fun d h1 h2 => absurd h2 (by rw [r.nextDfd]; omega)⟩, ?_⟩
  · rcases hd with ⟨y, hy, hyd⟩ | ⟨cr, c, c1, c2⟩
    · rcases r.gone y hy with h1 | h1 | h1
      · exact Or.inr (Or.inl ⟨y, h1, by rw [req_of_reqs r.reqs]; exact hyd⟩)
      · rw [(hq y hy).1 h1] at hyd; cases hyd
      · exact Or.inl (h1 d hyd)
    · exact Or.inr (Or.inr ⟨cr, c, by rw [r.connReqs]; exact c1, c2⟩)
  · intro y hy
    exact q0_entry (by rw [req_of_reqs r.reqs]) (by rw [req_of_reqs r.reqs]) (by rw [req_of_reqs r.reqs]) (hq y (r.sub y hy))

theorem Disarmed.coreSame {w w' : World} (d : Disarmed w w') : CoreSame w w' :=
  ⟨d.ents, d.fired, d.connReqs, d.nextDfd, fun r => ⟨(d.req r).1, (d.req r).2.1, (d.same r).2.2⟩⟩

theorem failLoop_inv {x : Option Nat} (box : Box) (hbq : box ≠ .queue) (reason : Err) :
    ∀ (l : List Ent) {w : World}, WInvX x w → (∀ e ∈ l, e ∈ w.ents ∧ e.box = box ∧ (w.req e.rid).alarm = none) → l.Nodup →
    let r := forEach l (fun e => setEnts (fun es => Ents.remove es e.addr box e.key) ;;
        Step.read fun w => fireReqDfd (w.req e.rid).dfd (.fail reason)) w
    r.2 = none ∧ WInvX x r.1 ∧ Removed w r.1 ∧ (∀ y, y ∈ r.1.ents ↔ y ∈ w.ents ∧ y ∉ l) := by
  intro l
  induction l with
  | nil => intro w h _ _; exact ⟨rfl, h, Removed.refl w, fun y => by show y ∈ w.ents ↔ _; simp⟩
  | cons e l ih =>
    intro w h hl hnd
    obtain ⟨he, heb, hal⟩ := hl e (by simp)
    have hq : e.box ≠ .queue := by rw [heb]; exact hbq
    have hnd' := List.nodup_cons.mp hnd
    have hk := h.keyId e he hq
    obtain ⟨d, hd⟩ : ∃ d, (w.req e.rid).dfd = some d := by
      cases hdd : (w.req e.rid).dfd with
      | none => exact absurd hdd (h.dfdSome e he (by rw [hk.1]; exact hk.2))
      | some d => exact ⟨d, rfl⟩
    have hdf := h.dfdFresh e he d hd
    have hS := settleQuiet_inv h he hq hal hd (.fired d (.fail reason))
    have s1 : (setEnts (fun es => Ents.remove es e.addr box e.key) ;; Step.read fun w => fireReqDfd (w.req e.rid).dfd (.fail reason)) w
        = (fireD (w.setEnts fun es => Ents.remove es e.addr e.box e.key) d (.fired d (.fail reason)), none) := by
      have s0 : setEnts (fun es => Ents.remove es e.addr box e.key) w = (w.setEnts fun es => Ents.remove es e.addr box e.key, none) := rfl
      rw [seq_ok s0, read_apply, heb]
      have : ((w.setEnts fun es => Ents.remove es e.addr box e.key).req e.rid).dfd = some d := hd
      rw [this]
      exact fireDfd_unfired _ d _ hdf.2
    simp only [forEach]
    erw [seq_ok s1]
    have hmem := mem_remove_iff h he hq
    have hl' : ∀ e' ∈ l, e' ∈ (fireD (w.setEnts fun es => Ents.remove es e.addr e.box e.key) d (.fired d (.fail reason))).ents ∧ e'.box = box ∧
        ((fireD (w.setEnts fun es => Ents.remove es e.addr e.box e.key) d (.fired d (.fail reason))).req e'.rid).alarm = none := by
      intro e' he'
      obtain ⟨a, b, c⟩ := hl e' (by simp [he'])
      exact ⟨(hmem e').mpr ⟨a, fun hc => hnd'.1 (hc ▸ he')⟩, b, c⟩
    obtain ⟨r1, r2, r3, r4⟩ := ih hS hl' hnd'.2
    have hrem : Removed w (fireD (w.setEnts fun es => Ents.remove es e.addr e.box e.key) d (.fired d (.fail reason))) :=
      ⟨rfl, rfl, rfl, rfl, fun y hy => ((hmem y).mp hy).1, rfl, fun d' hd' => by simp only [fireD, List.mem_cons]; exact Or.inr hd',
       fun y hy => by
         by_cases hye : y = e
         · subst hye
           right; right; intro d' hd'
           rw [hd] at hd'; injection hd' with hd'; subst hd'
           simp [fireD]
         · exact Or.inl ((hmem y).mpr ⟨hy, hye⟩)⟩
    refine ⟨r1, r2, hrem.trans r3, fun y => ?_⟩
    rw [r4 y]
    have := hmem y
    simp only [fireD, setEnts_ents] at this ⊢
    rw [this]
    simp only [List.mem_cons, not_or]
    constructor
    · rintro ⟨⟨a, b⟩, c⟩; exact ⟨a, b, c⟩
    · rintro ⟨a, b, c⟩; exact ⟨⟨a, b⟩, c⟩

/-! ### the held-back messages of a clean session fail -/

theorem drainQueue_inv {x : Option Nat} (p : Nat) (reason : Err) (fuel : Nat) :
    ∀ {w : World}, WInvX x w →
    (drainQueue p reason fuel w).2 = none ∧ WInvX x (drainQueue p reason fuel w).1 ∧ Removed w (drainQueue p reason fuel w).1 ∧
    Ents.items (drainQueue p reason fuel w).1.ents (w.paddr p) .queue = (Ents.items w.ents (w.paddr p) .queue).drop fuel := by
  induction fuel with
  | zero => intro w h; exact ⟨rfl, h, Removed.refl w, rfl⟩
  | succ f ih =>
    intro w h
    simp only [drainQueue, read_apply]
    cases hit : Ents.items w.ents (w.paddr p) .queue with
    | nil => exact ⟨rfl, h, Removed.refl w, by show Ents.items w.ents _ _ = _; rw [hit]; rfl⟩
    | cons e rest =>
      simp only
      have hein : e ∈ Ents.items w.ents (w.paddr p) .queue := by rw [hit]; simp
      obtain ⟨he, hea, heb⟩ := Ents.mem_items.mp hein
      obtain ⟨hd1, hd2, hd3⟩ := Ents.dropFirst_spec hit h.nodup
      have hal := h.queueNoAlarm e he heb
      have h1 : WInvX x (w.setEnts fun es => Ents.dropFirst es (w.paddr p) .queue) := dropQuiet_inv h hal _ hd3 hd1
      have s0 : setEnts (fun es => Ents.dropFirst es (w.paddr p) .queue) w = (w.setEnts fun es => Ents.dropFirst es (w.paddr p) .queue, none) := rfl
      rw [seq_ok s0]
      by_cases hm0 : (w.req e.rid).msgId = 0
      · have hrem1 : Removed w (w.setEnts fun es => Ents.dropFirst es (w.paddr p) .queue) :=
          ⟨rfl, rfl, rfl, rfl, fun y hy => ((hd1 y).mp hy).1, rfl, fun _ hd' => hd', fun y hy => by
            by_cases hye : y = e
            · subst hye; exact Or.inr (Or.inl hm0)
            · exact Or.inl ((hd1 y).mpr ⟨hy, hye⟩)⟩
        simp only [hm0, ne_eq, not_true_eq_false, ↓reduceIte]
        have s1 : Step.ok (w.setEnts fun es => Ents.dropFirst es (w.paddr p) .queue) = (_, none) := rfl
        rw [seq_ok s1]
        obtain ⟨r1, r2, r3, r4⟩ := ih h1
        refine ⟨r1, r2, hrem1.trans r3, ?_⟩
        have hpa' : (w.setEnts fun es => Ents.dropFirst es (w.paddr p) .queue).paddr p = w.paddr p := rfl
        rw [hpa'] at r4
        rw [r4]
        show (Ents.items (Ents.dropFirst w.ents (w.paddr p) .queue) (w.paddr p) .queue).drop f = _
        rw [hd2]; rfl
      · simp only [ne_eq, hm0, not_false_eq_true, ↓reduceIte]
        obtain ⟨d, hd⟩ : ∃ d, (w.req e.rid).dfd = some d := by
          cases hdd : (w.req e.rid).dfd with
          | none => exact absurd hdd (h.dfdSome e he hm0)
          | some d => exact ⟨d, rfl⟩
        have hdf := h.dfdFresh e he d hd
        have h2 : WInvX x (fireD (w.setEnts fun es => Ents.dropFirst es (w.paddr p) .queue) d (.fired d (.fail reason))) := by
          apply fireD_inv h1 hdf.1
          · intro y hy hc
            obtain ⟨hy1, hy2⟩ := (hd1 y).mp hy
            exact hy2 (h.dfdInj y hy1 e he d hc hd)
          · intro t' cr c hp hc hcd
            have hp' : Pending w t' (.connack cr) := hp
            obtain ⟨c', d', a1, a2, a3, _⟩ := h.connackOwned t' cr hp'
            have hc' : w.connReqs.get? cr = some c := hc
            rw [a1] at hc'; injection hc' with hc'; subst hc'
            rw [a2] at hcd; injection hcd with hcd; subst hcd
            exact (h.connReq cr c' d' a1 a2 a3).2 e he hd
          · intro q qr cr c hq' hcq hc hcd
            have hnf := (h.connReqLive q qr cr c hq' hcq hc).2 d hcd
            exact (h.connReq cr c d hc hcd hnf).2 e he hd
        have s1 : fireReqDfd (w.req e.rid).dfd (.fail reason) (w.setEnts fun es => Ents.dropFirst es (w.paddr p) .queue)
            = (fireD (w.setEnts fun es => Ents.dropFirst es (w.paddr p) .queue) d (.fired d (.fail reason)), none) := by
          rw [hd]; exact fireDfd_unfired _ d _ hdf.2
        rw [seq_ok s1]
        obtain ⟨r1, r2, r3, r4⟩ := ih h2
        have hrem12 : Removed w (fireD (w.setEnts fun es => Ents.dropFirst es (w.paddr p) .queue) d (.fired d (.fail reason))) :=
          ⟨rfl, rfl, rfl, rfl, fun y hy => ((hd1 y).mp hy).1, rfl, fun d' hd' => by simp only [fireD, List.mem_cons]; exact Or.inr hd',
           fun y hy => by
             by_cases hye : y = e
             · subst hye
               right; right; intro d' hd'
               rw [hd] at hd'; injection hd' with hd'; subst hd'
               simp [fireD]
             · exact Or.inl ((hd1 y).mpr ⟨hy, hye⟩)⟩
        refine ⟨r1, r2, hrem12.trans r3, ?_⟩
        have hpa' : (fireD (w.setEnts fun es => Ents.dropFirst es (w.paddr p) .queue) d (.fired d (.fail reason))).paddr p = w.paddr p := rfl
        rw [hpa'] at r4
        rw [r4]
        show (Ents.items (Ents.dropFirst w.ents (w.paddr p) .queue) (w.paddr p) .queue).drop f = _
        rw [hd2]; rfl

/-! ### MQTTProtocol.doConnectionLost -/

/-- no in-flight entry of address `a` has a retry timer -/
def Quiet (w : World) (a : Nat) : Prop := ∀ e ∈ w.ents, e.addr = a → e.box ≠ .queue → (w.req e.rid).alarm = none

theorem Quiet.removed {w w' : World} {a : Nat} (h : Quiet w a) (r : Removed w w') : Quiet w' a :=
  fun e he ha hq => by rw [req_of_reqs r.reqs]; exact h e (r.sub e he) ha hq

def NoSub (w : World) (a : Nat) : Prop := ∀ e ∈ w.ents, e.addr = a → e.box ≠ .sub ∧ e.box ≠ .unsub

theorem failWindow_inv {x : Option Nat} {w : World} (h : WInvX x w) (p : Nat) (isSub : Bool) (reason : Err) (hq : Quiet w (w.paddr p)) :
    (failWindow p isSub reason w).2 = none ∧ WInvX x (failWindow p isSub reason w).1 ∧ Removed w (failWindow p isSub reason w).1 ∧
    (∀ y ∈ (failWindow p isSub reason w).1.ents, y.addr = w.paddr p → y.box ≠ (if isSub then .sub else .unsub)) ∧
    (∀ y, y ∈ (failWindow p isSub reason w).1.ents ↔ y ∈ w.ents ∧ ¬ (y.addr = w.paddr p ∧ y.box = (if isSub then .sub else .unsub))) := by
  have hbq : (if isSub then Box.sub else Box.unsub) ≠ .queue := by cases isSub <;> simp
  obtain ⟨r1, r2, r3, r4⟩ := failLoop_inv (x := x) _ hbq reason (Ents.items w.ents (w.paddr p) (if isSub then .sub else .unsub)) h
    (fun e he => by
      obtain ⟨a, b, c⟩ := Ents.mem_items.mp he
      exact ⟨a, c, hq e a b (by rw [c]; exact hbq)⟩)
    (Ents.items_nodup h.nodup _ _)
  refine ⟨r1, r2, r3, fun y hy hya hyb => ?_, fun y => ?_⟩
  · exact ((r4 y).mp hy).2 (Ents.mem_items.mpr ⟨((r4 y).mp hy).1, hya, hyb⟩)
  · refine (r4 y).trans ?_
    constructor
    · rintro ⟨a, b⟩; exact ⟨a, fun hc => b (Ents.mem_items.mpr ⟨a, hc.1, hc.2⟩)⟩
    · rintro ⟨a, b⟩; exact ⟨a, fun hc => b ⟨(Ents.mem_items.mp hc).2.1, (Ents.mem_items.mp hc).2.2⟩⟩

theorem doConnectionLost_inv {w : World} (p : Nat) (ppr : Proto) (h : WInvX (some p) w) (hpp : w.protos.get? p = some ppr)
    (hnl : ppr.lost = false) (reason : Err) :
    (doConnectionLost p reason w).2 = none ∧ WInvX (some p) (doConnectionLost p reason w).1 ∧
    (doConnectionLost p reason w).1.protos = w.protos ∧ Quiet (doConnectionLost p reason w).1 ppr.addr ∧
    NoSub (doConnectionLost p reason w).1 ppr.addr ∧
    (ppr.cleanStart = true → ∀ y ∈ (doConnectionLost p reason w).1.ents, y.addr ≠ ppr.addr) ∧
    (ppr.cleanStart = false →
      ∀ y, y ∈ (doConnectionLost p reason w).1.ents ↔ y ∈ w.ents ∧ ¬ (y.addr = ppr.addr ∧ (y.box = .sub ∨ y.box = .unsub))) ∧
    (∀ rid, ((doConnectionLost p reason w).1.req rid).dfd = (w.req rid).dfd ∧ ((doConnectionLost p reason w).1.req rid).msgId = (w.req rid).msgId ∧
      ((doConnectionLost p reason w).1.req rid).encoded = (w.req rid).encoded ∧ ((doConnectionLost p reason w).1.req rid).kind = (w.req rid).kind) ∧
    KQ w (doConnectionLost p reason w).1 ∧
    (∀ y ∈ (doConnectionLost p reason w).1.ents, y ∈ w.ents) ∧ (doConnectionLost p reason w).1.connReqs = w.connReqs := by
  have hpa : w.paddr p = ppr.addr := by simp [World.paddr, getD_of_get? hpp]
  have hitems : ∀ (b : Box) (w' : World), w'.ents = w.ents → ∀ e ∈ Ents.items w.ents ppr.addr b, e ∈ w'.ents ∧ e.addr = ppr.addr :=
    fun b w' hw' e he => ⟨hw' ▸ (Ents.mem_items.mp he).1, (Ents.mem_items.mp he).2.1⟩
  simp only [doConnectionLost, read_apply, hpa]
  -- the four cancellation loops
  obtain ⟨a1, a2, a3, a4⟩ := cancelLoop_inv p ppr hnl (Ents.items w.ents ppr.addr .sub) h hpp (hitems _ w rfl)
  obtain ⟨w1, hw1⟩ : ∃ w1, w1 = (cancelWindowAlarms (Ents.items w.ents ppr.addr .sub) w).1 := ⟨_, rfl⟩
  have s1 : cancelWindowAlarms (Ents.items w.ents ppr.addr .sub) w = (w1, none) := by rw [hw1]; exact Prod.ext rfl a1
  rw [← hw1] at a2 a3 a4
  obtain ⟨b1, b2, b3, b4⟩ := cancelLoop_inv p ppr hnl (Ents.items w.ents ppr.addr .unsub) a2 (by rw [a3.protos]; exact hpp) (hitems _ w1 a3.ents)
  obtain ⟨w2, hw2⟩ : ∃ w2, w2 = (cancelWindowAlarms (Ents.items w.ents ppr.addr .unsub) w1).1 := ⟨_, rfl⟩
  have s2 : cancelWindowAlarms (Ents.items w.ents ppr.addr .unsub) w1 = (w2, none) := by rw [hw2]; exact Prod.ext rfl b1
  rw [← hw2] at b2 b3 b4
  have d2 := a3.trans b3
  obtain ⟨c1, c2, c3, c4⟩ := cancelLoop_inv p ppr hnl (Ents.items w.ents ppr.addr .pub) b2 (by rw [d2.protos]; exact hpp) (hitems _ w2 d2.ents)
  obtain ⟨w3, hw3⟩ : ∃ w3, w3 = (cancelWindowAlarms (Ents.items w.ents ppr.addr .pub) w2).1 := ⟨_, rfl⟩
  have s3 : cancelWindowAlarms (Ents.items w.ents ppr.addr .pub) w2 = (w3, none) := by rw [hw3]; exact Prod.ext rfl c1
  rw [← hw3] at c2 c3 c4
  have d3 := d2.trans c3
  obtain ⟨e1, e2, e3, e4⟩ := cancelLoop_inv p ppr hnl (Ents.items w.ents ppr.addr .rel) c2 (by rw [d3.protos]; exact hpp) (hitems _ w3 d3.ents)
  obtain ⟨w4, hw4⟩ : ∃ w4, w4 = (cancelWindowAlarms (Ents.items w.ents ppr.addr .rel) w3).1 := ⟨_, rfl⟩
  have s4 : cancelWindowAlarms (Ents.items w.ents ppr.addr .rel) w3 = (w4, none) := by rw [hw4]; exact Prod.ext rfl e1
  rw [← hw4] at e2 e3 e4
  have d4 := d3.trans e3
  rw [seq_ok s1, seq_ok s2, seq_ok s3, seq_ok s4]
  have hpp4 : w4.protos.get? p = some ppr := by rw [d4.protos]; exact hpp
  have hpa4 : w4.paddr p = ppr.addr := by simp [World.paddr, getD_of_get? hpp4]
  have hq4 : Quiet w4 ppr.addr := by
    intro y hy hya hyq
    rw [d4.ents] at hy
    cases hb : y.box with
    | queue => exact absurd hb hyq
    | sub => exact (e3.req _).2.2 ((c3.req _).2.2 ((b3.req _).2.2 (a4 y (Ents.mem_items.mpr ⟨hy, hya, hb⟩))))
    | unsub => exact (e3.req _).2.2 ((c3.req _).2.2 (b4 y (Ents.mem_items.mpr ⟨hy, hya, hb⟩)))
    | pub => exact (e3.req _).2.2 (c4 y (Ents.mem_items.mpr ⟨hy, hya, hb⟩))
    | rel => exact e4 y (Ents.mem_items.mpr ⟨hy, hya, hb⟩)
  -- the two failure loops
  obtain ⟨f1, f2, f3, f4, f5⟩ := failWindow_inv e2 p true reason (hpa4 ▸ hq4)
  obtain ⟨w5, hw5⟩ : ∃ w5, w5 = (failWindow p true reason w4).1 := ⟨_, rfl⟩
  have s5 : failWindow p true reason w4 = (w5, none) := by rw [hw5]; exact Prod.ext rfl f1
  rw [← hw5] at f2 f3 f4 f5
  have hpp5 : w5.protos.get? p = some ppr := by rw [f3.protos]; exact hpp4
  have hpa5 : w5.paddr p = ppr.addr := by simp [World.paddr, getD_of_get? hpp5]
  have hq5 : Quiet w5 ppr.addr := hq4.removed f3
  obtain ⟨g1, g2, g3, g4, g5⟩ := failWindow_inv f2 p false reason (hpa5 ▸ hq5)
  obtain ⟨w6, hw6⟩ : ∃ w6, w6 = (failWindow p false reason w5).1 := ⟨_, rfl⟩
  have s6 : failWindow p false reason w5 = (w6, none) := by rw [hw6]; exact Prod.ext rfl g1
  rw [← hw6] at g2 g3 g4 g5
  have hpp6 : w6.protos.get? p = some ppr := by rw [g3.protos]; exact hpp5
  have hq6 : Quiet w6 ppr.addr := hq5.removed g3
  have hns6 : NoSub w6 ppr.addr := by
    intro y hy hya
    refine ⟨?_, ?_⟩
    · have := f4 y (g3.sub y hy) (by rw [hpa4]; exact hya)
      simpa using this
    · have := g4 y hy (by rw [hpa5]; exact hya)
      simpa using this
  rw [seq_ok s5, seq_ok s6, read_apply, getD_of_get? hpp6]
  by_cases hcs : ppr.cleanStart = true
  · rw [if_pos hcs]
    obtain ⟨k1, k2, k3, k4, k5, k6, k7, k8, k9, k10, k11, k12⟩ := purgeSession_inv g2 p reason
    obtain ⟨w7, hw7⟩ : ∃ w7, w7 = (purgeSession p reason w6).1 := ⟨_, rfl⟩
    have s7 : purgeSession p reason w6 = (w7, none) := by rw [hw7]; exact Prod.ext rfl k1
    rw [← hw7] at k2 k3 k4 k5 k6 k7 k8 k9 k10 k11 k12
    have hpa6 : w6.paddr p = ppr.addr := by simp [World.paddr, getD_of_get? hpp6]
    rw [seq_ok s7, read_apply]
    have hrem7 : Removed w6 w7 := ⟨k3, k4, k5, k6, k7, k10, k11, fun y hy => (k12 y hy).imp id Or.inr⟩
    obtain ⟨m1, m2, m3, m4⟩ := drainQueue_inv (x := some p) p reason (Ents.count w7.ents (w7.paddr p) .queue) k2
    have hrem := (hrem7.trans m3)
    have hreqs : ∀ (w' : World), w'.reqs = w6.reqs → ∀ rid, (w'.req rid).dfd = (w.req rid).dfd ∧ (w'.req rid).msgId = (w.req rid).msgId ∧
        (w'.req rid).encoded = (w.req rid).encoded ∧ (w'.req rid).kind = (w.req rid).kind := by
      intro w' hw' rid
      rw [req_of_reqs hw', req_of_reqs g3.reqs, req_of_reqs f3.reqs]
      exact ⟨(d4.req rid).1, (d4.req rid).2.1, (d4.same rid).1, (d4.same rid).2.1⟩
    refine ⟨m1, m2, ?_, hq6.removed hrem, fun y hy hya => hns6 y (hrem.sub y hy) hya, fun _ y hy hya => ?_, (fun hc => by rw [hcs] at hc; cases hc),
      hreqs _ hrem.reqs, ((d4.coreSame.kq.trans f3.kq).trans g3.kq).trans hrem.kq,
      fun y hy => by rw [← d4.ents]; exact f3.sub y (g3.sub y (hrem.sub y hy)),
      by rw [hrem.connReqs, g3.connReqs, f3.connReqs, d4.connReqs]⟩
    · rw [hrem.protos, g3.protos, f3.protos, d4.protos]
    · have hpa7 : w7.paddr p = ppr.addr := by simp [World.paddr, World.proto, k4, hpp6]
      have hy7 := m3.sub y hy
      cases hb : y.box with
      | sub => exact (hns6 y (hrem.sub y hy) hya).1 hb
      | unsub => exact (hns6 y (hrem.sub y hy) hya).2 hb
      | pub => exact k9 y hy7 (by rw [hya, hpa6]) (Or.inl hb) ((hq6.removed hrem7) y hy7 hya (by rw [hb]; simp))
      | rel => exact k9 y hy7 (by rw [hya, hpa6]) (Or.inr hb) ((hq6.removed hrem7) y hy7 hya (by rw [hb]; simp))
      | queue =>
        have hin : y ∈ Ents.items (drainQueue p reason (Ents.count w7.ents (w7.paddr p) .queue) w7).1.ents (w7.paddr p) .queue :=
          Ents.mem_items.mpr ⟨hy, by rw [hpa7]; exact hya, hb⟩
        rw [m4] at hin
        simp [Ents.count] at hin
  · rw [if_neg hcs]
    refine ⟨rfl, g2, by show w6.protos = w.protos; rw [g3.protos, f3.protos, d4.protos], hq6, hns6, fun hc => absurd hc hcs, fun _ y => ?_, ?_,
      (d4.coreSame.kq.trans f3.kq).trans g3.kq,
      fun y hy => by rw [← d4.ents]; exact f3.sub y (g3.sub y hy),
      by show w6.connReqs = w.connReqs; rw [g3.connReqs, f3.connReqs, d4.connReqs]⟩
    · show y ∈ w6.ents ↔ _
      rw [g5 y, f5 y, hpa5, hpa4, d4.ents]
      simp only [Bool.false_eq_true, ↓reduceIte]
      constructor
      · rintro ⟨⟨a, b⟩, c⟩
        exact ⟨a, fun hc => by rcases hc.2 with hc2 | hc2; exact b ⟨hc.1, hc2⟩; exact c ⟨hc.1, hc2⟩⟩
      · rintro ⟨a, b⟩
        exact ⟨⟨a, fun hc => b ⟨hc.1, Or.inl hc.2⟩⟩, fun hc => b ⟨hc.1, Or.inr hc.2⟩⟩
    · intro rid
      show (w6.req rid).dfd = _ ∧ (w6.req rid).msgId = _ ∧ (w6.req rid).encoded = _ ∧ (w6.req rid).kind = _
      rw [req_of_reqs g3.reqs, req_of_reqs f3.reqs]
      exact ⟨(d4.req rid).1, (d4.req rid).2.1, (d4.same rid).1, (d4.same rid).2.1⟩

/-! ### the protocol is marked lost; the notification is scheduled -/

def lostW (w : World) (p : Nat) (ppr : Proto) : World :=
  { w with protos := w.protos.set p { ppr with state := .idle, lost := true } }

theorem lost_inv {x : Option Nat} {w : World} (h : WInvX x w) (p : Nat) (ppr : Proto) (hpp : w.protos.get? p = some ppr)
    (hpt : ppr.pingTimer = none) (hpa : ppr.pingAlarm = none) (hq : Quiet w ppr.addr) : WInvX x (lostW w p ppr) := by
  have hnoretry : ∀ t rid, ¬ Pending w t (.retry p rid) := by
    intro t rid hp'
    obtain ⟨e, he, hrid, hal⟩ := h.noStale t p rid hp'
    subst hrid
    obtain ⟨hbq, q, qr, hpq, hq', hqa⟩ := h.alarm e he t hal
    have := pending_kind hp' hpq
    injection this with hpq' _
    subst hpq'
    rw [hpp] at hq'; injection hq' with hq'; subst hq'
    have := hq e he hqa.symm hbq
    rw [hal] at this; cases this
  apply protoStep_inv h (lostW w p ppr) p ppr { ppr with state := .idle, lost := true } hpp rfl rfl rfl rfl rfl rfl rfl rfl rfl rfl
  · intro q; simp only [lostW, Dict.get?_set]
  · intro _ _ _; exact Iff.rfl
  · intro _ _; exact id
  · intro _ _ _ _ _; exact id
  · intro _ _ _; exact Iff.rfl
  · intro _ _ _; exact Iff.rfl
  · exact h.timerFresh
  · rfl
  · intro hl; cases hl
  · intro _; exact ⟨hnoretry, rfl, hpt, hpa⟩
  · intro hs'; cases hs'
  · intro t' ht'; rw [hpa] at ht'; cases ht'
  · intro l hl; rw [hpt] at hl; cases hl
  · intro t' hp'
    obtain ⟨pr, a, b⟩ := h.pingAlarmOwned t' p hp'
    rw [hpp] at a; injection a with a; subst a
    rw [hpa] at b; cases b
  · intro t' hp'
    obtain ⟨pr, l, a, b, _⟩ := h.pingLoopOwned t' p hp'
    rw [hpp] at a; injection a with a; subst a
    rw [hpt] at b; cases b
  · intro hs'; cases hs'
  · intro _ _ _ _ _ _; exact Or.inl rfl
  · intro cr' c' hcq'; exact h.connReqLive p ppr cr' c' hpp hcq'
  · intro cr' hcq'; exact h.connReqRef p ppr cr' hpp hcq'
  · exact h.bufOk p ppr hpp

def addTimerW (w : World) (due : Nat) (k : TKind) : World :=
  { w with timers := w.timers.set w.nextTimer ⟨due, k, .pending⟩, nextTimer := w.nextTimer + 1 }

/-- a timer the invariant does not talk about (the `onDisconnection` notification) is scheduled -/
theorem addOnDisc_inv {x : Option Nat} {w : World} (h : WInvX x w) (p : Nat) (ppr : Proto) (hpp : w.protos.get? p = some ppr)
    (due : Nat) (q : Nat) (reason : Err) : WInvX x (addTimerW w due (.onDisc q reason)) := by
  have hao := fun t' k hk' => add_other h due (.onDisc q reason) (w' := addTimerW w due (.onDisc q reason)) rfl t' k hk'
  apply protoStep_inv h (addTimerW w due (.onDisc q reason)) p ppr ppr hpp rfl rfl rfl rfl rfl rfl rfl rfl rfl rfl
  · intro q'
    show w.protos.get? q' = _
    by_cases hq : p = q'
    · subst hq; simp [hpp]
    · simp [hq]
  · intro t' q' rid; exact hao _ _ (by simp)
  · intro t' cr'; exact (hao _ _ (by simp)).mp
  · intro t' cr' _ _ _; exact (hao _ _ (by simp)).mpr
  · intro t' q' _; exact hao _ _ (by simp)
  · intro t' q' _; exact hao _ _ (by simp)
  · exact add_fresh h _ rfl rfl
  · rfl
  · exact id
  · intro hl
    have := h.lostIdle p ppr hpp hl
    have hr := h.retryLive
    grind
  · intro hs' hx hl; exact h.connected p ppr hpp hx hl hs'
  · intro t' ht'; exact (hao _ _ (by simp)).mpr (h.pingAlarm p ppr t' hpp ht')
  · intro l hl
    obtain ⟨a1, a2, a3, a4⟩ := h.pingTimer p ppr l hpp hl
    exact ⟨a1, a2, a3, fun t' ht' => (hao _ _ (by simp)).mpr (a4 t' ht')⟩
  · intro t' hp'
    obtain ⟨pr, a, b⟩ := h.pingAlarmOwned t' p ((hao _ _ (by simp)).mp hp')
    rw [hpp] at a; injection a with a; subst a; exact b
  · intro t' hp'
    obtain ⟨pr, l, a, b, c⟩ := h.pingLoopOwned t' p ((hao _ _ (by simp)).mp hp')
    rw [hpp] at a; injection a with a; subst a
    exact ⟨l, b, c⟩
  · intro hs'
    obtain ⟨cr, c, i1, i2, ip, i3⟩ := h.connecting p ppr hpp hs'
    exact ⟨cr, c, i1, i2, ip, fun d hd => ⟨(i3 d hd).1, (hao _ _ (by simp)).mpr (i3 d hd).2⟩⟩
  · intro t' cr' c' hp' hc' hown
    obtain ⟨c2, d2, a1, a2, a3, a4, pr, a5, a6⟩ := h.connackOwned t' cr' ((hao _ _ (by simp)).mp hp')
    rw [hc'] at a1; injection a1 with a1; subst a1
    rw [hown, hpp] at a5; injection a5 with a5; subst a5
    exact a6
  · intro cr' c' hcq'; exact h.connReqLive p ppr cr' c' hpp hcq'
  · intro cr' hcq'; exact h.connReqRef p ppr cr' hpp hcq'
  · exact h.bufOk p ppr hpp

/-- what connection loss leaves behind -/
structure LostPost (w w' : World) (p : Nat) (ppr : Proto) : Prop where
  /-- the protocol is idle and marked lost -/
  proto : ∃ pr', w'.protos.get? p = some pr' ∧ pr'.state = .idle ∧ pr'.lost = true ∧ pr'.addr = ppr.addr
  /-- C11: a clean session leaves no request of the address behind, in no container -/
  clean : ppr.cleanStart = true → ∀ y ∈ w'.ents, y.addr ≠ ppr.addr
  /-- C12: a persistent session keeps every publish of the address (held back, awaiting PUBACK/PUBREC, awaiting PUBCOMP)
      and drops exactly the SUBSCRIBE/UNSUBSCRIBE requests; other addresses are untouched -/
  persistent : ppr.cleanStart = false →
    ∀ y, y ∈ w'.ents ↔ y ∈ w.ents ∧ ¬ (y.addr = ppr.addr ∧ (y.box = .sub ∨ y.box = .unsub))
  /-- the request objects keep identifier, Deferred, packet bytes and kind -/
  req : ∀ rid, (w'.req rid).dfd = (w.req rid).dfd ∧ (w'.req rid).msgId = (w.req rid).msgId ∧
    (w'.req rid).encoded = (w.req rid).encoded ∧ (w'.req rid).kind = (w.req rid).kind
  /-- no in-flight entry of the address keeps a retry timer -/
  quiet : ∀ e ∈ w'.ents, e.addr = ppr.addr → e.box ≠ .queue → (w'.req e.rid).alarm = none

/-- MQTTBaseProtocol.connectionLost, delivered once to a live protocol -/
theorem connectionLost_owned {w : World} (h : WInv w) (p : Nat) (ppr : Proto) (hpp : w.protos.get? p = some ppr)
    (hnl : ppr.lost = false) (reason : Err) :
    (connectionLost p reason w).2 = none ∧ WInv (connectionLost p reason w).1 ∧ LostPost w (connectionLost p reason w).1 p ppr ∧
    KQ w (connectionLost p reason w).1 ∧ (∀ y ∈ (connectionLost p reason w).1.ents, y ∈ w.ents) ∧
    (connectionLost p reason w).1.connReqs = w.connReqs := by
  simp only [connectionLost, read_apply, getD_of_get? hpp]
  obtain ⟨w1, s1, i1, hpp1, e1, r1, _, _⟩ := stopLoop_inv (WInvX.weaken (x := some p) h) p ppr hpp
  have c1 : CoreSame w w1 := by
    have : CS (match ppr.pingTimer with
           | none => Step.ok
           | some _ => loopStop p ;; setProto p (fun pr => { pr with pingTimer := none })) := by
      split
      · exact cs_ok
      · exact cs_seq (cs_loopStop p) (cs_setProto _ _)
    have := this w; rw [s1] at this; exact this
  erw [seq_ok s1]
  obtain ⟨w2, s2, i2, hpp2, e2, r2, _, _⟩ := stopAlarm_inv i1 p { ppr with pingTimer := none } hpp1 ppr.pingAlarm rfl
  have c2 : CoreSame w1 w2 := by
    have : CS (match ppr.pingAlarm with
           | none => Step.ok
           | some tid => cancelTimer tid ;; setProto p (fun pr => { pr with pingAlarm := none })) := by
      split
      · exact cs_ok
      · exact cs_seq (cs_cancelTimer _) (cs_setProto _ _)
    have := this w1; rw [s2] at this; exact this
  erw [seq_ok s2]
  obtain ⟨a1, a2, a3, a4, a5, a6, a7, a8, a9, a10, a11⟩ := doConnectionLost_inv p _ i2 hpp2 hnl reason
  obtain ⟨w3, hw3⟩ : ∃ w3, w3 = (doConnectionLost p reason w2).1 := ⟨_, rfl⟩
  have s3 : doConnectionLost p reason w2 = (w3, none) := by rw [hw3]; exact Prod.ext rfl a1
  rw [← hw3] at a2 a3 a4 a5 a6 a7 a8 a9 a10 a11
  have hsub3 : ∀ y ∈ w3.ents, y ∈ w.ents := fun y hy => by rw [← c1.ents, ← c2.ents]; exact a10 y hy
  have hcr3 : w3.connReqs = w.connReqs := by rw [a11, c2.connReqs, c1.connReqs]
  rw [seq_ok s3]
  have k3 : KQ w w3 := (c1.trans c2).kq.trans a9
  have hpp3 : w3.protos.get? p = some { ppr with pingTimer := none, pingAlarm := none } := by rw [a3]; exact hpp2
  have hL := lost_inv a2 p _ hpp3 rfl rfl a4
  have s4 : setProto p (fun pr => { pr with state := .idle, lost := true }) w3
      = (lostW w3 p { ppr with pingTimer := none, pingAlarm := none }, none) := by
    rw [setProto_apply, getD_of_get? hpp3]; rfl
  rw [seq_ok s4, read_apply]
  have hpp4 : (lostW w3 p { ppr with pingTimer := none, pingAlarm := none }).protos.get? p =
      some { ppr with pingTimer := none, pingAlarm := none, state := .idle, lost := true } := by
    simp [lostW, Dict.get?_set]
  have hW : WInv (lostW w3 p { ppr with pingTimer := none, pingAlarm := none }) := by
    refine WInvX.close hL ?_ ?_
    · intro pr hpr hl
      rw [hpp4] at hpr; injection hpr with hpr; subst hpr; cases hl
    · intro pr hpr e he hb hea
      rw [hpp4] at hpr; injection hpr with hpr; subst hpr
      have := a5 e he hea
      rcases hb with hb | hb
      · exact absurd hb this.1
      · exact absurd hb this.2
  have hw2e : w2.ents = w.ents := by rw [e2, e1]
  have hw2r : ∀ rid, w2.req rid = w.req rid := fun rid => by rw [req_of_reqs r2, req_of_reqs r1]
  have hpost : ∀ wX : World, wX.ents = w3.ents → wX.reqs = w3.reqs →
      wX.protos.get? p = some { ppr with pingTimer := none, pingAlarm := none, state := .idle, lost := true } → LostPost w wX p ppr := by
    intro wX hxe hxr hxp
    have hreq : ∀ rid, wX.req rid = w3.req rid := req_of_reqs hxr
    refine ⟨⟨_, hxp, rfl, rfl, rfl⟩, ?_, ?_, ?_, ?_⟩
    · intro hc y hy; rw [hxe] at hy; exact a6 hc y hy
    · intro hc y; rw [hxe, a7 hc y, hw2e]
    · intro rid; rw [hreq]
      have := a8 rid
      rw [hw2r] at this; exact this
    · intro e he hea hq; rw [hxe] at he; rw [hreq]; exact a4 e he hea hq
  rw [getD_of_get? hpp4]
  split
  · have s5 : callLater (1 / 10 : Rat) (.onDisc p reason) (fun _ => Step.ok) (lostW w3 p { ppr with pingTimer := none, pingAlarm := none })
        = (addTimerW (lostW w3 p { ppr with pingTimer := none, pingAlarm := none })
            ((lostW w3 p { ppr with pingTimer := none, pingAlarm := none }).now + ticks (1 / 10)) (.onDisc p reason), none) := rfl
    rw [s5]
    exact ⟨rfl, addOnDisc_inv hW p _ hpp4 _ p reason, hpost _ rfl rfl hpp4,
      k3.trans (CoreSame.kq ⟨rfl, rfl, rfl, rfl, fun _ => ⟨rfl, rfl, rfl⟩⟩), hsub3, hcr3⟩
  · exact ⟨rfl, hW, hpost _ rfl rfl hpp4, k3.trans (CoreSame.kq ⟨rfl, rfl, rfl, rfl, fun _ => ⟨rfl, rfl, rfl⟩⟩), hsub3, hcr3⟩

theorem connectionLost_full {w : World} (h : WInv w) (p : Nat) (ppr : Proto) (hpp : w.protos.get? p = some ppr)
    (hnl : ppr.lost = false) (reason : Err) :
    (connectionLost p reason w).2 = none ∧ WInv (connectionLost p reason w).1 ∧ LostPost w (connectionLost p reason w).1 p ppr :=
  have h4 := connectionLost_owned h p ppr hpp hnl reason
  ⟨h4.1, h4.2.1, h4.2.2.1⟩

theorem connectionLost_inv {w : World} (h : WInv w) (p : Nat) (ppr : Proto) (hpp : w.protos.get? p = some ppr)
    (hnl : ppr.lost = false) (reason : Err) :
    (connectionLost p reason w).2 = none ∧ WInv (connectionLost p reason w).1 :=
  ⟨(connectionLost_full h p ppr hpp hnl reason).1, (connectionLost_full h p ppr hpp hnl reason).2.1⟩

end Mqtt
