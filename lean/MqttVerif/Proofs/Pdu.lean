import MqttVerif.Model.Pdu
import MqttVerif.Proofs.Prim
namespace Mqtt

theorem and128_of_ge (b : Nat) (h1 : 128 ≤ b) (h2 : b < 256) : b &&& 0x80 = 0x80 := by
  have := and128_big (b - 128) (by omega)
  rwa [Nat.sub_add_cancel h1] at this

theorem skipLen_pre (pre : Bytes) (d : Nat) (rest : Bytes) (hd : d < 128)
    (hp : ∀ b ∈ pre, 128 ≤ b ∧ b < 256) : skipLen (pre ++ [d] ++ rest) = .ok rest := by
  induction pre with
  | nil => simp [skipLen, and128_small d hd]
  | cons a t ih =>
    have ha := hp a (by simp)
    simp only [List.cons_append, skipLen, and128_of_ge a ha.1 ha.2]
    simp only [List.append_assoc] at ih
    simpa using ih (fun b hb => hp b (by simp [hb]))

theorem skipLen_encodeLength (n : Nat) (rest : Bytes) :
    skipLen (encodeLength n ++ rest) = .ok rest := by
  obtain ⟨pre, d, he, hd, hp⟩ := encodeLength_last n
  rw [he]; exact skipLen_pre pre d rest hd hp

/-- every `decode()` finds the bytes after the fixed header of an encoded packet -/
theorem body_encoded (h n : Nat) (rest : Bytes) :
    body ([h] ++ encodeLength n ++ rest) = .ok rest := by
  simp [body, skipLen_encodeLength]

theorem WF_append {a b : Bytes} (ha : a.WF) (hb : b.WF) : Bytes.WF (a ++ b) := by
  intro x hx; simp at hx; rcases hx with h | h
  · exact ha x h
  · exact hb x h

theorem WF_cons {a : Nat} {b : Bytes} (ha : a < 256) (hb : b.WF) : Bytes.WF (a :: b) := by
  intro x hx; simp at hx; rcases hx with rfl | h
  · exact ha
  · exact hb x h

theorem WF_nil : Bytes.WF [] := by intro x hx; simp at hx

/-! ## the five identifier-only acknowledgements -/

theorem decodeAck_encodeAck (hdr : Nat) (hh : hdr < 256) (m : Nat) (hm : m < 65536) :
    ∃ bs, encodeAck hdr (m : Int) = .ok bs ∧ bs.WF ∧ decodeAck bs = .ok m := by
  obtain ⟨e, he, hl, hw, hd⟩ := decode16_encode16 m hm []
  refine ⟨[hdr] ++ encodeLength 2 ++ e, ?_, ?_, ?_⟩
  · unfold encodeAck; rw [he]; show Except.ok _ = _; rw [hl]
  · exact WF_append (WF_append (WF_cons hh WF_nil) (encodeLength_WF 2)) hw
  · simp only [decodeAck, body_encoded, bind, Except.bind]
    simpa using hd

theorem decodePUBREL_encodePUBREL (m : Nat) (hm : m < 65536) :
    ∃ bs, encodePUBREL (m : Int) = .ok bs ∧ bs.WF ∧ decodePUBREL bs = .ok (m, false) := by
  obtain ⟨e, he, hl, hw, hd⟩ := decode16_encode16 m hm []
  refine ⟨[0x62] ++ encodeLength 2 ++ e, ?_, ?_, ?_⟩
  · unfold encodePUBREL encodeAck; rw [he]; show Except.ok _ = _; rw [hl]
  · exact WF_append (WF_append (WF_cons (by decide) WF_nil) (encodeLength_WF 2)) hw
  · simp only [decodePUBREL, body_encoded, bind, Except.bind]
    simp only [List.append_nil] at hd
    simp [hd, first, pure, Except.pure]

end Mqtt

namespace Mqtt

/-! ## CONNACK -/

theorem ConnackF.roundtrip (f : ConnackF) (h : f.resultCode < 256) :
    ∃ bs, f.encode = .ok bs ∧ bs.WF ∧ ConnackF.decode bs = .ok f := by
  refine ⟨[0x20] ++ encodeLength 2 ++ [b2n f.session, f.resultCode], ?_, ?_, ?_⟩
  · unfold ConnackF.encode byte
    have : b2n f.session < 256 := by unfold b2n; split <;> decide
    simp [this, h]
  · refine WF_append (WF_append (WF_cons (by decide) WF_nil) (encodeLength_WF 2)) ?_
    refine WF_cons ?_ (WF_cons h WF_nil)
    unfold b2n; split <;> decide
  · unfold ConnackF.decode
    rw [body_encoded]
    cases f with
    | mk s rc => cases s <;> simp [first, b2n]

/-! ## SUBACK -/

/-- granted entries a SUBACK can carry: the QoS part fits in 7 bits -/
def GrantedValid (g : List (Nat × Bool)) : Prop := ∀ p ∈ g, p.1 < 128

theorem or_flag_lt (q : Nat) (fl : Bool) (h : q < 128) : (q ||| (if fl then 0x80 else 0x00)) < 256 := by
  cases fl
  · simp; omega
  · simp only [↓reduceIte]; rw [or128 q h]; omega

theorem or_flag_decode (q : Nat) (fl : Bool) (h : q < 128) :
    (((q ||| (if fl then 0x80 else 0x00)) &&& 0x7F), ((q ||| (if fl then 0x80 else 0x00)) &&& 0x80) == 0x80) = (q, fl) := by
  cases fl
  · simp [and127, and128_small q h]; omega
  · simp only [↓reduceIte]; rw [or128 q h, and127_big q h, and128_big q h]; simp

theorem encGranted_ok (g : List (Nat × Bool)) (h : GrantedValid g) :
    ∃ bs, encGranted g = .ok bs ∧ bs.WF ∧ bs.length = g.length ∧
      bs.map (fun b => (b &&& 0x7F, (b &&& 0x80) == 0x80)) = g := by
  induction g with
  | nil => exact ⟨[], rfl, WF_nil, rfl, rfl⟩
  | cons p t ih =>
    obtain ⟨q, fl⟩ := p
    have hq : q < 128 := h (q, fl) (by simp)
    obtain ⟨bs, he, hw, hl, hm⟩ := ih (fun p hp => h p (by simp [hp]))
    refine ⟨(q ||| (if fl then 0x80 else 0x00)) :: bs, ?_, WF_cons (or_flag_lt q fl hq) hw, by simp [hl], ?_⟩
    · unfold encGranted byte
      simp [or_flag_lt q fl hq, he]
    · simp only [List.map_cons, hm, or_flag_decode q fl hq]

theorem SubackF.roundtrip (m : Nat) (g : List (Nat × Bool)) (hm : m < 65536) (hg : GrantedValid g) :
    ∃ bs, (SubackF.mk m g).encode = .ok bs ∧ bs.WF ∧ SubackF.decode bs = .ok (SubackF.mk m g) := by
  obtain ⟨gb, he, hw, hl, hmap⟩ := encGranted_ok g hg
  refine ⟨[0x90] ++ encodeLength (2 + gb.length) ++ (enc16 m ++ gb), ?_, ?_, ?_⟩
  · unfold SubackF.encode
    simp only [encode16_ok m hm, he, ok_bind, pure_ok, enc16_length, List.append_assoc]
  · exact WF_append (WF_append (WF_cons (by decide) WF_nil) (encodeLength_WF _)) (WF_append (enc16_WF m hm) hw)
  · unfold SubackF.decode
    rw [body_encoded]
    simp only [ok_bind, decode16_enc16 m hm, pure_ok]
    have : (enc16 m ++ gb).drop 2 = gb := by simp [enc16]
    rw [this, hmap]

/-! ## SUBSCRIBE -/

def TopicsQValid (ts : List (String × Nat)) : Prop := ∀ p ∈ ts, p.1.utf8ByteSize ≤ 65535 ∧ p.2 < 4

theorem and3 (q : Nat) (h : q < 4) : q &&& 0x03 = q := by
  have : ∀ x : Fin 4, x.val &&& 0x03 = x.val := by decide
  exact this ⟨q, h⟩

theorem encTopicsQ_ok (ts : List (String × Nat)) (h : TopicsQValid ts) (fuel : Nat) :
    ∃ bs, encTopicsQ ts = .ok bs ∧ bs.WF ∧ (bs.length ≤ fuel → decTopicsQ fuel bs = .ok ts) := by
  induction ts generalizing fuel with
  | nil => exact ⟨[], rfl, WF_nil, fun _ => by cases fuel <;> simp [decTopicsQ]⟩
  | cons p t ih =>
    obtain ⟨s, q⟩ := p
    have hp := h (s, q) (by simp)
    obtain ⟨bs, he, hw, hd⟩ := ih (fun p hp => h p (by simp [hp])) (fuel - 1)
    refine ⟨encS s ++ [q] ++ bs, ?_, ?_, ?_⟩
    · unfold encTopicsQ byte
      have : q < 256 := by omega
      simp [encodeString_ok s hp.1, this, he]
    · exact WF_append (WF_append (encS_WF s hp.1) (WF_cons (by omega) WF_nil)) hw
    · intro hlen
      cases fuel with
      | zero => simp at hlen
      | succ f =>
        simp only [List.length_append, encS_length, List.length_cons, List.length_nil] at hlen
        unfold decTopicsQ
        simp only [List.append_assoc, decodeString_encS s hp.1, ok_bind]
        simp only [List.cons_append, List.nil_append, first, ok_bind, List.drop_succ_cons, List.drop_zero]
        simp only [Nat.add_sub_cancel] at hd
        rw [hd (by omega)]
        simp [and3 q hp.2]

theorem SubscribeF.roundtrip (m : Nat) (ts : List (String × Nat)) (hm : m < 65536) (ht : TopicsQValid ts) :
    ∃ bs, (SubscribeF.mk m ts).encode = .ok bs ∧ bs.WF ∧ SubscribeF.decode bs = .ok (SubscribeF.mk m ts) := by
  obtain ⟨tb, he, hw, _⟩ := encTopicsQ_ok ts ht 0
  obtain ⟨tb', he', _, hd⟩ := encTopicsQ_ok ts ht (enc16 m ++ tb).length
  have : tb' = tb := by rw [he] at he'; injection he' with h; exact h.symm
  subst this
  refine ⟨[0x82] ++ encodeLength (2 + tb'.length) ++ (enc16 m ++ tb'), ?_, ?_, ?_⟩
  · unfold SubscribeF.encode
    simp only [encode16_ok m hm, he, ok_bind, pure_ok, enc16_length, List.append_assoc]
  · exact WF_append (WF_append (WF_cons (by decide) WF_nil) (encodeLength_WF _)) (WF_append (enc16_WF m hm) hw)
  · unfold SubscribeF.decode
    rw [body_encoded]
    have h1 : (enc16 m ++ tb').take 2 = enc16 m := by simp [enc16]
    have h2 : (enc16 m ++ tb').drop 2 = tb' := by simp [enc16]
    simp only [ok_bind, h1, h2]
    have := decode16_enc16 m hm []
    simp only [List.append_nil] at this
    rw [this, ok_bind, hd (by simp)]
    rfl

/-! ## UNSUBSCRIBE -/

def TopicsValid (ts : List String) : Prop := ∀ t ∈ ts, t.utf8ByteSize ≤ 65535

theorem encS_take2 (s : String) (rest : Bytes) :
    (encS s ++ rest).take 2 = [(utf8 s).length >>> 8, (utf8 s).length &&& 0xFF] := by
  simp [encS]

theorem encS_body (s : String) (rest : Bytes) :
    ((encS s ++ rest).drop 2).take s.utf8ByteSize = utf8 s := by
  simp only [encS, List.cons_append, List.drop_succ_cons, List.drop_zero, ← utf8_length]
  exact take_append_self _ _

theorem encS_rest (s : String) (rest : Bytes) :
    (encS s ++ rest).drop (2 + s.utf8ByteSize) = rest := by
  have : 2 + s.utf8ByteSize = (encS s).length := by simp
  rw [this]; exact drop_append_self _ _

theorem encTopics_ok (ts : List String) (h : TopicsValid ts) (fuel : Nat) :
    ∃ bs, encTopics ts = .ok bs ∧ bs.WF ∧ (bs.length ≤ fuel → decTopics fuel bs = .ok ts) := by
  induction ts generalizing fuel with
  | nil => exact ⟨[], rfl, WF_nil, fun _ => by cases fuel <;> simp [decTopics]⟩
  | cons s t ih =>
    have hp := h s (by simp)
    obtain ⟨bs, he, hw, hd⟩ := ih (fun p hp => h p (by simp [hp])) (fuel - 1)
    refine ⟨encS s ++ bs, ?_, ?_, ?_⟩
    · unfold encTopics
      simp [encodeString_ok s hp, he]
    · exact WF_append (encS_WF s hp) hw
    · intro hlen
      cases fuel with
      | zero => simp at hlen
      | succ f =>
        simp only [List.length_append, encS_length] at hlen
        unfold decTopics
        have hne : ¬ ((encS s ++ bs).length == 0) = true := by simp
        simp only [hne, Bool.false_eq_true, ↓reduceIte, encS_take2, decode16Int, ok_bind, prefix_value s hp,
          encS_body, fromUtf8_utf8, encS_rest]
        simp only [Nat.add_sub_cancel] at hd
        rw [hd (by omega)]
        rfl

theorem UnsubscribeF.roundtrip (m : Nat) (ts : List String) (hm : m < 65536) (ht : TopicsValid ts) :
    ∃ bs, (UnsubscribeF.mk m ts).encode = .ok bs ∧ bs.WF ∧
      UnsubscribeF.decode bs = .ok (UnsubscribeF.mk m ts) := by
  obtain ⟨tb, he, hw, _⟩ := encTopics_ok ts ht 0
  obtain ⟨tb', he', _, hd⟩ := encTopics_ok ts ht (enc16 m ++ tb).length
  have : tb' = tb := by rw [he] at he'; injection he' with h; exact h.symm
  subst this
  refine ⟨[0xA2] ++ encodeLength (2 + tb'.length) ++ (enc16 m ++ tb'), ?_, ?_, ?_⟩
  · unfold UnsubscribeF.encode
    simp only [encode16_ok m hm, he, ok_bind, pure_ok, enc16_length, List.append_assoc]
  · exact WF_append (WF_append (WF_cons (by decide) WF_nil) (encodeLength_WF _)) (WF_append (enc16_WF m hm) hw)
  · unfold UnsubscribeF.decode
    rw [body_encoded]
    have h1 : (enc16 m ++ tb').take 2 = enc16 m := by simp [enc16]
    have h2 : (enc16 m ++ tb').drop 2 = tb' := by simp [enc16]
    simp only [ok_bind, h1, h2]
    have := decode16_enc16 m hm []
    simp only [List.append_nil] at this
    rw [this, ok_bind, hd (by simp)]
    rfl

/-! ## PUBLISH -/

/-- the valid field assignments of a PUBLISH: QoS 0..2, DUP and packet id only with QoS > 0,
    16-bit id, topic of at most 65535 bytes, payload a str or a bytearray, total length within
    the protocol limit -/
structure PublishF.Valid (f : PublishF) : Prop where
  qos : f.qos < 3
  topic : f.topic.utf8ByteSize ≤ 65535
  noId : f.qos = 0 → f.msgId = none ∧ f.dup = false
  id : f.qos ≠ 0 → ∃ m : Nat, f.msgId = some (m : Int) ∧ m < 65536
  payload : f.payload ≠ .other
  total : 2 + f.topic.utf8ByteSize + (if f.qos = 0 then 0 else 2) + f.payload.bytes.length ≤ 268435455

/-- what decoding gives back: string payloads as their UTF-8 bytes -/
def PublishF.norm (f : PublishF) : PublishD :=
  { topic := f.topic, payload := f.payload.bytes, qos := f.qos, dup := f.dup, retain := f.retain,
    msgId := f.msgId.map Int.toNat }

theorem pubHeader (retain dup : Bool) (q : Nat) (hq : q = 1 ∨ q = 2) :
    let h := 0x30 ||| b2n retain ||| (q <<< 1) ||| (b2n dup <<< 3)
    h < 256 ∧ ((h &&& 0x08) == 0x08) = dup ∧ ((h &&& 0x06) >>> 1) = q ∧ ((h &&& 0x01) == 0x01) = retain := by
  rcases hq with rfl | rfl <;> cases retain <;> cases dup <;> decide

theorem pubHeader0 (retain : Bool) :
    let h := 0x30 ||| b2n retain
    h < 256 ∧ ((h &&& 0x08) == 0x08) = false ∧ ((h &&& 0x06) >>> 1) = 0 ∧ ((h &&& 0x01) == 0x01) = retain := by
  cases retain <;> decide

theorem PublishF.roundtrip (f : PublishF) (hv : f.Valid) (hw : f.payload.bytes.WF) :
    ∃ bs, f.encode = .ok bs ∧ bs.WF ∧ PublishD.decode bs = .ok f.norm := by
  obtain ⟨topic, payload, qos, dup, retain, msgId⟩ := f
  obtain ⟨hq, ht, hn, hi, hp, htot⟩ := hv
  simp only at hq ht hn hi hp htot hw
  have hpe : payload.toBytes = .ok payload.bytes := by
    cases payload <;> simp_all [Payload.bytes, Payload.toBytes]
  by_cases h0 : qos = 0
  · subst h0
    obtain ⟨rfl, rfl⟩ := hn rfl
    obtain ⟨hlt, hd, hqq, hr⟩ := pubHeader0 retain
    refine ⟨[0x30 ||| b2n retain] ++ encodeLength (2 + topic.utf8ByteSize + payload.bytes.length)
        ++ (encS topic ++ payload.bytes), ?_, ?_, ?_⟩
    · unfold PublishF.encode
      simp only [bne_self_eq_false, Bool.false_eq_true, ↓reduceIte, encodeString_ok topic ht, ok_bind, pure_ok, hpe,
        encS_length]
      simp only at htot
      have : ¬ (2 + topic.utf8ByteSize + payload.bytes.length > 268435455) := by omega
      simp only [this, ↓reduceIte, List.append_assoc]
    · exact WF_append (WF_append (WF_cons hlt WF_nil) (encodeLength_WF _)) (WF_append (encS_WF topic ht) hw)
    · unfold PublishD.decode
      rw [body_encoded]
      simp only [ok_bind, List.cons_append, List.nil_append, first, hd, hqq, hr, decodeString_encS topic ht,
        decode16_encS topic ht, bne_self_eq_false, Bool.false_eq_true, ↓reduceIte, pure_ok, PublishF.norm,
        Option.map_none]
      have := encS_rest topic payload.bytes
      rw [Nat.add_comm] at this
      rw [this]
  · obtain ⟨m, rfl, hm⟩ := hi h0
    have hq12 : qos = 1 ∨ qos = 2 := by omega
    obtain ⟨hlt, hd, hqq, hr⟩ := pubHeader retain dup qos hq12
    refine ⟨[0x30 ||| b2n retain ||| (qos <<< 1) ||| (b2n dup <<< 3)] ++
        encodeLength (2 + topic.utf8ByteSize + 2 + payload.bytes.length)
        ++ (encS topic ++ (enc16 m ++ payload.bytes)), ?_, ?_, ?_⟩
    · unfold PublishF.encode byte
      have hne : (qos != 0) = true := by simp [h0]
      simp only [hne, ↓reduceIte, hlt, encodeString_ok topic ht, ok_bind, pure_ok, hpe, encode16_ok m hm,
        List.length_append, encS_length, enc16_length]
      simp only [h0, ↓reduceIte] at htot
      have : ¬ (2 + topic.utf8ByteSize + 2 + payload.bytes.length > 268435455) := by omega
      simp only [this, ↓reduceIte, List.append_assoc]
    · exact WF_append (WF_append (WF_cons hlt WF_nil) (encodeLength_WF _))
        (WF_append (encS_WF topic ht) (WF_append (enc16_WF m hm) hw))
    · unfold PublishD.decode
      rw [body_encoded]
      have hne : (qos != 0) = true := by simp [h0]
      simp only [ok_bind, List.cons_append, List.nil_append, first, hd, hqq, hr, decodeString_encS topic ht,
        decode16_encS topic ht, hne, ↓reduceIte, pure_ok, PublishF.norm]
      have h1 := encS_rest topic (enc16 m ++ payload.bytes)
      rw [Nat.add_comm] at h1
      have h2 : (encS topic ++ (enc16 m ++ payload.bytes)).drop (topic.utf8ByteSize + 4) = payload.bytes := by
        have : topic.utf8ByteSize + 4 = (encS topic ++ enc16 m).length := by simp; omega
        rw [this, ← List.append_assoc]; exact drop_append_self _ _
      rw [h1, h2]
      have h3 : (enc16 m ++ payload.bytes).take 2 = enc16 m := by simp [enc16]
      have h4 := decode16_enc16 m hm []
      simp only [List.append_nil] at h4
      rw [h3, h4]
      simp

/-! ## CONNECT -/

theorem connFlags (cs hw wr u p : Bool) (wq : Nat) (hwq : wq < 4) :
    let f0 := b2n cs <<< 1
    let f1 := if hw then f0 ||| (0x04 ||| (b2n wr <<< 5) ||| (wq <<< 3)) else f0
    let f2 := if u then f1 ||| 0x80 else f1
    let fl := if p then f2 ||| 0x40 else f2
    fl < 256 ∧ ((fl &&& 0x02) != 0) = cs ∧ ((fl &&& 0x04) != 0) = hw ∧
      (hw = true → (fl >>> 3) &&& 0x03 = wq ∧ ((fl &&& 0x20) != 0) = wr) ∧
      ((fl &&& 0x80) != 0) = u ∧ ((fl &&& 0x40) != 0) = p := by
  have : wq = 0 ∨ wq = 1 ∨ wq = 2 ∨ wq = 3 := by omega
  rcases this with rfl | rfl | rfl | rfl <;> cases cs <;> cases hw <;> cases wr <;> cases u <;> cases p <;> decide

theorem ConnectF.flags_facts (f : ConnectF) (h : f.willQoS < 4) :
    f.flags < 256 ∧ ((f.flags &&& 0x02) != 0) = f.cleanStart ∧ ((f.flags &&& 0x04) != 0) = f.hasWill ∧
      (f.hasWill = true → (f.flags >>> 3) &&& 0x03 = f.willQoS ∧ ((f.flags &&& 0x20) != 0) = f.willRetain) ∧
      ((f.flags &&& 0x80) != 0) = f.username.isSome ∧ ((f.flags &&& 0x40) != 0) = f.password.isSome :=
  connFlags f.cleanStart f.hasWill f.willRetain f.username.isSome f.password.isSome f.willQoS h

def optSize : Option String → Nat
  | none => 0
  | some s => s.utf8ByteSize

/-- the valid field assignments of a CONNECT (what `_checkConnect` plus the encoder accept) -/
structure ConnectF.Valid (f : ConnectF) : Prop where
  version : f.version = v31 ∨ f.version = v311
  keepalive : 0 ≤ f.keepalive ∧ f.keepalive < 65536
  clientId : f.clientId.utf8ByteSize ≤ 65535
  willQoS : f.willQoS < 3
  will : f.willTopic.isSome = f.willMessage.isSome
  sizes : optSize f.willTopic ≤ 65535 ∧ optSize f.willMessage ≤ 65535 ∧ optSize f.username ≤ 65535 ∧
    optSize f.password ≤ 65535

/-- what decoding gives back: will QoS/retain only with a will, the password as its UTF-8 bytes -/
def ConnectF.norm (f : ConnectF) : ConnectD :=
  { clientId := f.clientId, keepalive := f.keepalive.toNat,
    willTopic := f.willTopic, willMessage := f.willMessage,
    willQoS := if f.hasWill then some f.willQoS else none,
    willRetain := if f.hasWill then some f.willRetain else none,
    username := f.username, password := f.password.map utf8,
    cleanStart := f.cleanStart, version := f.version }

def encOpt : Option String → Bytes
  | none => []
  | some s => encS s

theorem encOptString_ok (o : Option String) (h : optSize o ≤ 65535) : encOptString o = .ok (encOpt o) := by
  cases o with
  | none => rfl
  | some s => exact encodeString_ok s h

theorem encOpt_WF (o : Option String) (h : optSize o ≤ 65535) : (encOpt o).WF := by
  cases o with
  | none => exact WF_nil
  | some s => exact encS_WF s h

theorem version_facts (v : Version) (h : v = v31 ∨ v = v311) :
    v.tag.utf8ByteSize ≤ 65535 ∧ v.level < 256 ∧ (if v.level == v31.level then v31 else v311) = v := by
  rcases h with rfl | rfl <;> decide

theorem ConnectF.roundtrip (f : ConnectF) (hv : f.Valid) :
    ∃ bs, f.encode = .ok bs ∧ bs.WF ∧ ConnectD.decode bs = .ok f.norm := by
  obtain ⟨cid, ka, wt, wm, wq, wr, user, pass, cs, ver⟩ := f
  obtain ⟨hver, hka, hcid, hwq, hwill, hwt, hwm, hu, hp⟩ := hv
  simp only at hver hka hcid hwq hwill hwt hwm hu hp
  obtain ⟨htag, hlvl, hvdec⟩ := version_facts ver hver
  have hkan : ka = ((ka.toNat : Nat) : Int) := by omega
  have hka' : ka.toNat < 65536 := by omega
  obtain ⟨hfl, hcs, hhw, hwd, hud, hpd⟩ := ConnectF.flags_facts (ConnectF.mk cid ka wt wm wq wr user pass cs ver)
    (by show wq < 4; omega)
  simp only [ConnectF.hasWill] at hfl hcs hhw hwd hud hpd
  generalize hfe : (ConnectF.mk cid ka wt wm wq wr user pass cs ver).flags = fl at *
  -- the payload after the client id
  refine ⟨[0x10] ++ encodeLength ((encS ver.tag ++ ([ver.level] ++ ([fl] ++ enc16 ka.toNat))).length +
      (encS cid ++ ((if (wt.isSome && wm.isSome) = true then encOpt wt ++ encOpt wm else []) ++
        (encOpt user ++ encOpt pass))).length) ++
      ((encS ver.tag ++ ([ver.level] ++ ([fl] ++ enc16 ka.toNat))) ++
       (encS cid ++ ((if (wt.isSome && wm.isSome) = true then encOpt wt ++ encOpt wm else []) ++
        (encOpt user ++ encOpt pass)))), ?_, ?_, ?_⟩
  · unfold ConnectF.encode byte
    simp only [hfe, ConnectF.hasWill]
    rw [encodeString_ok _ htag]
    simp only [ok_bind, hlvl, hfl, ↓reduceIte, pure_ok]
    rw [hkan, encode16_ok _ hka', ← hkan]
    simp only [ok_bind, encodeString_ok cid hcid, encOptString_ok user hu, encOptString_ok pass hp]
    by_cases hw : (wt.isSome && wm.isSome) = true
    · simp only [hw, ↓reduceIte, encOptString_ok wt hwt, encOptString_ok wm hwm, ok_bind, pure_ok,
        List.append_assoc]
    · simp only [hw, Bool.false_eq_true, ↓reduceIte, pure_ok, ok_bind, List.append_assoc, List.nil_append]
  · refine WF_append (WF_append (WF_cons (by decide) WF_nil) (encodeLength_WF _)) (WF_append ?_ ?_)
    · exact WF_append (encS_WF _ htag) (WF_cons hlvl (WF_cons hfl (enc16_WF _ hka')))
    · refine WF_append (encS_WF _ hcid) (WF_append ?_ (WF_append (encOpt_WF _ hu) (encOpt_WF _ hp)))
      split
      · exact WF_append (encOpt_WF _ hwt) (encOpt_WF _ hwm)
      · exact WF_nil
  · unfold ConnectD.decode
    rw [body_encoded]
    have hd2 : ∀ rest : Bytes, (enc16 ka.toNat ++ rest).drop 2 = rest := fun rest => by simp [enc16]
    simp only [List.append_assoc, decodeString_encS _ htag, ok_bind, List.cons_append, List.nil_append,
      first, List.drop_succ_cons, List.drop_zero, hvdec, hcs, hhw, hud, hpd, decode16_enc16 _ hka',
      hd2, decodeString_encS _ hcid]
    have hpw : ∀ p : String, p.utf8ByteSize ≤ 65535 →
        (decode16Int (encS p) = .ok p.utf8ByteSize ∧ ((encS p).drop 2).take p.utf8ByteSize = utf8 p) := by
      intro p hp
      have h1 := decode16_encS p hp []
      have h2 := encS_body p []
      simp only [List.append_nil] at h1 h2
      exact ⟨h1, h2⟩
    have hds0 : ∀ p : String, p.utf8ByteSize ≤ 65535 → decodeString (encS p) = .ok (p, []) := by
      intro p hp
      have := decodeString_encS p hp []
      simpa using this
    rcases wt with _ | wt <;> rcases wm with _ | wm <;> simp at hwill <;>
    rcases user with _ | user <;> rcases pass with _ | pass <;>
    simp only [optSize] at hwt hwm hu hp <;>
    simp only [encOpt, decodeString_encS, hds0, hwt, hwm, hu, hp, ConnectF.norm, ConnectF.hasWill, hpw, ok_bind, pure_ok,
      Option.isSome_none, Option.isSome_some, Bool.and_self, Bool.false_eq_true, ↓reduceIte, List.nil_append,
      List.append_nil, List.append_assoc, Option.map_none, Option.map_some, reduceCtorEq, Bool.and_false,
      Bool.and_true] <;>
    first | rfl | (simp only [Option.isSome_some, Bool.and_self, true_implies] at hwd; simp only [hwd])

end Mqtt
