import MqttVerif.Proofs.Emits
/-
  Local facts about single handlers, used by the property files: acknowledgements nobody asked
  for, undecodable packets, the inbound QoS 2 store, the first transmission of connect().
-/
namespace Mqtt

/-! ### acknowledgements with an unknown identifier change nothing at all -/

theorem handlePUBACK_unknown (p m : Nat) (w : World) (h : Ents.lookup w.ents (w.paddr p) .pub m = none) :
    handlePUBACK p m w = (w, none) := by simp [handlePUBACK, Step.read, h, Step.ok]
theorem handlePUBREC_unknown (p m : Nat) (w : World) (h : Ents.lookup w.ents (w.paddr p) .pub m = none) :
    handlePUBREC p m w = (w, none) := by
  unfold handlePUBREC
  generalize encodePUBREL (m : Int) = E
  simp [Step.read, h, Step.ok]
/-- an acknowledgement whose type does not fit the QoS of the pending message changes nothing either: PUBACK bearing the
    identifier of a QoS 2 message, PUBREC bearing that of a QoS 1 message -/
theorem handlePUBACK_wrong_qos (p m rid : Nat) (w : World) (h : Ents.lookup w.ents (w.paddr p) .pub m = some rid)
    (hq : (w.req rid).qos ≠ 1) : handlePUBACK p m w = (w, none) := by simp [handlePUBACK, Step.read, h, Step.ok, hq]
theorem handlePUBREC_wrong_qos (p m rid : Nat) (w : World) (h : Ents.lookup w.ents (w.paddr p) .pub m = some rid)
    (hq : (w.req rid).qos ≠ 2) : handlePUBREC p m w = (w, none) := by
  unfold handlePUBREC
  generalize encodePUBREL (m : Int) = E
  simp [Step.read, h, Step.ok, hq]
theorem handlePUBCOMP_unknown (p m : Nat) (w : World) (h : Ents.lookup w.ents (w.paddr p) .rel m = none) :
    handlePUBCOMP p m w = (w, none) := by simp [handlePUBCOMP, Step.read, h, Step.ok]
theorem handleSubUnsubAck_unknown (p : Nat) (isSub : Bool) (m : Nat) (v : Val) (w : World)
    (h : Ents.lookup w.ents (w.paddr p) (if isSub then .sub else .unsub) m = none) :
    handleSubUnsubAck p isSub m v w = (w, none) := by simp [handleSubUnsubAck, Step.read, h, Step.ok]
/-- an unsolicited PINGRESP -/
theorem handlePINGRESP_unsolicited (p : Nat) (w : World) (h : (w.proto p).pingAlarm = none) :
    handlePINGRESP p w = (w, none) := by simp [handlePINGRESP, Step.read, h, Step.ok]

/-! ### the inbound QoS 2 store -/

theorem Rx.lookup_insert (rx : List RxEnt) (a k : Nat) (m : RxMsg) : Rx.lookup (Rx.insert rx a k m) a k = some m := by
  induction rx with
  | nil => simp [Rx.insert, Rx.lookup]
  | cons e r ih =>
    simp only [Rx.insert]
    split
    · simp [Rx.lookup]
    · rename_i hne; simp [Rx.lookup, hne, ih]

theorem Rx.lookup_remove (rx : List RxEnt) (a k : Nat) (hu : ∀ m, Rx.lookup rx a k = some m → True) :
    Rx.lookup (Rx.remove rx a k) a k = none ∨ ∃ m, Rx.lookup (Rx.remove rx a k) a k = some m := by
  cases h : Rx.lookup (Rx.remove rx a k) a k with
  | none => exact Or.inl rfl
  | some m => exact Or.inr ⟨m, rfl⟩

/-- a repeated QoS 2 PUBLISH replaces the stored message: one entry per identifier -/
theorem Rx.insert_idem (rx : List RxEnt) (a k : Nat) (m m' : RxMsg) :
    Rx.insert (Rx.insert rx a k m) a k m' = Rx.insert rx a k m' := by
  induction rx with
  | nil => simp [Rx.insert]
  | cons e r ih =>
    simp only [Rx.insert]
    split
    · simp [Rx.insert]
    · rename_i hne; simp [Rx.insert, hne, ih]

/-- PUBREL for an identifier that is not stored (a repeated PUBREL): PUBCOMP is written, nothing is delivered -/
theorem handlePUBREL_repeated (p m : Nat) (w : World) (hm : m < 65536) (h : Rx.lookup w.rx (w.paddr p) m = none) :
    ∃ bs, encodePUBCOMP (m : Int) = .ok bs ∧ handlePUBREL p m w = (w.emit (.write p bs), none) := by
  obtain ⟨bs, hbs⟩ := encodeAck_ok 0x70 m hm
  have hbs' : encodePUBCOMP (m : Int) = .ok bs := hbs
  refine ⟨bs, hbs', ?_⟩
  unfold handlePUBREL
  generalize hE : encodePUBCOMP (m : Int) = E
  rw [hbs'] at hE; subst hE
  simp [Step.read, h, Step.seq, Step.ok, write, emit, Step.mod]

/-! ### packets that cannot be decoded: the connection is aborted and nothing else happens -/

theorem processPacket_unknown_type (p : Nat) (h0 : Nat) (rest : Bytes) (w : World)
    (h : Config.knownTypes.getD ((h0 &&& 0xF0) >>> 4) false = false ∨ Config.handledTypes.getD ((h0 &&& 0xF0) >>> 4) false = false) :
    processPacket p (h0 :: rest) w = (w.emit (.abort p), none) := by
  unfold processPacket abort
  dsimp only
  rcases h with h | h
  · simp only [h, Bool.not_false, ↓reduceIte]; rfl
  · by_cases hk : Config.knownTypes.getD ((h0 &&& 0xF0) >>> 4) false = true
    · simp only [hk, h, Bool.not_true, Bool.not_false, Bool.false_eq_true, ↓reduceIte]; rfl
    · have hk' : Config.knownTypes.getD ((h0 &&& 0xF0) >>> 4) false = false := by
        cases hc : Config.knownTypes.getD ((h0 &&& 0xF0) >>> 4) false with
        | false => rfl
        | true => exact absurd hc hk
      simp only [hk', Bool.not_false, ↓reduceIte]; rfl

/-- the packet's own decoder rejects it (truncated, corrupt, invalid UTF-8, ...) -/
def Undecodable (pkt : Bytes) : Nat → Prop
  | 2 => ∃ e, ConnackF.decode pkt = .error e
  | 9 => ∃ e, SubackF.decode pkt = .error e
  | 3 => ∃ e, PublishD.decode pkt = .error e
  | 6 => ∃ e, decodePUBREL pkt = .error e
  | 11 => ∃ e, decodeAck pkt = .error e
  | 4 => ∃ e, decodeAck pkt = .error e
  | 5 => ∃ e, decodeAck pkt = .error e
  | 7 => ∃ e, decodeAck pkt = .error e
  | _ => False

theorem processPacket_undecodable (p : Nat) (h0 : Nat) (rest : Bytes) (w : World)
    (h : Undecodable (h0 :: rest) ((h0 &&& 0xF0) >>> 4)) :
    processPacket p (h0 :: rest) w = (w.emit (.abort p), none) := by
  have hnib := nibble_lt h0
  unfold processPacket abort
  dsimp only
  generalize (h0 &&& 0xF0) >>> 4 = t at hnib h ⊢
  have : t = 0 ∨ t = 1 ∨ t = 2 ∨ t = 3 ∨ t = 4 ∨ t = 5 ∨ t = 6 ∨ t = 7 ∨ t = 8 ∨ t = 9 ∨ t = 10 ∨ t = 11 ∨ t = 12 ∨
      t = 13 ∨ t = 14 ∨ t = 15 := by omega
  rcases this with rfl | rfl | rfl | rfl | rfl | rfl | rfl | rfl | rfl | rfl | rfl | rfl | rfl | rfl | rfl | rfl
  all_goals simp only [Undecodable] at h
  all_goals
    obtain ⟨e, he⟩ := h
    simp only [show Config.knownTypes.getD 2 false = true by decide, show Config.handledTypes.getD 2 false = true by decide,
      show Config.knownTypes.getD 3 false = true by decide, show Config.handledTypes.getD 3 false = true by decide,
      show Config.knownTypes.getD 4 false = true by decide, show Config.handledTypes.getD 4 false = true by decide,
      show Config.knownTypes.getD 5 false = true by decide, show Config.handledTypes.getD 5 false = true by decide,
      show Config.knownTypes.getD 6 false = true by decide, show Config.handledTypes.getD 6 false = true by decide,
      show Config.knownTypes.getD 7 false = true by decide, show Config.handledTypes.getD 7 false = true by decide,
      show Config.knownTypes.getD 9 false = true by decide, show Config.handledTypes.getD 9 false = true by decide,
      show Config.knownTypes.getD 11 false = true by decide, show Config.handledTypes.getD 11 false = true by decide,
      Bool.not_true, Bool.false_eq_true, ↓reduceIte, read_apply, he]
    rfl

/-! ### the effect of the acknowledgement a request is waiting for -/

/-- PUBACK for an identifier in the publish window of a connected protocol: the retry timer is cancelled, the
    Deferred of exactly that request succeeds with the identifier (the window key = the request's msgId = the
    number on the wire), the entry leaves the window, and the window is refilled -/
theorem handlePUBACK_effect {w : World} (h : WInv w) (p : Nat) (ppr : Proto) (hpp : w.protos.get? p = some ppr)
    (hlive : ppr.lost = false) (hconn : ppr.state = .connected) (m rid : Nat)
    (hl : Ents.lookup w.ents ppr.addr .pub m = some rid) (hq1 : (w.req rid).qos = 1) :
    ∃ t d, (w.req rid).alarm = some t ∧ (w.req rid).dfd = some d ∧ d ∉ w.fired ∧ (w.req rid).msgId = m ∧
      handlePUBACK p m w = (refillW p false (Ents.count (Ents.remove w.ents ppr.addr .pub m) ppr.addr .queue)
        (fireD (dropArmed w ⟨ppr.addr, .pub, m, rid⟩ t) d (.fired d (.ok (.int m)))), none) := by
  have hpa : w.paddr p = ppr.addr := by simp [World.paddr, getD_of_get? hpp]
  have he := Ents.lookup_some hl
  have hq : (⟨ppr.addr, .pub, m, rid⟩ : Ent).box ≠ .queue := by simp
  obtain ⟨t, d, p0, ht, hpe, hd, hnf, hkey⟩ := window_entry_facts h p ppr hpp hlive hconn he rfl hq
  simp only at ht hpe hd hkey
  refine ⟨t, d, ht, hd, hnf, hkey, ?_⟩
  simp only [handlePUBACK, read_apply, hpa, hl, ne_eq, hq1, not_true_eq_false, ↓reduceIte]
  have s1 : cancelAlarm (w.req rid).alarm w = ({ w with timers := cancelT w t }, none) := by
    rw [ht]; exact cancelTimer_pending w t _ hpe
  rw [seq_ok s1]
  have s2 : fireReqDfd (w.req rid).dfd (.ok (.int (w.req rid).msgId)) { w with timers := cancelT w t }
      = (fireD { w with timers := cancelT w t } d (.fired d (.ok (.int m))), none) := by
    rw [hd, hkey]; exact fireDfd_unfired _ d _ hnf
  rw [seq_ok s2]
  have s3 : setEnts (fun es => Ents.remove es ppr.addr .pub m) (fireD { w with timers := cancelT w t } d (.fired d (.ok (.int m))))
      = (fireD (dropArmed w ⟨ppr.addr, .pub, m, rid⟩ t) d (.fired d (.ok (.int m))), none) := rfl
  rw [seq_ok s3]
  simp only [refill, Step.mod]
  have : (fireD (dropArmed w ⟨ppr.addr, .pub, m, rid⟩ t) d (.fired d (.ok (.int m)))).paddr p = ppr.addr := hpa
  rw [this]; rfl

/-- PUBCOMP for an identifier in the release window: the same, for the QoS 2 exchange -/
theorem handlePUBCOMP_effect {w : World} (h : WInv w) (p : Nat) (ppr : Proto) (hpp : w.protos.get? p = some ppr)
    (hlive : ppr.lost = false) (hconn : ppr.state = .connected) (m rid : Nat)
    (hl : Ents.lookup w.ents ppr.addr .rel m = some rid) :
    ∃ t d, (w.req rid).alarm = some t ∧ (w.req rid).dfd = some d ∧ d ∉ w.fired ∧ (w.req rid).msgId = m ∧
      handlePUBCOMP p m w = (refillW p false (Ents.count (Ents.remove w.ents ppr.addr .rel m) ppr.addr .queue)
        (fireD (dropArmed w ⟨ppr.addr, .rel, m, rid⟩ t) d (.fired d (.ok (.int m)))), none) := by
  have hpa : w.paddr p = ppr.addr := by simp [World.paddr, getD_of_get? hpp]
  have he := Ents.lookup_some hl
  have hq : (⟨ppr.addr, .rel, m, rid⟩ : Ent).box ≠ .queue := by simp
  obtain ⟨t, d, p0, ht, hpe, hd, hnf, hkey⟩ := window_entry_facts h p ppr hpp hlive hconn he rfl hq
  simp only at ht hpe hd hkey
  refine ⟨t, d, ht, hd, hnf, hkey, ?_⟩
  simp only [handlePUBCOMP, read_apply, hpa, hl]
  have s1 : cancelAlarm (w.req rid).alarm w = ({ w with timers := cancelT w t }, none) := by
    rw [ht]; exact cancelTimer_pending w t _ hpe
  rw [seq_ok s1]
  have s2 : fireReqDfd (w.req rid).dfd (.ok (.int (w.req rid).msgId)) { w with timers := cancelT w t }
      = (fireD { w with timers := cancelT w t } d (.fired d (.ok (.int m))), none) := by
    rw [hd, hkey]; exact fireDfd_unfired _ d _ hnf
  rw [seq_ok s2]
  have s3 : setEnts (fun es => Ents.remove es ppr.addr .rel (w.req rid).msgId) (fireD { w with timers := cancelT w t } d (.fired d (.ok (.int m))))
      = (fireD (dropArmed w ⟨ppr.addr, .rel, m, rid⟩ t) d (.fired d (.ok (.int m))), none) := by
    rw [hkey]; rfl
  rw [seq_ok s3]
  simp only [refill, Step.mod]
  have : (fireD (dropArmed w ⟨ppr.addr, .rel, m, rid⟩ t) d (.fired d (.ok (.int m)))).paddr p = ppr.addr := hpa
  rw [this]; rfl

/-- SUBACK / UNSUBACK bearing the identifier of a pending request: its Deferred succeeds with the value carried by
    the acknowledgement, the retry timer is cancelled, the entry leaves the window -/
theorem handleSubUnsubAck_effect {w : World} (h : WInv w) (p : Nat) (ppr : Proto) (hpp : w.protos.get? p = some ppr)
    (hlive : ppr.lost = false) (hconn : ppr.state = .connected) (isSub : Bool) (m rid : Nat) (v : Val)
    (hl : Ents.lookup w.ents ppr.addr (if isSub then .sub else .unsub) m = some rid) :
    ∃ t d, (w.req rid).alarm = some t ∧ (w.req rid).dfd = some d ∧ d ∉ w.fired ∧ (w.req rid).msgId = m ∧
      handleSubUnsubAck p isSub m v w =
        (fireD (dropArmed w ⟨ppr.addr, if isSub then .sub else .unsub, m, rid⟩ t) d (.fired d (.ok v)), none) := by
  have hpa : w.paddr p = ppr.addr := by simp [World.paddr, getD_of_get? hpp]
  generalize hbox : (if isSub = true then Box.sub else Box.unsub) = box at hl ⊢
  have hbq : box ≠ .queue := by cases isSub <;> simp at hbox <;> subst hbox <;> simp
  have he := Ents.lookup_some hl
  obtain ⟨t, d, p0, ht, hpe, hd, hnf, hkey⟩ := window_entry_facts h p ppr hpp hlive hconn he rfl hbq
  simp only at ht hpe hd hkey
  refine ⟨t, d, ht, hd, hnf, hkey, ?_⟩
  simp only [handleSubUnsubAck, read_apply, hpa, hbox, hl]
  have s1 : setEnts (fun es => Ents.remove es ppr.addr box m) w = (w.setEnts fun es => Ents.remove es ppr.addr box m, none) := rfl
  rw [seq_ok s1]
  have hp1 : Pending (w.setEnts fun es => Ents.remove es ppr.addr box m) t (.retry p0 rid) := hpe
  have s2 : cancelAlarm (w.req rid).alarm (w.setEnts fun es => Ents.remove es ppr.addr box m)
      = (dropArmed w ⟨ppr.addr, box, m, rid⟩ t, none) := by
    rw [ht]; exact cancelTimer_pending _ t _ hp1
  rw [seq_ok s2, hd]
  exact fireDfd_unfired _ d _ hnf

end Mqtt
