import MqttVerif.Generated.Config
import MqttVerif.Spec.Dispatch
/-
  Obligations on the configuration regenerated from /repo's current source: the constants the
  property texts name and the state-class dispatch matrix. A source change that moves a constant
  out of its prescribed value, or adds/removes an override in a state class, breaks one of these.
-/
namespace Mqtt.ConfigOk

/-- C14: the state classes override exactly what the property prescribes -/
theorem dispatch_ok : Config.dispatchTable = Spec.dispatchTable := by decide

/-- C20: window sizes 1..16, initial timeouts 1..1024 -/
theorem maxWindow_ok : Config.maxWindow = 16 := by decide
theorem timeoutMax_ok : Config.timeoutMaxInitial = 1024 := by decide

/-- hypotheses of the generic theorems: any values in these ranges re-prove silently -/
theorem timeoutInitial_ok : 1 ≤ Config.timeoutInitial ∧ Config.timeoutInitial ≤ Config.timeoutMaxInitial := by decide
theorem bandwith_ok : 0 < Config.defaultBandwith ∧ 1 ≤ Config.defaultFactor := by decide
theorem interval_ok : 2 ≤ Config.intervalFactor ∧ 1 ≤ Config.intervalMaxDelay := by decide
theorem versions_ok : Config.v31Level = 3 ∧ Config.v311Level = 4 ∧ Config.v31Tag = "MQIsdp" ∧ Config.v311Tag = "MQTT" := by decide
theorem profiles_ok : Config.profiles = [1, 2, 3] := by decide

/-- type nibbles with a decoder on the protocol class: CONNACK, PUBLISH, PUBACK, PUBREC, PUBREL, PUBCOMP,
    SUBACK, UNSUBACK, PINGRESP -- exactly the packets a broker sends -/
theorem handled_ok : Config.handledTypes =
    [false, false, true, true, true, true, true, true, false, true, false, true, false, true, false, false] := by decide
theorem known_ok : Config.knownTypes = (List.range 16).map (fun t => decide (t < 15)) := by decide

end Mqtt.ConfigOk
