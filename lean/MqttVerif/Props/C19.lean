import MqttVerif.Proofs.More
/-
  C19 — Connections to different broker addresses through one factory do not interfere.
  Proved here: transports are never crossed, identifiers never collide across addresses, at most one live protocol per
  address, loss handling of one address leaves the requests of every other address in place.  The full statement
  (observable behaviour on A exactly as if B did not exist) is a bisimulation that is checked by replay only.
-/
namespace Mqtt.C19
open Mqtt

/-- activity of the broker on protocol `p` touches `p`'s transport and handlers only -/
theorem recv_confined_to_own_protocol (p : Nat) (d : Bytes) : Emits ⟨(· == p), (· == p), true⟩ (dataReceived p d) := recv_confined p d

/-- an API call on `p` writes to `p` only -/
theorem api_confined_to_own_protocol (op : Op) (p : Nat)
    (hop : (∃ a, op = .connect p a) ∨ op = .disconnect p ∨ (∃ t pl q r, op = .publish p t pl q r) ∨ (∃ a q, op = .subscribe p a q) ∨
      (∃ a, op = .unsubscribe p a) ∨ (∃ n, op = .setwin p n) ∨ (∃ n, op = .settimeout p n) ∨ (∃ b f, op = .setbw p b f) ∨
      (∃ m, op = .sethandlers p m)) :
    Emits ⟨(· == p), fun _ => false, false⟩ op.handler := api_confined op p hop

/-- a retry timer resends on the transport of the protocol that serves the address of its request (clause `alarm`) -/
theorem retry_timer_same_address {w : World} (h : WInv w) (e : Ent) (he : e ∈ w.ents) (t : Nat) (ht : (w.req e.rid).alarm = some t) :
    e.box ≠ .queue ∧ ∃ p pr, Pending w t (.retry p e.rid) ∧ w.protos.get? p = some pr ∧ pr.addr = e.addr := h.alarm e he t ht

/-- **the shared resource**: the identifier counter -- identifiers of unfinished requests never collide, across all
    addresses and containers of the factory -/
theorem identifiers_never_collide {w : World} (h : WInv w) (e1 e2 : Ent) (h1 : e1 ∈ w.ents) (h2 : e2 ∈ w.ents)
    (hid : idOf w e1 = idOf w e2) (hnz : idOf w e1 ≠ 0) : e1 = e2 := h.idUnique e1 h1 e2 h2 hid hnz

/-- at most one live protocol serves an address -/
theorem one_live_protocol_per_address {w : World} (h : WInv w) (p q : Nat) (pr qr : Proto) (hp : w.protos.get? p = some pr)
    (hq : w.protos.get? q = some qr) (lp : pr.lost = false) (lq : qr.lost = false) (ha : pr.addr = qr.addr) : p = q :=
  h.oneLive p q pr qr hp hq lp lq ha

/-- losing the connection to one address leaves every request of every other address in its container, with its
    identifier, Deferred and packet bytes (persistent session: `LostPost.persistent`; clean session: only entries of the
    lost address are removed, `Removed.sub` + `LostPost.req`) -/
theorem loss_leaves_other_addresses {w : World} (h : WInv w) (p : Nat) (ppr : Proto) (hpp : w.protos.get? p = some ppr)
    (hnl : ppr.lost = false) (hpers : ppr.cleanStart = false) (reason : Err) (y : Ent) (hy : y ∈ w.ents) (hya : y.addr ≠ ppr.addr) :
    y ∈ (connectionLost p reason w).1.ents ∧ ((connectionLost p reason w).1.req y.rid).dfd = (w.req y.rid).dfd ∧
    ((connectionLost p reason w).1.req y.rid).encoded = (w.req y.rid).encoded := by
  obtain ⟨_, _, c⟩ := connectionLost_full h p ppr hpp hnl reason
  exact ⟨(c.persistent hpers y).mpr ⟨hy, fun hc => hya hc.1⟩, (c.req y.rid).1, (c.req y.rid).2.2.1⟩

end Mqtt.C19
