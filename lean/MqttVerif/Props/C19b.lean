import MqttVerif.Proofs.TimerFrame
import MqttVerif.Proofs.EnvOk
import MqttVerif.Props.ConfigAddr
/-
  C19, the mechanism the property is anchored in: "every access goes through [self.addr]".

  The six per-address dictionaries of the factory (held-back queue, the four windows of requests in flight, the store of received
  QoS 2 messages) are the lists `ents` and `rx` of the model, each entry tagged with its address.  `w.only A` deletes from them every
  entry of an address other than `A`.  Proved here for EVERY world `w` -- no invariant, no `Env`, any history before it --:

    * `own_step`   : an operation run by a protocol of address `A` cannot tell `w` from `w.only A`: same result, same observations,
                     and the world it leaves is `(step w op).only A`.  It neither reads nor writes an entry of another address.
    * `other_step` : an operation run by a protocol of another address leaves the `A`-part of all six dictionaries exactly as it was.
    * `free_step`  : operations run by no protocol (`buildProtocol`, the handshake timeout) do both.

  and lifted to histories of any length (`others_never_touch`, `own_history_ignores_others`).

  The one thing through which addresses see each other is `makeId`: it scans the identifiers of all addresses.  For the three calls
  that draw an identifier `own_step` is conditional on `IdAgree`: the identifier drawn is the one that would be drawn if the other
  addresses had nothing unfinished (always so when the next identifier of the counter is free, `idAgree_of_next_free`).  That the
  identifiers nevertheless never collide is `C19.identifiers_never_collide`.

  The object layer, in every state reachable from a fresh factory (`WInv`; `Env` for the operation): an operation run by a protocol of
  another address leaves untouched
    * every request object A's dictionaries refer to -- bytes, identifier, QoS, Deferred, timer reference, interval (`other_step_requests`),
    * the Deferreds of those requests: still theirs, still unfired (`other_step_deferreds`),
    * every pending retransmission timer of A's requests and the pending keepalive timers of A's protocols (`other_step_timers`; and no
      operation at all re-programs a timer, `timers_never_reprogrammed`),
    * every protocol object but its own (`writes_own_protocol_only`, no invariant needed).

  What is still NOT one theorem (and the solo-replay comparison on the real code checks on every run): the composition of all this into a
  bisimulation "the interleaved run restricted to A = A's solo run with identifiers renamed"; handshake records and `onDisconnection`
  timers are covered by the invariant (`connecting`, `connackOwned`) and by C04's theorems, not by a frame theorem of their own.
-/
namespace Mqtt.C19
open Mqtt

theorem own_step {A p : Nat} {w : World} {op : Op} (hop : op.proto? w = some p) (hp : w.paddr p = A) (hid : IdAgree A w op) :
    step (w.only A) op = (step w op).only A := Mqtt.own_step hop hp hid

theorem other_step {A q : Nat} {w : World} {op : Op} (hop : op.proto? w = some q) (hq : w.paddr q ≠ A) :
    (step w op).ents.filter (onA A) = w.ents.filter (onA A) ∧ (step w op).rx.filter (rxOnA A) = w.rx.filter (rxOnA A) :=
  Mqtt.other_step hop hq

theorem free_step {w : World} {op : Op} (hop : op.proto? w = none) (A : Nat) :
    step (w.only A) op = (step w op).only A ∧ SameA A w (step w op) := Mqtt.free_step hop A

/-- `IdAgree` holds whenever the identifier the counter points at next is free: both scans stop at once -/
theorem idAgree_of_next_free (A : Nat) (w : World) (h : idInUse w (bumpId w.nextId) = false) :
    scanId (w.only A) 65535 w.nextId = scanId w 65535 w.nextId := by
  have h' : idInUse (w.only A) (bumpId w.nextId) = false := by
    simp only [idInUse, List.any_eq_false] at h ⊢
    intro e he
    have := h e (List.mem_filter.mp he).1
    simpa using this
  have key : ∀ (v : World) (n cur : Nat), idInUse v (bumpId cur) = false → scanId v (n + 1) cur = bumpId cur := by
    intro v n cur hv; simp only [scanId, hv]; rfl
  show scanId (w.only A) (65534 + 1) w.nextId = scanId w (65534 + 1) w.nextId
  rw [key _ _ _ h, key _ _ _ h']

/-- **session state**: an operation run by protocol `p` writes to no protocol object but `p` -- not to the state, version, receive
    buffer, window size, session mode, keepalive objects, handler slots or handshake reference of any other protocol of the factory,
    whether it serves another address or (an earlier, lost one) the same -/
theorem writes_own_protocol_only (w : World) (op : Op) (p q : Nat) (hop : op.proto? w = some p) (hq : q ≠ p) :
    (step w op).protos.get? q = w.protos.get? q := step_protos w op q (by rw [hop]; exact hq)

/-- **request objects and their Deferreds**: in a state reachable from a fresh factory (`WInv`), an operation run by a protocol of another
    address leaves every request object that the dictionaries of address `A` refer to exactly as it was: the packet bytes (and so the DUP
    bit), identifier, QoS, the Deferred it will fire, its retry-timer reference and retry interval -/
theorem other_step_requests {w : World} (hw : WInv w) {op : Op} {q A : Nat} (hop : op.proto? w = some q) (hq : w.paddr q ≠ A) :
    ∀ e ∈ w.ents, e.addr = A → (step w op).reqs.get? e.rid = w.reqs.get? e.rid := Mqtt.other_step_requests hw hop hq

/-- **timers**: in a reachable state, an operation run by a protocol of another address leaves every pending retransmission timer of a request
    of address `A` and the pending keepalive timers of a protocol of address `A` exactly as they are (due time, callback, status) -/
theorem other_step_timers {w : World} (hw : WInv w) {op : Op} (henv : Env w op) {q A : Nat} (hop : op.proto? w = some q) (hq : w.paddr q ≠ A)
    (t p : Nat) (hp : w.paddr p = A) (k : TKind) (hk : (∃ rid, k = .retry p rid) ∨ k = .pingAlarm p ∨ k = .pingLoop p)
    (hpend : Pending w t k) : (step w op).timers.get? t = w.timers.get? t := Mqtt.other_step_timers hw henv hop hq t p hp k hk hpend

/-- **pending Deferreds**: the Deferred of every request that the dictionaries of address `A` hold is still the Deferred of that request and
    still unfired after any operation run by a protocol of another address (it can only be fired by an operation of its own address) -/
theorem other_step_deferreds {w : World} (hw : WInv w) {op : Op} (henv : Env w op) {q A : Nat} (hop : op.proto? w = some q) (hq : w.paddr q ≠ A)
    (e : Ent) (he : e ∈ w.ents) (hea : e.addr = A) (d : Nat) (hd : (w.req e.rid).dfd = some d) :
    e ∈ (step w op).ents ∧ ((step w op).req e.rid).dfd = some d ∧ d ∉ (step w op).fired := by
  have hw' : WInv (step w op) := step_inv hw op henv
  have hsame := Mqtt.other_step hop hq
  have he' : e ∈ (step w op).ents := by
    have : e ∈ w.ents.filter (onA A) := List.mem_filter.mpr ⟨he, by simp [onA, hea]⟩
    rw [← hsame.1] at this
    exact (List.mem_filter.mp this).1
  have hreq : (step w op).req e.rid = w.req e.rid := by
    simp only [World.req, Mqtt.other_step_requests hw hop hq e he hea]
  exact ⟨he', by rw [hreq]; exact hd, (hw'.dfdFresh e he' d (by rw [hreq]; exact hd)).2⟩

/-- and no operation whatsoever re-programs a timer: due time and callback of every DelayedCall are fixed when it is created -/
theorem timers_never_reprogrammed {w : World} (hw : WInv w) (op : Op) (t : Nat) (tm : Timer) (ht : w.timers.get? t = some tm) :
    ∃ tm', (step w op).timers.get? t = some tm' ∧ tm'.due = tm.due ∧ tm'.kind = tm.kind :=
  (step_timers_keep w (fun t tm h => hw.timerFresh t tm h) op).keep t tm ht

/-! ### histories -/

/-- no operation of the history is run by a protocol of address `A` -/
def foreign (A : Nat) : World → List Op → Bool
  | _, [] => true
  | w, op :: r => (match op.proto? w with | some q => decide (w.paddr q ≠ A) | none => true) && foreign A (step w op) r

/-- **any amount of activity on other addresses** -- API calls, received bytes in any chunking, connection losses, reconnections,
    timers -- leaves the held-back queue, the four windows and the inbound store of address `A` exactly as they were -/
theorem others_never_touch (A : Nat) : ∀ (ops : List Op) (w : World), foreign A w ops = true → SameA A w (run w ops) := by
  intro ops
  induction ops with
  | nil => intro w _; exact SameA.refl A w
  | cons op r ih =>
    intro w h
    simp only [foreign, Bool.and_eq_true] at h
    have h1 : SameA A w (step w op) := by
      cases hop : op.proto? w with
      | none => exact (Mqtt.free_step hop A).2
      | some q =>
        have := h.1; rw [hop] at this
        exact Mqtt.other_step hop (by simpa using this)
    exact h1.trans (ih (step w op) h.2)

instance (A : Nat) (w : World) (op : Op) : Decidable (IdAgree A w op) := by
  cases op <;> simp only [IdAgree] <;> infer_instance

/-- every operation of the history is run by a protocol of address `A` (or by none) and draws the identifier it would draw alone -/
def mine (A : Nat) : World → List Op → Bool
  | _, [] => true
  | w, op :: r => (match op.proto? w with | some q => decide (w.paddr q = A) | none => true) && decide (IdAgree A w op) && mine A (step w op) r

/-- **a history of address `A` runs the same whatever the other addresses hold**: started from `w` or from `w.only A` it returns the
    same results, makes the same observations (the log is part of the world) and ends in the same world up to the other addresses' entries -/
theorem own_history_ignores_others (A : Nat) : ∀ (ops : List Op) (w : World), mine A w ops = true →
    run (w.only A) ops = (run w ops).only A := by
  intro ops
  induction ops with
  | nil => intro w _; rfl
  | cons op r ih =>
    intro w h
    simp only [mine, Bool.and_eq_true, decide_eq_true_eq] at h
    have h1 : step (w.only A) op = (step w op).only A := by
      cases hop : op.proto? w with
      | none => exact (Mqtt.free_step hop A).1
      | some q =>
        have := h.1.1; rw [hop] at this
        exact Mqtt.own_step hop (by simpa using this) h.1.2
    show run (step (w.only A) op) r = (run (step w op) r).only A
    rw [h1]
    exact ih (step w op) h.2

/-! ### not vacuous: two addresses served at once -/

def twoUp : List Op :=
  [ .build 0, .build 1, .sethandlers 0 7, .sethandlers 1 7, .connect 0 (cargs 0 false), .connect 1 (cargs 5 true),
    .recv 0 [0x20, 2, 0, 0], .recv 1 [0x20, 2, 0, 0],
    .publish 0 (.str "a") (.bytearray [1]) 1 false, .publish 0 (.str "b") (.bytearray [2]) 2 false,
    .recv 0 [0x30, 6, 0, 1, 0x78, 0, 9, 7] ]
def onOne : List Op :=
  [ .publish 1 (.str "x") (.bytearray [3]) 2 false, .subscribe 1 (.str "t") 1, .recv 1 [0x50, 2, 0, 3], .recv 1 [0x34, 6, 0, 1, 0x79, 0, 9, 7],
    .lost 1 .connLost, .build 1, .connect 2 (cargs 0 true), .recv 2 [0x20, 2, 0, 0] ]
def onZero : List Op :=
  [ .publish 0 (.str "c") (.bytearray [4]) 1 false, .recv 0 [0x40, 2, 0, 1], .recv 0 [0x50, 2, 0, 2], .lost 0 .connLost ]

theorem twoUp_env : EnvRun (World.init 3) (twoUp ++ onOne ++ onZero) := envRunOk_sound _ _ (by decide +kernel)
/-- the activity on address 1 is foreign to address 0, whose dictionaries hold two requests at that point -/
example : foreign 0 (run (World.init 3) twoUp) onOne = true ∧ ((run (World.init 3) twoUp).ents.filter (onA 0)).length = 2
    ∧ ((run (World.init 3) (twoUp ++ onOne)).ents.filter (onA 1)).length = 0 := by decide +kernel
/-- the hypotheses of `other_step_requests` / `other_step_timers` are met there: address 0 has a pending retry timer (timer 4, request 0)
    and address 1 pending keepalive timers while operations are run for the other address -/
example : ((run (World.init 3) twoUp).timers.get? 4).map (fun t => (t.kind, t.status)) = some (.retry 0 0, .pending)
    ∧ ((run (World.init 3) twoUp).timers.get? 2).map (fun t => (t.kind, t.status)) = some (.pingAlarm 1, .pending)
    ∧ (run (World.init 3) twoUp).paddr 0 = 0 ∧ (run (World.init 3) twoUp).paddr 1 = 1 := by decide +kernel
/-- and the later activity on address 0 is `mine` -/
example : mine 0 (run (World.init 3) (twoUp ++ onOne)) onZero = true := by decide +kernel

end Mqtt.C19
