import MqttVerif.Props.C19b
/-
  C19 over histories, object layer: any history that is foreign to address `A` and respects `Env` leaves every request object that `A`'s
  dictionaries hold -- and the Deferred each of them will fire -- exactly as it was, however long the history.
-/
namespace Mqtt.C19
open Mqtt

theorem connackTimer_reqs (cr : Nat) (w : World) : (runTimer (.connack cr) w).1.reqs = w.reqs ∧ (runTimer (.connack cr) w).1.ents = w.ents := by
  unfold runTimer
  simp only [Step.read]
  cases hc : w.connReqs.get? cr with
  | none => exact ⟨rfl, rfl⟩
  | some c =>
    dsimp only
    cases hd : c.dfd with
    | none => exact ⟨rfl, rfl⟩
    | some d =>
      dsimp only
      by_cases hf : d ∈ w.fired
      · simp only [Step.seq, fireDfd, Step.read, hf, ↓reduceIte, Step.raise]; trivial
      · simp only [Step.seq, fireDfd, Step.read, hf, ↓reduceIte, Step.mod, emit, abort]; trivial

/-- an operation run by no protocol leaves the request table and the dictionaries alone -/
theorem free_step_requests {w : World} {op : Op} (hop : op.proto? w = none) : (step w op).reqs = w.reqs ∧ (step w op).ents = w.ents := by
  have key : (op.handler w).1.reqs = w.reqs ∧ (op.handler w).1.ents = w.ents := by
    cases op with
    | build a => exact ⟨rfl, rfl⟩
    | jit v => exact ⟨rfl, rfl⟩
    | setid v => exact ⟨rfl, rfl⟩
    | fire t =>
      show (fireTimer t w).1.reqs = w.reqs ∧ (fireTimer t w).1.ents = w.ents
      cases ht : w.timers.get? t with
      | none => simp only [fireTimer, Step.read, ht]; exact ⟨rfl, rfl⟩
      | some tm =>
        have hk : ∃ cr, tm.kind = .connack cr := by
          simp only [Op.proto?, ht] at hop
          cases hk : tm.kind <;> rw [hk] at hop <;> simp at hop
          exact ⟨_, rfl⟩
        obtain ⟨cr, hk⟩ := hk
        simp only [fireTimer, Step.read, ht]
        by_cases hs : tm.status = .pending
        · rw [if_pos hs, hk]
          simp only [Step.seq, Step.mod]
          exact connackTimer_reqs cr _
        · rw [if_neg hs]; exact ⟨rfl, rfl⟩
    | sethandlers q m => simp [Op.proto?] at hop
    | connect q a => simp [Op.proto?] at hop
    | disconnect q => simp [Op.proto?] at hop
    | publish q t pl qs r => simp [Op.proto?] at hop
    | subscribe q a qs => simp [Op.proto?] at hop
    | unsubscribe q a => simp [Op.proto?] at hop
    | setwin q n => simp [Op.proto?] at hop
    | settimeout q n => simp [Op.proto?] at hop
    | setbw q b f => simp [Op.proto?] at hop
    | recv q d => simp [Op.proto?] at hop
    | lost q r => simp [Op.proto?] at hop
  unfold step
  rcases hh : op.handler w with ⟨w', _ | e⟩ <;> (rw [hh] at key; exact key)

/-- **histories**: a history foreign to `A` that respects `Env`, started in a reachable state, leaves every request object of `A`'s
    dictionaries in place and untouched -/
theorem others_never_touch_requests (A : Nat) : ∀ (ops : List Op) (w : World), WInv w → EnvRun w ops → foreign A w ops = true →
    ∀ e ∈ w.ents, e.addr = A → e ∈ (run w ops).ents ∧ (run w ops).reqs.get? e.rid = w.reqs.get? e.rid := by
  intro ops
  induction ops with
  | nil => intro w _ _ _ e he _; exact ⟨he, rfl⟩
  | cons op r ih =>
    intro w hw henv hf e he hea
    simp only [foreign, Bool.and_eq_true] at hf
    have hw' : WInv (step w op) := step_inv hw op henv.1
    have h1 : e ∈ (step w op).ents ∧ (step w op).reqs.get? e.rid = w.reqs.get? e.rid := by
      cases hop : op.proto? w with
      | none =>
        obtain ⟨a, b⟩ := free_step_requests hop
        exact ⟨by rw [b]; exact he, by rw [a]⟩
      | some q =>
        have hq : w.paddr q ≠ A := by have := hf.1; rw [hop] at this; simpa using this
        have hsame := Mqtt.other_step hop hq
        refine ⟨?_, Mqtt.other_step_requests hw hop hq e he hea⟩
        have : e ∈ w.ents.filter (onA A) := List.mem_filter.mpr ⟨he, by simp [onA, hea]⟩
        rw [← hsame.1] at this
        exact (List.mem_filter.mp this).1
    obtain ⟨i1, i2⟩ := ih (step w op) hw' henv.2 hf.2 e h1.1 hea
    exact ⟨i1, i2.trans h1.2⟩

/-- and the Deferred each of those requests will fire is still unfired at the end -/
theorem others_never_fire (A : Nat) (ops : List Op) (w : World) (hw : WInv w) (henv : EnvRun w ops) (hf : foreign A w ops = true)
    (e : Ent) (he : e ∈ w.ents) (hea : e.addr = A) (d : Nat) (hd : (w.req e.rid).dfd = some d) :
    ((run w ops).req e.rid).dfd = some d ∧ d ∉ (run w ops).fired := by
  obtain ⟨i1, i2⟩ := others_never_touch_requests A ops w hw henv hf e he hea
  have hreq : (run w ops).req e.rid = w.req e.rid := by simp only [World.req, i2]
  have hw' : WInv (run w ops) := run_inv ops hw henv
  exact ⟨by rw [hreq]; exact hd, (hw'.dfdFresh e i1 d (by rw [hreq]; exact hd)).2⟩

/-- not vacuous: the hypotheses hold for the demonstration history of C19b (address 0 holds two requests while nine operations run for address 1) -/
theorem onOne_env : EnvRun (run (World.init 3) twoUp) onOne := envRunOk_sound onOne _ (by decide +kernel)
example : foreign 0 (run (World.init 3) twoUp) onOne = true ∧
    (((run (World.init 3) twoUp).ents.filter (onA 0)).map fun e => ((run (World.init 3) twoUp).req e.rid).dfd) = [some 2, some 3] := by decide +kernel

end Mqtt.C19
