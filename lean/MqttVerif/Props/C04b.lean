import MqttVerif.Proofs.OnDisc
/-
  C04, the notification half: the `onDisconnection` handler of a protocol is called at most once, and only after the loss of
  that protocol has been reported -- in every history that respects `Env` (in particular: `connectionLost` is delivered at most
  once per protocol). "At least once" needs the reactor to run the 0.1 s timer that `connectionLost` schedules, which is an
  assumption about the environment, not a theorem.
-/
namespace Mqtt.C04
open Mqtt

/-- the number of `onDisconnection(p)` calls in the log of any reachable world is at most one -/
theorem notified_at_most_once (profile : Nat) (hp : profile = 1 ∨ profile = 2 ∨ profile = 3) (ops : List Op)
    (henv : EnvRun (World.init profile) ops) (p : Nat) :
    ((run (World.init profile) ops).log.filter (isODObs p)).length ≤ 1 := Mqtt.notified_at_most_once profile hp ops henv p

/-- and a call has been made only if the protocol has been reported lost -/
theorem notified_only_after_loss (profile : Nat) (hp : profile = 1 ∨ profile = 2 ∨ profile = 3) (ops : List Op)
    (henv : EnvRun (World.init profile) ops) (p : Nat)
    (hn : 0 < ((run (World.init profile) ops).log.filter (isODObs p)).length) :
    ∃ pr, (run (World.init profile) ops).protos.get? p = some pr ∧ pr.lost = true := Mqtt.notified_only_after_loss profile hp ops henv p hn

/-- one operation: the counts that carry the argument (notifications reported ≤ notification timers that ran ≤ notification
    timers created ≤ 1, and a timer exists only for a lost protocol) are an invariant -/
theorem notification_bookkeeping {w : World} (hw : WInv w) (h : ODInv w) (op : Op) (henv : Env w op) : ODInv (step w op) := od_step hw h op henv

/-- not vacuous: a history in which the handler is called -- once, although the expired timer is "fired" again -/
def notifyDemo : List Op :=
  [ .build 0, .sethandlers 0 7, .connect 0 (cargs 0 true), .recv 0 [0x20, 2, 0, 0], .lost 0 .connLost, .fire 1, .fire 1, .fire 0 ]
theorem notifyDemo_env : EnvRun (World.init 3) notifyDemo := envRunOk_sound notifyDemo (World.init 3) (by decide +kernel)
example : ((run (World.init 3) notifyDemo).log.filter (isODObs 0)).length = 1 := by decide +kernel

end Mqtt.C04
