import MqttVerif.Proofs.Owned
/-
  "None is left hanging" (C05, C07, C10, C11, C12, C16): the part of those properties that says a Deferred handed to the
  application is never silently dropped. `Owned w`: every Deferred allocated so far that has not fired is the Deferred of
  a request still held in a container of the factory (the queue of held-back publishes or one of the four windows) or of
  a handshake record. What happens to the owner is the subject of the other theorems: an in-flight request of a connected
  protocol has a retry timer running and is settled by its acknowledgement; a loss fails it or keeps it for the next
  connection; a handshake record has its deadline timer.
-/
namespace Mqtt.Pending
open Mqtt

/-- after every history (API calls, bytes received in any chunking, losses, timer expiries in any order) that respects `Env`,
    from a fresh factory of any profile, no unfired Deferred is without owner -/
theorem never_orphaned (profile : Nat) (hp : profile = 1 ∨ profile = 2 ∨ profile = 3) (ops : List Op)
    (henv : EnvRun (World.init profile) ops) :
    ∀ d, d < (run (World.init profile) ops).nextDfd → d ∉ (run (World.init profile) ops).fired →
      (∃ e ∈ (run (World.init profile) ops).ents, ((run (World.init profile) ops).req e.rid).dfd = some d) ∨
      (∃ cr c, (run (World.init profile) ops).connReqs.get? cr = some c ∧ c.dfd = some d) :=
  (reachable_owned profile hp ops henv).1

/-- ... and the QoS level recorded in a request fits the container that holds it: the release window (PUBREL sent, awaiting PUBCOMP)
    holds QoS 2 exchanges only -- entries get there through `handlePUBREC` alone, which ignores a PUBREC bearing the identifier
    of a QoS 1 message --, the publish window holds QoS 1 and QoS 2 messages, a held-back message has an identifier exactly when
    its QoS is not 0. So a PUBCOMP can only complete a QoS 2 publish whose PUBREC has been received (C05, C09). -/
theorem qos_fits_container (profile : Nat) (hp : profile = 1 ∨ profile = 2 ∨ profile = 3) (ops : List Op)
    (henv : EnvRun (World.init profile) ops) :
    ∀ e ∈ (run (World.init profile) ops).ents,
      (e.box = .rel → ((run (World.init profile) ops).req e.rid).qos = 2) ∧
      (e.box = .pub → ((run (World.init profile) ops).req e.rid).qos = 1 ∨ ((run (World.init profile) ops).req e.rid).qos = 2) ∧
      (e.box = .queue → (((run (World.init profile) ops).req e.rid).msgId = 0 ↔ ((run (World.init profile) ops).req e.rid).qos = 0) ∧
        ((run (World.init profile) ops).req e.rid).qos < 3) :=
  fun e he => ((reachable_owned profile hp ops henv).2 e he).2

/-- one operation never orphans a Deferred: an owned one stays owned or fires, fired ones stay fired, new ones are owned
    (or, like the one of a rejected call, fired at once) -/
theorem step_keeps {w : World} (h : WInv w) (hq : Q0 w) (op : Op) (henv : Env w op) : Keeps w (step w op) ∧ Q0 (step w op) :=
  step_kq h op henv hq

/-- connection loss under a clean session fires the Deferred of every request of the address, whatever container holds it -/
theorem clean_loss_fails_all {w : World} (h : WInv w) (hq : Q0 w) (p : Nat) (ppr : Proto) (hpp : w.protos.get? p = some ppr)
    (hnl : ppr.lost = false) (hcs : ppr.cleanStart = true) (reason : Err) :
    ∀ e ∈ w.ents, e.addr = ppr.addr → ∀ d, (w.req e.rid).dfd = some d → d ∈ (connectionLost p reason w).1.fired :=
  lost_clean_fires_all h hq p ppr hpp hnl hcs reason

/-- under a persistent session it fires those of the SUBSCRIBE/UNSUBSCRIBE requests of the address (the publishes stay,
    `C12.publishes_survive`) -/
theorem persistent_loss_fails_subs {w : World} (h : WInv w) (hq : Q0 w) (p : Nat) (ppr : Proto) (hpp : w.protos.get? p = some ppr)
    (hnl : ppr.lost = false) (hcs : ppr.cleanStart = false) (reason : Err) :
    ∀ e ∈ w.ents, e.addr = ppr.addr → (e.box = .sub ∨ e.box = .unsub) → ∀ d, (w.req e.rid).dfd = some d →
      d ∈ (connectionLost p reason w).1.fired :=
  lost_persistent_fires_subs h hq p ppr hpp hnl hcs reason

/-- the hypotheses are satisfiable: the demo history (requests of every kind in flight, refused and accepted handshakes,
    retransmissions, garbage, a persistent reconnect, a clean loss) respects `Env`, so its every prefix is covered -/
theorem demo_owned : Owned (run (World.init 3) demo) := (reachable_owned 3 (Or.inr (Or.inr rfl)) demo demo_env).1

/-- ... and the statement is not vacuous on it: after the first 13 operations seven Deferreds have been handed out and only two
    have fired; the other five are owned by entries -/
example : (run (World.init 3) (demo.take 13)).nextDfd = 7 ∧ (run (World.init 3) (demo.take 13)).fired.length = 2 ∧
    ((run (World.init 3) (demo.take 13)).ents.filter fun e => ((run (World.init 3) (demo.take 13)).req e.rid).dfd.isSome).length = 5 := by
  decide +kernel

end Mqtt.Pending
