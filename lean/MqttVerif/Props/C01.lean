import MqttVerif.Proofs.Pdu
/-
  C01 — Packet codec round trip: decode(encode(x)) == x for every packet and field value.
  Statements only; proofs are in Proofs/Prim.lean and Proofs/Pdu.lean. The functions are the
  transcription of src/mqtt/pdu.py (Model/Prim.lean, Model/Pdu.lean); the correspondence check
  ties them to the Python on every run.
-/
namespace Mqtt.C01

/-- 16-bit integers: `decode16Int ∘ encode16Int = id` on the whole domain 0..65535. -/
theorem int16_roundtrip (v : Nat) (h : v < 65536) (rest : Bytes) :
    ∃ bs, encode16Int (v : Int) = .ok bs ∧ bs.length = 2 ∧ bs.WF ∧ decode16Int (bs ++ rest) = .ok v :=
  decode16_encode16 v h rest

/-- ... and `encode16Int ∘ decode16Int = id` on byte pairs: the two are exact inverses. -/
theorem int16_inverse (a b : Nat) (ha : a < 256) (hb : b < 256) :
    encode16Int ((a * 256 + b : Nat) : Int) = .ok [a, b] :=
  encode16_decode16 a b ha hb

/-- Remaining length: `decodeLength ∘ encodeLength = id` for every n (in particular 0..268435455,
    where the field has 1..4 bytes), whatever bytes follow the field. -/
theorem remaining_length_roundtrip (n : Nat) (rest : Bytes) :
    decodeLength (encodeLength n ++ rest) = n ∧ (encodeLength n).WF ∧
      (n ≤ 268435455 → 1 ≤ (encodeLength n).length ∧ (encodeLength n).length ≤ 4) :=
  ⟨decodeLength_encodeLength n rest, encodeLength_WF n, encodeLength_length n⟩

/-- Length-prefixed UTF-8 strings of up to 65535 bytes, over the whole of Unicode (a Lean `String`
    is exactly a `str` that Python can encode as UTF-8). -/
theorem string_roundtrip (s : String) (h : s.utf8ByteSize ≤ 65535) (rest : Bytes) :
    ∃ bs, encodeString s = .ok bs ∧ bs.WF ∧ bs.length = 2 + s.utf8ByteSize ∧
      decodeString (bs ++ rest) = .ok (s, rest) :=
  decodeString_encodeString s h rest

/-- CONNECT, every valid assignment (both versions, every flag combination, any strings). -/
theorem connect (f : ConnectF) (hv : f.Valid) :
    ∃ bs, f.encode = .ok bs ∧ bs.WF ∧ ConnectD.decode bs = .ok f.norm :=
  ConnectF.roundtrip f hv

theorem connack (f : ConnackF) (h : f.resultCode < 256) :
    ∃ bs, f.encode = .ok bs ∧ bs.WF ∧ ConnackF.decode bs = .ok f :=
  ConnackF.roundtrip f h

/-- PUBLISH: text topic equal as a string, str payload back as its UTF-8 bytes. -/
theorem publish (f : PublishF) (hv : f.Valid) (hw : f.payload.bytes.WF) :
    ∃ bs, f.encode = .ok bs ∧ bs.WF ∧ PublishD.decode bs = .ok f.norm :=
  PublishF.roundtrip f hv hw

/-- PUBACK, PUBREC, PUBCOMP, UNSUBACK (all four share `encodeAck`/`decodeAck`). -/
theorem acks (m : Nat) (hm : m < 65536) :
    (∃ bs, encodePUBACK (m : Int) = .ok bs ∧ bs.WF ∧ decodeAck bs = .ok m) ∧
    (∃ bs, encodePUBREC (m : Int) = .ok bs ∧ bs.WF ∧ decodeAck bs = .ok m) ∧
    (∃ bs, encodePUBCOMP (m : Int) = .ok bs ∧ bs.WF ∧ decodeAck bs = .ok m) ∧
    (∃ bs, encodeUNSUBACK (m : Int) = .ok bs ∧ bs.WF ∧ decodeAck bs = .ok m) :=
  ⟨decodeAck_encodeAck _ (by decide) m hm, decodeAck_encodeAck _ (by decide) m hm,
   decodeAck_encodeAck _ (by decide) m hm, decodeAck_encodeAck _ (by decide) m hm⟩

theorem pubrel (m : Nat) (hm : m < 65536) :
    ∃ bs, encodePUBREL (m : Int) = .ok bs ∧ bs.WF ∧ decodePUBREL bs = .ok (m, false) :=
  decodePUBREL_encodePUBREL m hm

/-- SUBSCRIBE with a topic list of any length. -/
theorem subscribe (m : Nat) (ts : List (String × Nat)) (hm : m < 65536) (ht : TopicsQValid ts) :
    ∃ bs, (SubscribeF.mk m ts).encode = .ok bs ∧ bs.WF ∧ SubscribeF.decode bs = .ok (SubscribeF.mk m ts) :=
  SubscribeF.roundtrip m ts hm ht

theorem suback (m : Nat) (g : List (Nat × Bool)) (hm : m < 65536) (hg : GrantedValid g) :
    ∃ bs, (SubackF.mk m g).encode = .ok bs ∧ bs.WF ∧ SubackF.decode bs = .ok (SubackF.mk m g) :=
  SubackF.roundtrip m g hm hg

theorem unsubscribe (m : Nat) (ts : List String) (hm : m < 65536) (ht : TopicsValid ts) :
    ∃ bs, (UnsubscribeF.mk m ts).encode = .ok bs ∧ bs.WF ∧
      UnsubscribeF.decode bs = .ok (UnsubscribeF.mk m ts) :=
  UnsubscribeF.roundtrip m ts hm ht

/-! Non-vacuity: concrete non-trivial assignments meet the hypotheses, and the functions compute. -/

example : (PublishF.mk "a/ñ" (.str "€") 2 true true (some 65535)).Valid :=
  ⟨by decide, by decide, by decide, fun _ => ⟨65535, rfl, by decide⟩, by decide, by decide⟩

example : (PublishF.mk "t" (.bytearray [1, 2]) 1 false false (some 7)).encode
    = .ok [0x32, 7, 0, 1, 0x74, 0, 7, 1, 2] := by decide

example : PublishD.decode [0x32, 7, 0, 1, 0x74, 0, 7, 1, 2] = .ok ⟨"t", [1, 2], 1, false, false, some 7⟩ := by
  decide

example : (ConnectF.mk "c" 60 (some "w") (some "m") 2 true (some "u") (some "p") true v311).Valid :=
  ⟨by decide, by decide, by decide, by decide, by decide, by decide⟩

end Mqtt.C01
