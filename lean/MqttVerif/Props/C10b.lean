import MqttVerif.Proofs.FifoStep
/-
  C10, the order clause: "first transmissions appear on the wire ... in exactly the order publish() was called".
  Every publish() stamps its request with the next value of a counter (`seq`, the order of the calls); a first transmission
  happens when `_refillPublish` takes the head of the queue of held-back messages (`C10.launches_head_first`). The theorems
  below say that in every reachable world the queue of each address is sorted by that stamp and lies below the counter:
  the head is the oldest held-back message, and whatever is published later is younger than everything still held back.
-/
namespace Mqtt.C10
open Mqtt

/-- in every reachable world the sequence numbers along the queue of each address increase strictly and are below the counter -/
theorem queue_in_publish_order (profile : Nat) (hp : profile = 1 ∨ profile = 2 ∨ profile = 3) (ops : List Op)
    (henv : EnvRun (World.init profile) ops) (a : Nat) :
    (QSeqs (run (World.init profile) ops) a).Pairwise (· < ·) ∧ ∀ s ∈ QSeqs (run (World.init profile) ops) a, s < (run (World.init profile) ops).nextSeq :=
  reachable_fifo profile hp ops henv a

/-- the message `_refillPublish` launches next -- the head of the queue -- was published before every other held-back message of
    the address -/
theorem head_is_oldest {w : World} (hf : Fifo w) (a : Nat) (e : Ent) (rest : List Ent)
    (hq : Ents.items w.ents a .queue = e :: rest) : ∀ q ∈ rest, (w.req e.rid).seq < (w.req q.rid).seq := by
  intro q hqm
  have := (hf a).1
  simp only [QSeqs, hq, List.map_cons, List.pairwise_cons] at this
  exact this.1 _ (List.mem_map_of_mem hqm)

/-- one operation only removes elements from the queues or appends messages stamped with fresh, larger numbers (so no operation
    reorders a queue, inserts in the middle, or re-queues a message already launched) -/
theorem step_only_drops_or_appends {w : World} (h : WInv w) (op : Op) (henv : Env w op) (a : Nat) :
    w.nextSeq ≤ (step w op).nextSeq ∧
    (QSeqs (step w op) a).Sublist (QSeqs w a ++ List.range' w.nextSeq ((step w op).nextSeq - w.nextSeq)) :=
  ⟨(step_qstep h op henv).mono, (step_qstep h op henv).sub a⟩

/-- not vacuous: with the default window of 1, four publishes in a row leave three messages held back, in publish order -/
def fifoDemo : List Op :=
  [ .build 0, .connect 0 (cargs 0 false), .recv 0 [0x20, 2, 0, 0],
    .publish 0 (.str "a") (.bytearray [1]) 1 false, .publish 0 (.str "b") (.bytearray [2]) 2 false,
    .publish 0 (.str "c") (.bytearray [3]) 0 false, .publish 0 (.str "d") (.bytearray [4]) 1 false ]

theorem fifoDemo_env : EnvRun (World.init 3) fifoDemo := envRunOk_sound fifoDemo (World.init 3) (by decide +kernel)

example : QSeqs (run (World.init 3) fifoDemo) 0 = [1, 2, 3] ∧ (run (World.init 3) fifoDemo).nextSeq = 4 := by decide +kernel

end Mqtt.C10
