import MqttVerif.Proofs.Local
/-
  C04 — connect() handshake outcome and connection-loss notification, exactly once each.
  Model: `apiConnect`, `handleCONNACK`, `runTimer (.connack _)`, `connectionLost` (Model/Step.lean, Model/Handlers.lean).
-/
namespace Mqtt.C04
open Mqtt

/-- connect() on a protocol whose loss has not been reported keeps the session invariant, whatever the arguments
    (refused with MQTTStateError, rejected with ValueError, or accepted: CONNECT written, state CONNECTING, timeout
    armed, fresh Deferred registered) -/
theorem connect_safe {w : World} (h : WInv w) (p : Nat) (a : ConnectArgs) (hlive : Live w p) : WInv (apiConnect p a w).1 :=
  apiConnect_inv h p a hlive

/-- the handshake state established by an accepted connect(): exactly one handshake record, with an unfired Deferred
    and a running timeout, is attached to a CONNECTING protocol -- this is clause `connecting` of the invariant -/
theorem connecting_has_one_pending_handshake {w : World} (h : WInv w) (p : Nat) (pr : Proto) (hp : w.protos.get? p = some pr)
    (hs : pr.state = .connecting) :
    ∃ cr c, pr.connReq = some cr ∧ w.connReqs.get? cr = some c ∧ c.proto = p ∧
      ∀ d, c.dfd = some d → d ∉ w.fired ∧ Pending w c.alarm (.connack cr) := h.connecting p pr hp hs

/-- CONNACK on a connecting protocol, any return code: nothing is raised and the invariant is kept; with return code 0
    the inherited session is purged or resumed and the keepalive loop started, otherwise the protocol is idle again -/
theorem connack_safe {w : World} (h : WInv w) (p : Nat) (ppr : Proto) (hpp : w.protos.get? p = some ppr)
    (hnl : ppr.lost = false) (hs : ppr.state = .connecting) (session : Bool) (rc : Nat) :
    (handleCONNACK p session rc w).2 = none ∧ WInv (handleCONNACK p session rc w).1 :=
  handleCONNACK_inv h p ppr hpp hnl hs session rc

/-- the CONNACK timeout: the Deferred fails with MQTTTimeoutError, the transport is aborted, the record is closed -/
theorem timeout_effect {w : World} (h : WInv w) (t : Nat) (tm : Timer) (htm : w.timers.get? t = some tm)
    (hts : tm.status = .pending) (cr : Nat) (hk : tm.kind = .connack cr) (c : ConnReq) (hc : w.connReqs.get? cr = some c)
    (d : Nat) (hd : c.dfd = some d) (hnf : d ∉ w.fired) (hal : c.alarm = t) (now' : Nat) (log' : List Obs) :
    WInv (connTimeoutW w t tm cr c d now' log') := connTimeout_inv h t tm htm hts cr hk c hc d hd hnf hal now' log'

/-- a handshake timer that is still running belongs to an unfired Deferred of a protocol that is still connecting
    (or whose loss has been reported): a CONNACK that was answered in time can no longer time out -/
theorem timeout_only_while_waiting {w : World} (h : WInv w) (t cr : Nat) (hp : Pending w t (.connack cr)) :
    ∃ c d, w.connReqs.get? cr = some c ∧ c.dfd = some d ∧ d ∉ w.fired ∧ c.alarm = t ∧
      ∃ pr, w.protos.get? c.proto = some pr ∧ (pr.lost = true ∨ (pr.state = .connecting ∧ pr.connReq = some cr)) :=
  h.connackOwned t cr hp

/-- connection loss: nothing is raised, the invariant is kept; afterwards the protocol is idle (clause `lostIdle`) -/
theorem loss_safe {w : World} (h : WInv w) (p : Nat) (ppr : Proto) (hpp : w.protos.get? p = some ppr)
    (hnl : ppr.lost = false) (reason : Err) :
    (connectionLost p reason w).2 = none ∧ WInv (connectionLost p reason w).1 := connectionLost_inv h p ppr hpp hnl reason

theorem lost_is_idle {w : World} (h : WInv w) (p : Nat) (pr : Proto) (hp : w.protos.get? p = some pr) (hl : pr.lost = true) :
    pr.state = .idle ∧ pr.pingTimer = none ∧ pr.pingAlarm = none := h.lostIdle p pr hp hl

/-- **exactly once, upper half**: in any history whatsoever every Deferred fires at most once -/
theorem at_most_once (profile : Nat) (ops : List Op) : (firedIds (run (World.init profile) ops).log).Nodup :=
  fires_at_most_once profile ops

/-- the connect Deferred succeeds only while a packet (the CONNACK) is being processed -/
theorem success_only_on_connack (op : Op) (hop : ∀ p d, op ≠ .recv p d) :
    Emits ⟨fun _ => true, fun _ => true, false⟩ op.handler := success_only_on_recv op hop

end Mqtt.C04
