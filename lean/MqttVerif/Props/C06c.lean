import MqttVerif.Proofs.Heads
import MqttVerif.Props.C15b
/-
  Which operation may put which packet type on a wire, for every history (no invariant beyond `HeadInv`, which holds in every state
  reachable from a fresh factory; no assumption on the environment).
  C06, last sentence: "the client never emits these acknowledgements unprompted" -- PUBACK/PUBREC/PUBCOMP are written only while bytes
  received from the broker are processed.  C18: "no broker-only packet type ever appears", "a DISCONNECT is written only by
  disconnect()"; and likewise a CONNECT only by connect(), a PINGREQ only by a timer or when the CONNACK starts the keepalive.
  Behind it: the stored bytes of every request object start with a request header (PUBLISH, PUBREL, SUBSCRIBE, UNSUBSCRIBE) and only
  bit 3 of that byte (DUP) is ever patched -- so retransmissions, window refills and session resumptions write request packets only.
-/
namespace Mqtt.C06

/-- the packets one operation writes, after any history: their types are among those the operation may write -/
theorem written_types (profile : Nat) (ops : List Op) (op : Op) :
    ∃ l, (step (run (World.init profile) ops) op).log = (run (World.init profile) ops).log ++ l ∧
      ∀ q bs, Obs.write q bs ∈ l → ptype bs ∈ op.ptypes := by
  obtain ⟨_, l, h1, h2⟩ := step_heads _ (run_heads ops _ (HeadInv.init profile)) op
  exact ⟨l, h1, fun q bs ho => pkts_ptype op bs (h2 q bs ho)⟩

/-- **never unprompted**: after any history, an API call, a timer, a loss report -- anything but received bytes -- writes no
    PUBACK (4), PUBREC (5) or PUBCOMP (7) -/
theorem never_unprompted (profile : Nat) (ops : List Op) (op : Op) (hop : ∀ p d, op ≠ .recv p d) :
    ∃ l, (step (run (World.init profile) ops) op).log = (run (World.init profile) ops).log ++ l ∧
      ∀ q bs, Obs.write q bs ∈ l → ptype bs ≠ 4 ∧ ptype bs ≠ 5 ∧ ptype bs ≠ 7 := by
  obtain ⟨l, h1, h2⟩ := written_types profile ops op
  refine ⟨l, h1, fun q bs ho => ?_⟩
  have := h2 q bs ho
  cases op <;> simp only [Op.ptypes, List.mem_cons, List.not_mem_nil, or_false] at this <;>
    first
    | exact absurd rfl (hop _ _)
    | (refine ⟨?_, ?_, ?_⟩ <;> omega)

/-- the same, read the other way: an acknowledgement of an inbound PUBLISH or PUBREL on the wire was written while bytes
    received from the broker were being processed -/
theorem ack_only_while_receiving (profile : Nat) (ops : List Op) (op : Op) (l : List Obs)
    (hl : (step (run (World.init profile) ops) op).log = (run (World.init profile) ops).log ++ l)
    (q : Nat) (bs : Bytes) (ho : Obs.write q bs ∈ l) (ha : ptype bs = 4 ∨ ptype bs = 5 ∨ ptype bs = 7) : ∃ p d, op = .recv p d := by
  apply Classical.byContradiction
  intro hne
  obtain ⟨l', h1, h2⟩ := never_unprompted profile ops op (fun p d h => hne ⟨p, d, h⟩)
  have : l = l' := List.append_cancel_left (hl.symm.trans h1)
  subst this
  have := h2 q bs ho
  omega

/-- a connected client that receives a QoS 1 PUBLISH does write a PUBACK (the statements above are about something) -/
example : (step (run (World.init 3) C15.kaDemo) (.recv 0 [0x32, 6, 0, 1, 0x61, 0, 7, 0x78])).log.getLast? = some (.pub 0 ⟨"a", [0x78], 1, false, false, some 7⟩)
    ∧ Obs.write 0 [0x40, 2, 0, 7] ∈ (step (run (World.init 3) C15.kaDemo) (.recv 0 [0x32, 6, 0, 1, 0x61, 0, 7, 0x78])).log
    ∧ ptype [0x40, 2, 0, 7] = 4 := by decide +kernel

end Mqtt.C06

namespace Mqtt.C18

/-- **no broker-only packet type ever appears**: after any history, whatever the operation, no packet handed to a transport is
    a CONNACK (2), SUBACK (9), UNSUBACK (11) or PINGRESP (13), or carries a reserved type (15; 0 only for no bytes at all) -/
theorem no_broker_packet (profile : Nat) (ops : List Op) (op : Op) :
    ∃ l, (step (run (World.init profile) ops) op).log = (run (World.init profile) ops).log ++ l ∧
      ∀ q bs, Obs.write q bs ∈ l → ptype bs ≠ 2 ∧ ptype bs ≠ 9 ∧ ptype bs ≠ 11 ∧ ptype bs ≠ 13 ∧ ptype bs ≠ 15 := by
  obtain ⟨l, h1, h2⟩ := C06.written_types profile ops op
  refine ⟨l, h1, fun q bs ho => ?_⟩
  have := h2 q bs ho
  cases op <;> simp only [Op.ptypes, List.mem_cons, List.not_mem_nil, or_false] at this <;> (refine ⟨?_, ?_, ?_, ?_, ?_⟩ <;> omega)

/-- **a DISCONNECT is written only by disconnect()** -/
theorem disconnect_only_by_disconnect (profile : Nat) (ops : List Op) (op : Op) (l : List Obs)
    (hl : (step (run (World.init profile) ops) op).log = (run (World.init profile) ops).log ++ l)
    (q : Nat) (bs : Bytes) (ho : Obs.write q bs ∈ l) (hd : ptype bs = 14) : ∃ p, op = .disconnect p := by
  obtain ⟨l', h1, h2⟩ := C06.written_types profile ops op
  have : l = l' := List.append_cancel_left (hl.symm.trans h1)
  subst this
  have := h2 q bs ho
  rw [hd] at this
  cases op <;> simp [Op.ptypes] at this
  exact ⟨_, rfl⟩

/-- a CONNECT is written only by connect() (how often: see the known findings KF-1/KF-2 for connect() on a lost protocol) -/
theorem connect_only_by_connect (profile : Nat) (ops : List Op) (op : Op) (l : List Obs)
    (hl : (step (run (World.init profile) ops) op).log = (run (World.init profile) ops).log ++ l)
    (q : Nat) (bs : Bytes) (ho : Obs.write q bs ∈ l) (hd : ptype bs = 1) : ∃ p a, op = .connect p a := by
  obtain ⟨l', h1, h2⟩ := C06.written_types profile ops op
  have : l = l' := List.append_cancel_left (hl.symm.trans h1)
  subst this
  have := h2 q bs ho
  rw [hd] at this
  cases op <;> simp [Op.ptypes] at this
  exact ⟨_, _, rfl⟩

/-- a PINGREQ is written only by a timer, or while received bytes are processed (the CONNACK starts the keepalive): never by an API call -/
theorem pingreq_only_from_reactor (profile : Nat) (ops : List Op) (op : Op) (l : List Obs)
    (hl : (step (run (World.init profile) ops) op).log = (run (World.init profile) ops).log ++ l)
    (q : Nat) (bs : Bytes) (ho : Obs.write q bs ∈ l) (hd : ptype bs = 12) : (∃ t, op = .fire t) ∨ ∃ p d, op = .recv p d := by
  obtain ⟨l', h1, h2⟩ := C06.written_types profile ops op
  have : l = l' := List.append_cancel_left (hl.symm.trans h1)
  subst this
  have := h2 q bs ho
  rw [hd] at this
  cases op <;> simp [Op.ptypes] at this
  · exact Or.inr ⟨_, _, rfl⟩
  · exact Or.inl ⟨_, rfl⟩

/-- every request object of every reachable state holds a PUBLISH, PUBREL, SUBSCRIBE or UNSUBSCRIBE (or no bytes yet): what a
    retransmission timer, a window refill or a session resumption will put on the wire -/
theorem stored_requests_are_requests (profile : Nat) (ops : List Op) (rid : Nat) (r : Req)
    (h : (run (World.init profile) ops).reqs.get? rid = some r) : r.encoded = [] ∨ reqHead r.encoded = true := by
  have := run_heads ops _ (HeadInv.init profile) rid r h
  simp only [headOk, Bool.or_eq_true, List.isEmpty_iff] at this
  exact this

/-- not vacuous: disconnect() on the connected demonstration client writes a packet of type 14, and its keepalive timer one of type 12 -/
example : Obs.write 0 [0xE0, 0] ∈ (step (run (World.init 3) C15.kaDemo) (.disconnect 0)).log ∧ ptype [0xE0, 0] = 14
    ∧ (step (run (World.init 3) C15.kaDemo) (.fire 2)).log.getLast? = some (Obs.write 0 [0xC0, 0]) ∧ ptype [0xC0, 0] = 12 := by decide +kernel

end Mqtt.C18
