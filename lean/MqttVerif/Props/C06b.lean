import MqttVerif.Props.C06
/-
  C06, "also across a reconnect": the store of received QoS 2 messages awaiting their PUBREL (`windowPubRx`, per address) is
  touched by nothing but the processing of received bytes -- not by connection loss, not by building the next protocol of the
  address, not by connect(), any other API call or any timer. So the PUBREL that arrives on the next connection finds the
  message stored on the previous one (`C06.pubrel_first`), and delivers it exactly once (`C06.pubrel_repeated`).
-/
namespace Mqtt.C06
open Mqtt

/-- `s` leaves the inbound QoS 2 store alone -/
def RX (s : Step) : Prop := ∀ w, (s w).1.rx = w.rx

theorem rx_ok : RX Step.ok := fun _ => rfl
theorem rx_raise (e : Err) : RX (Step.raise e) := fun _ => rfl
theorem rx_seq {a b : Step} (ha : RX a) (hb : RX b) : RX (a ;; b) := by
  intro w
  simp only [Step.seq]
  rcases hw : a w with ⟨w1, _ | e⟩
  · have := ha w; rw [hw] at this
    simp only; rw [hb w1]; exact this
  · have := ha w; rw [hw] at this; exact this
theorem rx_read {f : World → Step} (hf : ∀ w, RX (f w)) : RX (Step.read f) := fun w => hf w w
theorem rx_mod {f : World → World} (hf : ∀ w, (f w).rx = w.rx) : RX (Step.mod f) := fun w => hf w
theorem rx_setProto (p : Nat) (f : Proto → Proto) : RX (setProto p f) := rx_mod fun _ => rfl
theorem rx_emit (o : Obs) : RX (emit o) := rx_mod fun _ => rfl
theorem rx_write (p : Nat) (b : Bytes) : RX (write p b) := rx_mod fun _ => rfl
theorem rx_setEnts (f : List Ent → List Ent) : RX (setEnts f) := rx_mod fun _ => rfl
theorem rx_setReq (r : Nat) (f : Req → Req) : RX (setReq r f) := rx_mod fun _ => rfl
theorem rx_callLater (d : Rat) (k : TKind) {c : Nat → Step} (hc : ∀ t, RX (c t)) : RX (callLater d k c) :=
  rx_read fun _ => rx_seq (rx_mod fun _ => rfl) (hc _)
theorem rx_newDfd {c : Nat → Step} (hc : ∀ t, RX (c t)) : RX (newDfd c) :=
  rx_read fun _ => rx_seq (rx_mod fun _ => rfl) (hc _)
theorem rx_makeId {c : Nat → Step} (hc : ∀ t, RX (c t)) : RX (makeId c) :=
  rx_read fun _ => rx_seq (rx_mod fun _ => rfl) (hc _)
theorem rx_cancelTimer (t : Nat) : RX (cancelTimer t) := by
  apply rx_read; intro w
  split
  · exact rx_raise _
  · split
    · exact rx_mod fun _ => rfl
    · exact rx_raise _
    · exact rx_raise _
theorem rx_cancelAlarm (a : Option Nat) : RX (cancelAlarm a) := by
  cases a with
  | none => exact rx_raise _
  | some t => exact rx_cancelTimer t
theorem rx_fireDfd (d : Nat) (o : Outcome) : RX (fireDfd d o) := by
  apply rx_read; intro w
  split
  · exact rx_raise _
  · exact rx_seq (rx_mod fun _ => rfl) (rx_emit _)
theorem rx_fireReqDfd (d : Option Nat) (o : Outcome) : RX (fireReqDfd d o) := by
  cases d with
  | none => exact rx_raise _
  | some d => exact rx_fireDfd d o
theorem rx_forEach {α : Type} (l : List α) {f : α → Step} (hf : ∀ a, RX (f a)) : RX (forEach l f) := by
  induction l with
  | nil => exact rx_ok
  | cons a r ih => exact rx_seq (hf a) ih
theorem retryPublishW_rx (p rid : Nat) (dup : Bool) (w : World) : (retryPublishW p rid dup w).rx = w.rx := by
  simp only [retryPublishW]; split <;> rfl
theorem retryReleaseW_rx (p rid : Nat) (dup : Bool) (w : World) : (retryReleaseW p rid dup w).rx = w.rx := by
  simp only [retryReleaseW]; split <;> rfl
theorem retrySubUnsubW_rx (p rid : Nat) (dup s : Bool) (w : World) : (retrySubUnsubW p rid dup s w).rx = w.rx := by
  simp only [retrySubUnsubW]; split <;> rfl
theorem rx_retryPublish (p rid : Nat) (dup : Bool) : RX (retryPublish p rid dup) := rx_mod fun w => retryPublishW_rx p rid dup w
theorem rx_retryRelease (p rid : Nat) (dup : Bool) : RX (retryRelease p rid dup) := rx_mod fun w => retryReleaseW_rx p rid dup w
theorem rx_retrySubUnsub (p rid : Nat) (dup s : Bool) : RX (retrySubUnsub p rid dup s) := rx_mod fun w => retrySubUnsubW_rx p rid dup s w
theorem refillW_rx (p : Nat) (dup : Bool) (fuel : Nat) : ∀ w, (refillW p dup fuel w).rx = w.rx := by
  induction fuel with
  | zero => intro w; rfl
  | succ f ih =>
    intro w
    simp only [refillW]
    split
    · rfl
    · split
      · rw [ih, retryPublishW_rx]; split <;> rfl
      · rfl
theorem rx_refill (p : Nat) : RX (refill p) := rx_mod fun w => refillW_rx p false _ w

macro "rx_step" : tactic => `(tactic| first
  | with_reducible exact rx_ok | with_reducible exact rx_raise _ | with_reducible exact rx_emit _
  | with_reducible exact rx_write _ _ | with_reducible exact rx_setProto _ _ | with_reducible exact rx_setEnts _
  | with_reducible exact rx_setReq _ _
  | with_reducible exact rx_cancelTimer _ | with_reducible exact rx_cancelAlarm _
  | with_reducible exact rx_fireDfd _ _ | with_reducible exact rx_fireReqDfd _ _
  | with_reducible exact rx_refill _
  | with_reducible exact rx_retryPublish _ _ _ | with_reducible exact rx_retryRelease _ _ _
  | with_reducible exact rx_retrySubUnsub _ _ _ _
  | (with_reducible apply rx_mod; intro w; rfl)
  | with_reducible apply rx_seq | (with_reducible apply rx_read; intro w) | (with_reducible apply rx_callLater; intro t)
  | (with_reducible apply rx_newDfd; intro t) | (with_reducible apply rx_makeId; intro t)
  | (with_reducible apply rx_forEach; intro e)
  | split
  | dsimp only)
macro "rxs" : tactic => `(tactic| repeat rx_step)

theorem rx_drainQueue (p : Nat) (r : Err) (fuel : Nat) : RX (drainQueue p r fuel) := by
  induction fuel with
  | zero => exact rx_ok
  | succ f ih =>
    unfold drainQueue
    apply rx_read; intro w
    split
    · exact rx_ok
    · apply rx_seq (rx_setEnts _)
      apply rx_seq
      · split
        · exact rx_fireReqDfd _ _
        · exact rx_ok
      · exact ih
theorem rx_loopStop (p : Nat) : RX (loopStop p) := by unfold loopStop; rxs
theorem rx_cancelWindowAlarms (l : List Ent) : RX (cancelWindowAlarms l) := by unfold cancelWindowAlarms; rxs
theorem rx_failWindow (p : Nat) (s : Bool) (r : Err) : RX (failWindow p s r) := by unfold failWindow; rxs
theorem rx_purgeSession (p : Nat) (r : Err) : RX (purgeSession p r) := by unfold purgeSession purgeWindow; rxs
theorem rx_doConnectionLost (p : Nat) (r : Err) : RX (doConnectionLost p r) := by
  unfold doConnectionLost
  apply rx_read; intro w
  refine rx_seq (rx_cancelWindowAlarms _) (rx_seq (rx_cancelWindowAlarms _) (rx_seq (rx_cancelWindowAlarms _) (rx_seq (rx_cancelWindowAlarms _)
    (rx_seq (rx_failWindow _ _ _) (rx_seq (rx_failWindow _ _ _) ?_)))))
  apply rx_read; intro w'
  split
  · exact rx_seq (rx_purgeSession _ _) (rx_read fun _ => rx_drainQueue _ _ _)
  · exact rx_ok
theorem rx_connectionLost (p : Nat) (r : Err) : RX (connectionLost p r) := by
  unfold connectionLost
  apply rx_read; intro w
  apply rx_seq
  · split
    · exact rx_ok
    · exact rx_seq (rx_loopStop p) (rx_setProto _ _)
  apply rx_seq
  · split
    · exact rx_ok
    · exact rx_seq (rx_cancelTimer _) (rx_setProto _ _)
  apply rx_seq (rx_doConnectionLost p r)
  apply rx_seq (rx_setProto _ _)
  rxs

theorem rx_doPingRequest (p : Nat) : RX (doPingRequest p) := by unfold doPingRequest; rxs
theorem rx_loopRun (p : Nat) : RX (loopRun p) := by
  intro w
  have h1 : RX (ping p) := by
    unfold ping
    apply rx_read; intro w
    split
    · exact rx_doPingRequest p
    · exact rx_raise _
  have h1w := h1 w
  unfold loopRun
  rcases hp : ping p w with ⟨w1, _ | e⟩
  · rw [hp] at h1w
    simp only
    have : RX (Step.read fun w =>
      match (w.proto p).pingTimer with
      | some l =>
        if l.running then
          callLater l.interval (.pingLoop p) fun tid =>
            setProto p (fun pr => { pr with pingTimer := (pr.pingTimer.map fun l => { l with call := some tid }) })
        else Step.ok
      | none => Step.ok) := by rxs
    exact (this w1).trans h1w
  · rw [hp] at h1w
    simp only
    exact (rx_setProto _ _ w1).trans h1w
theorem rx_runTimer (k : TKind) : RX (runTimer k) := by
  cases k with
  | connack cr => unfold runTimer abort; rxs
  | pingLoop p => exact rx_seq (rx_setProto _ _) (rx_loopRun p)
  | pingAlarm p => exact rx_seq (rx_setProto _ _) (rx_emit _)
  | retry p rid => unfold runTimer; rxs
  | onDisc p r => exact rx_emit _
theorem rx_fireTimer (t : Nat) : RX (fireTimer t) := by
  unfold fireTimer
  apply rx_read; intro w
  split
  · exact rx_emit _
  · split
    · refine rx_seq ?_ (rx_runTimer _)
      exact rx_mod fun _ => rfl
    · exact rx_emit _

theorem rx_registerSubUnsub (p : Nat) (s : Bool) (i : Nat) (bs : Bytes) : RX (registerSubUnsub p s i bs) := by unfold registerSubUnsub; rxs

/-- **only received bytes move the inbound QoS 2 store**: every other operation -- connection loss, building the next protocol,
    connect(), disconnect(), publish(), subscribe(), unsubscribe(), the setters, every timer -- leaves it exactly as it was -/
theorem store_moves_only_on_recv (w : World) (op : Op) (hop : ∀ p d, op ≠ .recv p d) : (step w op).rx = w.rx := by
  have hstep : ∀ (s : Step), RX s → (match s w with
      | (w', none) => w'
      | (w', some e) => { w' with log := w'.log ++ [if op.isReactor then Obs.esc e else Obs.raised e] }).rx = w.rx := by
    intro s hs
    have := hs w
    rcases hw : s w with ⟨w', _ | e⟩ <;> (rw [hw] at this; exact this)
  unfold step
  cases op with
  | build a => exact hstep (buildProtocol a) (rx_mod fun _ => rfl)
  | sethandlers p m => exact hstep (apiSetHandlers p m) (by unfold apiSetHandlers; exact rx_setProto _ _)
  | connect p a =>
    refine hstep (apiConnect p a) ?_
    unfold apiConnect
    generalize a.toF.encode = E
    apply rx_read; intro w
    split
    · exact rx_emit _
    · split
      · exact rx_emit _
      · cases E with
        | error e =>
          dsimp only
          split
          · exact rx_emit _
          · exact rx_raise _
        | ok pdu => dsimp only; rxs
  | disconnect p => refine hstep (apiDisconnect p) ?_; unfold apiDisconnect; rxs
  | publish p t pl q r =>
    refine hstep (apiPublish p t pl q r) ?_
    intro w0
    rw [apiPublish_eq]
    have hmk : ∀ pr qn m d bs, RX (mkStep p pr qn m d bs) := by intro pr qn m d bs; unfold mkStep; rxs
    split
    · exact rx_emit _ w0
    · split
      · exact rx_emit _ w0
      · split
        · cases encodePublishPy t pl 0 r none with
          | error e => exact rx_emit _ w0
          | ok bs => exact rx_seq (hmk _ _ _ _ _) (rx_emit _) w0
        · apply rx_makeId (c := _) ?_ w0
          intro i
          cases encodePublishPy t pl q.toNat r (some (i : Int)) with
          | error e => exact rx_emit _
          | ok bs => exact rx_newDfd fun d => rx_seq (hmk _ _ _ _ _) (rx_emit _)
  | subscribe p a q =>
    refine hstep (apiSubscribe p a q) ?_
    unfold apiSubscribe
    apply rx_read; intro w
    split
    · exact rx_emit _
    · dsimp only
      split
      · exact rx_emit _
      · split
        · exact rx_emit _
        · split
          · exact rx_emit _
          · split
            · exact rx_emit _
            · apply rx_makeId; intro i
              generalize encodeWithId _ i _ = E
              cases E with
              | error e => exact rx_emit _
              | ok bs => exact rx_registerSubUnsub _ _ _ _
  | unsubscribe p a =>
    refine hstep (apiUnsubscribe p a) ?_
    unfold apiUnsubscribe
    apply rx_read; intro w
    split
    · exact rx_emit _
    · apply rx_makeId; intro _
      apply rx_read; intro w
      dsimp only
      split
      · exact rx_emit _
      · split
        · exact rx_emit _
        · split
          · exact rx_emit _
          · apply rx_makeId; intro i
            generalize encodeWithId _ i _ = E
            cases E with
            | error e => exact rx_emit _
            | ok bs => exact rx_registerSubUnsub _ _ _ _
  | setwin p n => refine hstep (apiSetWindow p n) ?_; unfold apiSetWindow; rxs
  | settimeout p n => refine hstep (apiSetTimeout p n) ?_; unfold apiSetTimeout; rxs
  | setbw p b f => refine hstep (apiSetBandwith p b f) ?_; unfold apiSetBandwith; rxs
  | jit v => exact hstep (Step.mod fun w => { w with jitter := v }) (rx_mod fun _ => rfl)
  | setid v => exact hstep (Step.mod fun w => { w with nextId := v }) (rx_mod fun _ => rfl)
  | recv p d => exact absurd rfl (hop p d)
  | lost p r => exact hstep (connectionLost p r) (rx_connectionLost p r)
  | fire t => exact hstep (fireTimer t) (rx_fireTimer t)

end Mqtt.C06
