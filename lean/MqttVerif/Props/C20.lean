import MqttVerif.Model.Step
import MqttVerif.Props.ConfigOk
import MqttVerif.Props.C14
import MqttVerif.Proofs.Wire
/-
  C20 — Invalid arguments are rejected atomically with ValueError/TypeError; valid ones accepted.
  Every rejection below leaves the world exactly as it was, except for the observation of the
  rejection itself and (where the code allocates an identifier before it encodes) the id counter.
-/
namespace Mqtt.C20
open Mqtt C14

/-! ### setters: raise, change nothing -/

theorem setWindow_reject (w : World) (p : Nat) (n : Int) (h : ¬ (1 ≤ n ∧ n ≤ 16)) :
    apiSetWindow p (.int n) w = (w, some .value) := by
  have : ¬ (0 < n ∧ n ≤ (Config.maxWindow : Int)) := by rw [ConfigOk.maxWindow_ok]; omega
  simp [apiSetWindow, this, Step.raise]

theorem setWindow_none (w : World) (p : Nat) : apiSetWindow p .none w = (w, some .type) := rfl

theorem setWindow_accept (w : World) (p : Nat) (n : Int) (h : 1 ≤ n ∧ n ≤ 16) :
    apiSetWindow p (.int n) w =
      ({ w with protos := w.protos.set p { w.proto p with window := n.toNat }, log := w.log ++ [.retNone] }, none) := by
  have h1 : (0 < n ∧ n ≤ (Config.maxWindow : Int)) := by rw [ConfigOk.maxWindow_ok]; omega
  have h2 : min n.toNat Config.maxWindow = n.toNat := by rw [ConfigOk.maxWindow_ok]; omega
  simp [apiSetWindow, h1, h2, setProto, Step.seq, Step.mod, emit, World.emit]

theorem setTimeout_reject (w : World) (p : Nat) (n : Int) (h : ¬ (1 ≤ n ∧ n ≤ 1024)) :
    apiSetTimeout p (.int n) w = (w, some .value) := by
  have : ¬ (1 ≤ n ∧ n ≤ (Config.timeoutMaxInitial : Int)) := by rw [ConfigOk.timeoutMax_ok]; omega
  simp [apiSetTimeout, this, Step.raise]

theorem setTimeout_none (w : World) (p : Nat) : apiSetTimeout p .none w = (w, some .type) := rfl

theorem setTimeout_accept (w : World) (p : Nat) (n : Int) (h : 1 ≤ n ∧ n ≤ 1024) :
    apiSetTimeout p (.int n) w =
      ({ w with protos := w.protos.set p { w.proto p with initialT := n.toNat }, log := w.log ++ [.retNone] }, none) := by
  have h1 : (1 ≤ n ∧ n ≤ (Config.timeoutMaxInitial : Int)) := by rw [ConfigOk.timeoutMax_ok]; omega
  simp [apiSetTimeout, h1, setProto, Step.seq, Step.mod, emit, World.emit]

theorem setBandwith_reject (w : World) (p : Nat) (bw f : Rat) (h : bw ≤ 0 ∨ f ≤ 0) :
    apiSetBandwith p bw f w = (w, some .value) := by
  unfold apiSetBandwith
  rcases h with h | h
  · simp [h, Step.raise]
  · by_cases hb : bw ≤ 0 <;> simp [hb, h, Step.raise]

theorem setBandwith_accept (w : World) (p : Nat) (bw f : Rat) (hb : 0 < bw) (hf : 0 < f) :
    apiSetBandwith p bw f w =
      ({ w with protos := w.protos.set p { w.proto p with bandwith := bw, factor := f }, log := w.log ++ [.retNone] }, none) := by
  have h1 : ¬ bw ≤ 0 := Rat.not_le.mpr hb
  have h2 : ¬ f ≤ 0 := Rat.not_le.mpr hf
  simp [apiSetBandwith, h1, h2, setProto, Step.seq, Step.mod, emit, World.emit]

/-! ### connect() -/

/-- `checkConnect` is the conjunction of the constraints the property lists: will QoS 0..2, keepalive
    0..65535, a 3.1 client id of at most 23 characters, a known version, will topic and message together,
    no password without user name. Violating any of them fails the Deferred with ValueError and changes
    nothing else. -/
theorem connect_invalid (w : World) (p : Nat) (a : ConnectArgs) (hal : allowed w p 0 = true)
    (h : checkConnect a = false) :
    apiConnect p a w = (refusedWith w (.retFail .value), none) := by
  simp [apiConnect, Step.read, hal, h, emit, World.emit, Step.mod, refusedWith]

/-- a string over 65535 bytes (or any other encoding failure): ValueError, nothing else changes -/
theorem connect_unencodable (w : World) (p : Nat) (a : ConnectArgs) (hal : allowed w p 0 = true)
    (hc : checkConnect a = true) (e : Err) (he : a.toF.encode = .error e) :
    (e = .value ∧ apiConnect p a w = (refusedWith w (.retFail .value), none)) ∨
    (e ≠ .value ∧ apiConnect p a w = (w, some e)) := by
  by_cases hv : e = .value
  · left; subst hv
    exact ⟨rfl, by simp [apiConnect, Step.read, hal, hc, he, emit, World.emit, Step.mod, refusedWith]⟩
  · right
    exact ⟨hv, by simp [apiConnect, Step.read, hal, hc, he, hv, Step.raise]⟩

/-! ### publish() -/

theorem publish_bad_qos (w : World) (p : Nat) (t : PyStr) (pl : Payload) (q : Int) (r : Bool)
    (hal : allowed w p 4 = true) (h : ¬ (0 ≤ q ∧ q < 3)) :
    apiPublish p t pl q r w = (refusedWith w (.retFail .value), none) := by
  simp [apiPublish, Step.read, hal, h, emit, World.emit, Step.mod, refusedWith]

/-- QoS 0 with something that cannot be encoded (payload of another type, topic not a str, over-long
    topic): failed Deferred with that error, nothing else changes -/
theorem publish_qos0_unencodable (w : World) (p : Nat) (t : PyStr) (pl : Payload) (r : Bool)
    (hal : allowed w p 4 = true) (e : Err) (he : encodePublishPy t pl 0 r none = .error e) :
    apiPublish p t pl 0 r w = (refusedWith w (.retFail e), none) := by
  simp [apiPublish, Step.read, hal, he, emit, World.emit, Step.mod, refusedWith]

/-- QoS 1/2: the identifier has been allocated already; apart from the counter nothing changes -/
theorem publish_qos12_unencodable (w : World) (p : Nat) (t : PyStr) (pl : Payload) (q : Int) (r : Bool)
    (hal : allowed w p 4 = true) (hq : q = 1 ∨ q = 2) (e : Err)
    (he : ∀ i : Nat, encodePublishPy t pl q.toNat r (some (i : Int)) = .error e) :
    apiPublish p t pl q r w =
      ({ w with nextId := scanId w 65535 w.nextId, idAllocs := w.idAllocs + 1, log := w.log ++ [.retFail e] }, none) := by
  have h1 : (0 ≤ q ∧ q < 3) := by omega
  have h2 : ¬ q = 0 := by omega
  simp [apiPublish, Step.read, hal, h1, h2, makeId, Step.seq, Step.mod, he, emit, World.emit]

/-- what cannot be encoded fails with ValueError or TypeError -/
theorem publish_error_class (t : PyStr) (pl : Payload) (q : Nat) (r : Bool) (m : Option Int) (e : Err)
    (hq : q < 3) (hm : ∀ i, m = some i → 0 ≤ i ∧ i < 65536) (hmq : q ≠ 0 → m ≠ none)
    (he : encodePublishPy t pl q r m = .error e) : e.isValueOrType = true := by
  unfold encodePublishPy at he
  cases t with
  | str s =>
    simp only at he
    unfold PublishF.encode at he
    have hb : 0x30 ||| b2n r ||| q <<< 1 ||| b2n false <<< 3 < 256 := by
      have : q = 0 ∨ q = 1 ∨ q = 2 := by omega
      rcases this with rfl | rfl | rfl <;> cases r <;> decide
    by_cases hq0 : q = 0
    · subst hq0
      simp only [bne_self_eq_false, Bool.false_eq_true, ↓reduceIte] at he
      cases hs : encodeString s with
      | error e' => simp [hs] at he; subst he; rw [encodeString_err hs]; rfl
      | ok bs =>
        simp only [hs, ok_bind, pure_ok] at he
        cases hp : pl.toBytes with
        | error e' =>
          simp [hp] at he; subst he
          cases pl <;> simp [Payload.toBytes] at hp; subst hp; rfl
        | ok pb =>
          simp only [hp, ok_bind] at he
          split at he <;> simp at he
          subst he; rfl
    · have hne : (q != 0) = true := by simp [hq0]
      simp only [hne, ↓reduceIte, byte, hb] at he
      cases hs : encodeString s with
      | error e' => simp [hs] at he; subst he; rw [encodeString_err hs]; rfl
      | ok bs =>
        simp only [hs, ok_bind, pure_ok] at he
        cases hmm : m with
        | none => exact absurd hmm (hmq hq0)
        | some i =>
          obtain ⟨h0, h1⟩ := hm i hmm
          have : encode16Int i = .ok (enc16 i.toNat) := encode16_ok' i h0 h1
          simp only [hmm, this, ok_bind] at he
          cases hp : pl.toBytes with
          | error e' =>
            simp [hp] at he; subst he
            cases pl <;> simp [Payload.toBytes] at hp; subst hp; rfl
          | ok pb =>
            simp only [hp, ok_bind] at he
            split at he <;> simp at he
            subst he; rfl
  | none =>
    simp only at he
    split at he
    · simp only [byte] at he
      split at he <;> simp at he <;> subst he <;> rfl
    · simp at he; subst he; rfl
  | other =>
    simp only at he
    split at he
    · simp only [byte] at he
      split at he <;> simp at he <;> subst he <;> rfl
    · simp at he; subst he; rfl

/-! ### subscribe() / unsubscribe() -/

theorem subscribe_wrong_type (w : World) (p : Nat) (q : Int) (hal : allowed w p 2 = true)
    (hwin : Ents.count w.ents (w.paddr p) .sub < (w.proto p).window) :
    apiSubscribe p .other q w = (refusedWith w (.retFail .type), none) := by
  have : ¬ (Ents.count w.ents (w.paddr p) .sub ≥ (w.proto p).window) := by omega
  simp [apiSubscribe, Step.read, hal, this, emit, World.emit, Step.mod, refusedWith]

theorem subscribe_bad_qos (w : World) (p : Nat) (s : String) (q : Int) (hal : allowed w p 2 = true)
    (hwin : Ents.count w.ents (w.paddr p) .sub < (w.proto p).window) (h : ¬ (0 ≤ q ∧ q < 3)) :
    apiSubscribe p (.str s) q w = (refusedWith w (.retFail .value), none) := by
  have : ¬ (Ents.count w.ents (w.paddr p) .sub ≥ (w.proto p).window) := by omega
  have h' : q < 0 ∨ 3 ≤ q := by omega
  simp [apiSubscribe, Step.read, hal, this, h', emit, World.emit, Step.mod, refusedWith]

/-- a call made with the window full fails with MQTTWindowError and changes nothing (C07) -/
theorem subscribe_window_full (w : World) (p : Nat) (a : SubArg) (q : Int) (hal : allowed w p 2 = true)
    (hwin : Ents.count w.ents (w.paddr p) .sub ≥ (w.proto p).window) :
    apiSubscribe p a q w = (refusedWith w (.retFail .window), none) := by
  simp [apiSubscribe, Step.read, hal, hwin, emit, World.emit, Step.mod, refusedWith]

theorem unsubscribe_wrong_type (w : World) (p : Nat) (hal : allowed w p 3 = true)
    (hwin : Ents.count w.ents (w.paddr p) .unsub < (w.proto p).window) :
    apiUnsubscribe p .other w =
      ({ w with nextId := scanId w 65535 w.nextId, idAllocs := w.idAllocs + 1, log := w.log ++ [.retFail .type] }, none) := by
  have : ¬ (((w.protos.get? p).getD default).window ≤ Ents.count w.ents ((w.protos.get? p).getD default).addr .unsub) := by
    simp only [World.paddr, World.proto] at hwin; omega
  simp [apiUnsubscribe, Step.read, hal, makeId, Step.seq, Step.mod, World.paddr, World.proto, emit, World.emit, this]

/-- an empty topic list is refused: a SUBSCRIBE / UNSUBSCRIBE must name at least one topic [MQTT-3.8.3-3, 3.10.3-2], so nothing
    may be written for it (C18; repaired defect F-25) -/
theorem subscribe_empty_list (w : World) (p : Nat) (q : Int) (hal : allowed w p 2 = true)
    (hwin : Ents.count w.ents (w.paddr p) .sub < (w.proto p).window) :
    apiSubscribe p (.list []) q w = (refusedWith w (.retFail .value), none) := by
  have : ¬ (Ents.count w.ents (w.paddr p) .sub ≥ (w.proto p).window) := by omega
  simp [apiSubscribe, Step.read, hal, this, emit, World.emit, Step.mod, refusedWith]

theorem unsubscribe_empty_list (w : World) (p : Nat) (hal : allowed w p 3 = true)
    (hwin : Ents.count w.ents (w.paddr p) .unsub < (w.proto p).window) :
    apiUnsubscribe p (.list []) w =
      ({ w with nextId := scanId w 65535 w.nextId, idAllocs := w.idAllocs + 1, log := w.log ++ [.retFail .value] }, none) := by
  have : ¬ (((w.protos.get? p).getD default).window ≤ Ents.count w.ents ((w.protos.get? p).getD default).addr .unsub) := by
    simp only [World.paddr, World.proto] at hwin; omega
  simp [apiUnsubscribe, Step.read, hal, makeId, Step.seq, Step.mod, World.paddr, World.proto, emit, World.emit, this]

/-! Non-vacuity -/
example : checkConnect { clientId := "c", keepalive := 65536, version := .v311, cleanStart := true } = false := by decide
example : checkConnect { clientId := "c", keepalive := 65535, version := .v311, cleanStart := true } = true := by decide
example : checkConnect { clientId := "cccccccccccccccccccccccc", keepalive := 0, version := .v31, cleanStart := true } = false := by
  decide
example : checkConnect { clientId := "c", keepalive := 0, version := .v311, cleanStart := true, password := some "x" } = false := by
  decide

end Mqtt.C20
