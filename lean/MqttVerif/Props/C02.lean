import MqttVerif.Proofs.Wire
/-
  C02 — Bytes on the wire are exactly what the MQTT 3.1 / 3.1.1 specification prescribes.
  `Spec.*` is the reference written from the OASIS text (Spec/Wire.lean); the left-hand sides are
  the transcription of pdu.py. Proofs in Proofs/Wire.lean.
  The session-level half ("every packet the client can emit") is C18.
-/
namespace Mqtt.C02
open Mqtt Spec

/-! ### client → broker: valid requests are encoded as the standard prescribes -/

theorem connect (f : ConnectF) (hv : f.Valid) (hup : f.password.isSome → f.username.isSome)
    (hlen : f.body.length < 268435456) :
    ∃ bs, f.encode = .ok bs ∧ Spec.encode (specVer f.version) f.abs = some bs :=
  ConnectF.refines f hv hup hlen

theorem publish (v : Spec.Ver) (f : PublishF) (hv : f.Valid) (hid : ∀ i, f.msgId = some i → 1 ≤ i) :
    ∃ bs, f.encode = .ok bs ∧ Spec.encode v f.abs = some bs :=
  PublishF.refines v f hv hid

theorem subscribe (v : Spec.Ver) (m : Nat) (ts : List (String × Nat)) (h1 : 1 ≤ m) (hm : m < 65536)
    (ht : FiltersQValid ts) (hne : ts ≠ [])
    (hlen : ∀ bs, encTopicsQ ts = .ok bs → 2 + bs.length < 268435456) :
    ∃ bs, (SubscribeF.mk m ts).encode = .ok bs ∧ Spec.encode v (.subscribe false m ts) = some bs :=
  SubscribeF.refines v m ts h1 hm ht hne hlen

theorem unsubscribe (v : Spec.Ver) (m : Nat) (ts : List String) (h1 : 1 ≤ m) (hm : m < 65536)
    (ht : TopicsValid ts) (hne : ts ≠ [])
    (hlen : ∀ bs, encTopics ts = .ok bs → 2 + bs.length < 268435456) :
    ∃ bs, (UnsubscribeF.mk m ts).encode = .ok bs ∧ Spec.encode v (.unsubscribe false m ts) = some bs :=
  UnsubscribeF.refines v m ts h1 hm ht hne hlen

/-- PUBACK, PUBREC, PUBCOMP, PUBREL (first transmission), UNSUBACK -/
theorem acks (v : Spec.Ver) (m : Nat) (h1 : 1 ≤ m) (h2 : m < 65536) :
    (∃ bs, encodePUBACK (m : Int) = .ok bs ∧ Spec.encode v (.puback m) = some bs) ∧
    (∃ bs, encodePUBREC (m : Int) = .ok bs ∧ Spec.encode v (.pubrec m) = some bs) ∧
    (∃ bs, encodePUBCOMP (m : Int) = .ok bs ∧ Spec.encode v (.pubcomp m) = some bs) ∧
    (∃ bs, encodePUBREL (m : Int) = .ok bs ∧ Spec.encode v (.pubrel false m) = some bs) ∧
    (∃ bs, encodeUNSUBACK (m : Int) = .ok bs ∧ Spec.encode v (.unsuback m) = some bs) :=
  ack_refines v m h1 h2

theorem fixed (v : Spec.Ver) :
    Spec.encode v .pingreq = some encodePINGREQ ∧ Spec.encode v .disconnect = some encodeDISCONNECT ∧
    Spec.encode v .pingresp = some encodePINGRES :=
  fixed_refines v

/-- remaining-length field: pdu.py's loop produces Table 2.4 of the standard -/
theorem remaining_length (n : Nat) (h : n < 268435456) : Spec.remLen n = some (encodeLength n) :=
  remLen_eq n h

/-! ### retransmission: the DUP bit patched into the stored bytes -/

theorem dup_publish (retain dup0 dup : Bool) (q : Nat) (hq : q = 1 ∨ q = 2) :
    (0x30 ||| b2n retain ||| (q <<< 1) ||| (b2n dup0 <<< 3)) ||| (b2n dup <<< 3) =
      0x30 ||| b2n retain ||| (q <<< 1) ||| (b2n (dup0 || dup) <<< 3) :=
  dup_patch_publish retain dup0 dup q hq

theorem dup_v31 (dup0 dup : Bool) :
    (((0x82 : Nat) ||| (b2n dup0 <<< 3)) ||| (b2n dup <<< 3) = 8 * 16 + (Spec.bit (dup0 || dup) * 8 + 2)) ∧
    (((0xA2 : Nat) ||| (b2n dup0 <<< 3)) ||| (b2n dup <<< 3) = 10 * 16 + (Spec.bit (dup0 || dup) * 8 + 2)) ∧
    (((0x62 : Nat) ||| (b2n dup0 <<< 3)) ||| (b2n dup <<< 3) = 6 * 16 + (Spec.bit (dup0 || dup) * 8 + 2)) :=
  dup_patch_v31 dup0 dup

/-! ### broker → client: the standard's bytes decode to the standard's fields -/

theorem from_connack (v : Spec.Ver) (sp : Bool) (rc : Nat) (bs : Bytes)
    (h : Spec.encode v (.connack sp rc) = some bs) : ConnackF.decode bs = .ok ⟨sp, rc⟩ :=
  CONNACK_from_spec v sp rc bs h

theorem from_acks (v : Spec.Ver) (i : Nat) (bs : Bytes) :
    (Spec.encode v (.puback i) = some bs → decodeAck bs = .ok i) ∧
    (Spec.encode v (.pubrec i) = some bs → decodeAck bs = .ok i) ∧
    (Spec.encode v (.pubcomp i) = some bs → decodeAck bs = .ok i) ∧
    (Spec.encode v (.unsuback i) = some bs → decodeAck bs = .ok i) :=
  ack_from_spec v i bs

theorem from_pubrel (v : Spec.Ver) (dup : Bool) (i : Nat) (bs : Bytes)
    (h : Spec.encode v (.pubrel dup i) = some bs) : decodePUBREL bs = .ok (i, dup) :=
  PUBREL_from_spec v dup i bs h

theorem from_suback (v : Spec.Ver) (i : Nat) (codes : List Nat) (bs : Bytes)
    (h : Spec.encode v (.suback i codes) = some bs) :
    SubackF.decode bs = .ok ⟨i, codes.map (fun c => if c = 128 then (0, true) else (c, false))⟩ :=
  SUBACK_from_spec v i codes bs h

theorem from_publish (v : Spec.Ver) (dup retain : Bool) (qos : Nat) (topic : String) (pid : Option Nat)
    (payload bs : Bytes) (h : Spec.encode v (.publish dup qos retain topic pid payload) = some bs) :
    PublishD.decode bs = .ok ⟨topic, payload, qos, dup, retain, pid⟩ :=
  PUBLISH_from_spec v dup retain qos topic pid payload bs h

/-! ### unrepresentable fields raise ValueError / TypeError instead of emitting bytes -/

theorem string_too_long (s : String) (h : 65535 < s.utf8ByteSize) : encodeString s = .error .value :=
  encodeString_too_long s h

theorem int16_out_of_range (v : Int) (h : ¬ (0 ≤ v ∧ v < 65536)) : encode16Int v = .error .value :=
  encode16_range v h

theorem payload_type (f : PublishF) (h : f.payload = .other) :
    ∃ e, f.encode = .error e ∧ e.isValueOrType = true :=
  PublishF.encode_other f h

theorem topic_too_long (f : PublishF) (h : 65535 < f.topic.utf8ByteSize) (hq : f.qos < 3) :
    f.encode = .error .value :=
  PublishF.encode_long_topic f h hq

/-! Non-vacuity -/
example : Spec.encode .v311 (.publish false 1 false "t" (some 7) [1, 2]) = some [0x32, 7, 0, 1, 0x74, 0, 7, 1, 2] := by
  decide
example : Spec.decode .v311 [0x32, 7, 0, 1, 0x74, 0, 7, 1, 2] = some (.publish false 1 false "t" (some 7) [1, 2]) := by
  decide
example : Spec.decode .v311 [0x72, 2, 0, 7] = none := by decide     -- reserved flag bits set: rejected
example : Spec.encode .v311 (.pubrel true 5) = none ∧ Spec.encode .v31 (.pubrel true 5) = some [0x6A, 2, 0, 5] := by
  decide

end Mqtt.C02
