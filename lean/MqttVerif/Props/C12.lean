import MqttVerif.Proofs.More
/-
  C12 — Persistent session: in-flight publishes survive loss, resume on next connection.
-/
namespace Mqtt.C12
open Mqtt

/-- **losing a persistent connection fails no publish Deferred and keeps every publish of the address** -- held back,
    awaiting PUBACK/PUBREC or awaiting PUBCOMP -- with identifier, Deferred and packet bytes unchanged; exactly the
    SUBSCRIBE/UNSUBSCRIBE requests of the address go; other addresses are untouched -/
theorem publishes_survive {w : World} (h : WInv w) (p : Nat) (ppr : Proto) (hpp : w.protos.get? p = some ppr)
    (hnl : ppr.lost = false) (hpers : ppr.cleanStart = false) (reason : Err) :
    (∀ y, y ∈ (connectionLost p reason w).1.ents ↔ y ∈ w.ents ∧ ¬ (y.addr = ppr.addr ∧ (y.box = .sub ∨ y.box = .unsub))) ∧
    (∀ rid, ((connectionLost p reason w).1.req rid).dfd = (w.req rid).dfd ∧ ((connectionLost p reason w).1.req rid).msgId = (w.req rid).msgId ∧
      ((connectionLost p reason w).1.req rid).encoded = (w.req rid).encoded ∧ ((connectionLost p reason w).1.req rid).kind = (w.req rid).kind) ∧
    (∀ e ∈ (connectionLost p reason w).1.ents, ∀ d, ((connectionLost p reason w).1.req e.rid).dfd = some d → d ∉ (connectionLost p reason w).1.fired) := by
  obtain ⟨_, b, c⟩ := connectionLost_full h p ppr hpp hnl reason
  exact ⟨c.persistent hpers, c.req, fun e he d hd => (b.dfdFresh e he d hd).2⟩

/-- the preserved entries have no retry timer while no connection is up (so nothing is written for them) -/
theorem preserved_are_quiet {w : World} (h : WInv w) (p : Nat) (ppr : Proto) (hpp : w.protos.get? p = some ppr)
    (hnl : ppr.lost = false) (reason : Err) :
    ∀ e ∈ (connectionLost p reason w).1.ents, e.addr = ppr.addr → e.box ≠ .queue → ((connectionLost p reason w).1.req e.rid).alarm = none :=
  (connectionLost_full h p ppr hpp hnl reason).2.2.quiet

/-- **resumption** (`_syncSession`, run by the CONNACK of the next protocol of the address when cleanStart=False): every
    inherited PUBREL and every inherited PUBLISH -- those without a running retry timer -- is transmitted again (with
    DUP: `retryReleaseW … true`, `retryPublishW … true`) and armed, in container order, the release window first; entries that
    already have a timer (requested on the new connection before its CONNACK) are skipped; nothing is fired -/
theorem resume {x : Option Nat} {w : World} (h : WInvX x w) (p : Nat) (ppr : Proto) (hpp : w.protos.get? p = some ppr)
    (hlive : ppr.lost = false) :
    WInvX x (syncW p w) ∧ (syncW p w).protos = w.protos ∧ (syncW p w).ents = w.ents ∧
    (∀ r, (w.req r).alarm ≠ none → ((syncW p w).req r).alarm ≠ none) ∧
    ArmedIn (fun b => b = .pub ∨ b = .rel) (syncW p w) ppr.addr ∧ (syncW p w).connReqs = w.connReqs :=
  syncW_inv h p ppr hpp hlive

theorem resume_fires_nothing (p : Nat) : WritesOn p (syncW p) := syncW_writes p

/-- a PUBLISH whose exchange had reached the PUBREL stage is not resumed: it is in no container (C09) -/
theorem released_publish_not_resumed {w : World} (h : WInv w) (a m rid t : Nat) (bs : Bytes) (i : Nat) (he : (⟨a, .pub, m, rid⟩ : Ent) ∈ w.ents) :
    ∀ y ∈ (afterPubrec w a m rid t bs i).ents, ¬ (y.box = .pub ∧ y.key = m ∧ y.addr = a) ∧ y.rid ≠ rid :=
  afterPubrec_no_publish h a m rid t bs i he

/-- **next connection opened with cleanStart=True** (`_purgeSession(MQTTSessionCleared)`): the carried-over entries -- those
    without a running retry timer -- leave their windows and their Deferreds fail; entries requested on the new
    connection itself (they have a timer) stay; request objects are untouched -/
theorem purge {x : Option Nat} {w : World} (h : WInvX x w) (p : Nat) (reason : Err) :
    (purgeSession p reason w).2 = none ∧ WInvX x (purgeSession p reason w).1 ∧
    (purgeSession p reason w).1.reqs = w.reqs ∧ (purgeSession p reason w).1.protos = w.protos ∧
    (purgeSession p reason w).1.timers = w.timers ∧ (purgeSession p reason w).1.connReqs = w.connReqs ∧
    (∀ y ∈ (purgeSession p reason w).1.ents, y ∈ w.ents) ∧
    (∀ y ∈ w.ents, y.box = .queue ∨ y.box = .sub ∨ y.box = .unsub ∨ y.addr ≠ w.paddr p → y ∈ (purgeSession p reason w).1.ents) ∧
    ArmedIn (fun b => b = .pub ∨ b = .rel) (purgeSession p reason w).1 (w.paddr p) := by
  obtain ⟨a1, a2, a3, a4, a5, a6, a7, a8, a9, _⟩ := purgeSession_inv h p reason
  exact ⟨a1, a2, a3, a4, a5, a6, a7, a8, a9⟩

/-- released messages: after the CONNACK the window is refilled as far as it allows (C10) -/
theorem refill_after_connack (p : Nat) (dup : Bool) (fuel : Nat) (w : World)
    (hf : (Ents.items w.ents (w.paddr p) .queue).length ≤ fuel) :
    Ents.items (refillW p dup fuel w).ents (w.paddr p) .queue = [] ∨
    ¬ Ents.count (refillW p dup fuel w).ents (w.paddr p) .pub < (w.proto p).window := refill_exhausts p dup fuel w hf

end Mqtt.C12
