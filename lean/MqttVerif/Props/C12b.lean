import MqttVerif.Props.C08s
import MqttVerif.Proofs.EnvOk
/-
  C12, the wire side of resumption: what `_syncSession` writes when a persistent session is resumed.
  In container order, the release window first: for every inherited PUBREL (entry without a running retry timer) its packet --
  with DUP set under 3.1, DUP clear under 3.1.1 --, then for every inherited PUBLISH its packet with DUP set; same bytes
  otherwise (`C08.patchDup_tail`), nothing else, nothing for entries that already have a timer.
-/
namespace Mqtt.C12
open Mqtt

/-- a resumption step on one request leaves every other request record alone -/
theorem retryPublishW_req_other (p rid : Nat) (dup : Bool) (w : World) (r : Nat) (hr : rid ≠ r) :
    (retryPublishW p rid dup w).req r = w.req r := by
  simp only [retryPublishW, req_setReq, ↓reduceIte]
  split <;> simp [hr]
theorem retryReleaseW_req_other (p rid : Nat) (dup : Bool) (w : World) (r : Nat) (hr : rid ≠ r) :
    (retryReleaseW p rid dup w).req r = w.req r := by
  simp only [retryReleaseW]
  split <;> simp [hr]
theorem retryPublishW_proto (p rid : Nat) (dup : Bool) (w : World) (q : Nat) : (retryPublishW p rid dup w).proto q = w.proto q := by
  simp only [World.proto, retryPublishW_protos]
theorem retryReleaseW_proto (p rid : Nat) (dup : Bool) (w : World) (q : Nat) : (retryReleaseW p rid dup w).proto q = w.proto q := by
  simp only [World.proto, retryReleaseW_protos]

/-- one pass of `_syncSession` over a list of entries with pairwise distinct request records: the log grows by one write per
    entry without a running timer, in list order; records of other requests, the protocol objects and the containers are untouched -/
theorem resume_pass (p : Nat) (step : Nat → World → World) (bytes : World → Nat → Bytes)
    (hlog : ∀ rid w, (step rid w).log = w.log ++ [.write p (bytes w rid)])
    (hother : ∀ rid w r, rid ≠ r → (step rid w).req r = w.req r)
    (hproto : ∀ rid w q, (step rid w).proto q = w.proto q)
    (hbytes : ∀ w w' rid, w'.req rid = w.req rid → (∀ q, w'.proto q = w.proto q) → bytes w' rid = bytes w rid) :
    ∀ (l : List Ent) (w : World), (l.map Ent.rid).Nodup →
      let w' := l.foldl (fun w e => if (w.req e.rid).alarm = none then step e.rid w else w) w
      w'.log = w.log ++ (l.filter fun e => (w.req e.rid).alarm = none).map (fun e => Obs.write p (bytes w e.rid)) ∧
      (∀ r, r ∉ l.map Ent.rid → w'.req r = w.req r) ∧ (∀ q, w'.proto q = w.proto q) := by
  intro l
  induction l with
  | nil => intro w _; simp
  | cons e rest ih =>
    intro w hnd
    simp only [List.map_cons, List.nodup_cons] at hnd
    obtain ⟨hne, hnd'⟩ := hnd
    simp only [List.foldl_cons]
    obtain ⟨w1, hw1⟩ : ∃ w1, w1 = (if (w.req e.rid).alarm = none then step e.rid w else w) := ⟨_, rfl⟩
    rw [← hw1]
    have hreq1 : ∀ r, e.rid ≠ r → w1.req r = w.req r := by
      intro r hr; rw [hw1]; split
      · exact hother _ _ _ hr
      · rfl
    have hproto1 : ∀ q, w1.proto q = w.proto q := by
      intro q; rw [hw1]; split
      · exact hproto _ _ _
      · rfl
    obtain ⟨i1, i2, i3⟩ := ih w1 hnd'
    have hrest : ∀ y ∈ rest, w1.req y.rid = w.req y.rid := fun y hy =>
      hreq1 _ (fun hc => hne (hc ▸ List.mem_map_of_mem hy))
    have hfilter : (rest.filter fun y => (w1.req y.rid).alarm = none) = rest.filter fun y => (w.req y.rid).alarm = none := by
      apply List.filter_congr; intro y hy; rw [hrest y hy]
    have hmap : ((rest.filter fun y => (w.req y.rid).alarm = none).map fun y => Obs.write p (bytes w1 y.rid)) =
        (rest.filter fun y => (w.req y.rid).alarm = none).map fun y => Obs.write p (bytes w y.rid) := by
      apply List.map_congr_left; intro y hy
      rw [hbytes w w1 y.rid (hrest y (List.mem_of_mem_filter hy)) hproto1]
    refine ⟨?_, fun r hr => ?_, fun q => by rw [i3, hproto1]⟩
    · rw [i1, hfilter, hmap]
      simp only [List.filter_cons]
      by_cases ha : (w.req e.rid).alarm = none
      · have : w1.log = w.log ++ [.write p (bytes w e.rid)] := by rw [hw1, if_pos ha]; exact hlog _ _
        simp [ha, this]
      · have : w1.log = w.log := by rw [hw1, if_neg ha]
        simp [ha, this]
    · simp only [List.map_cons, List.mem_cons, not_or] at hr
      rw [i2 r hr.2, hreq1 r (fun hc => hr.1 hc.symm)]

theorem foldl_ents_same (l : List Ent) (f : World → Ent → World) (hf : ∀ w e, (f w e).ents = w.ents) (w : World) :
    (l.foldl f w).ents = w.ents := by
  induction l generalizing w with
  | nil => rfl
  | cons e r ih => simp only [List.foldl_cons]; rw [ih, hf]

/-- **what resumption writes** -/
theorem resume_writes {x : Option Nat} {w : World} (h : WInvX x w) (p : Nat) :
    (syncW p w).log = w.log ++
      ((Ents.items w.ents (w.paddr p) .rel).filter fun e => (w.req e.rid).alarm = none).map
        (fun e => Obs.write p (if (w.proto p).version = v31 then patchDup (w.req e.rid).encoded true else clearDup (w.req e.rid).encoded)) ++
      ((Ents.items w.ents (w.paddr p) .pub).filter fun e => (w.req e.rid).alarm = none).map
        (fun e => Obs.write p (patchDup (w.req e.rid).encoded true)) := by
  have hnd : ∀ b, ((Ents.items w.ents (w.paddr p) b).map Ent.rid).Nodup := by
    intro b
    have hsub : (Ents.items w.ents (w.paddr p) b).Sublist w.ents := by
      generalize w.ents = es
      induction es with
      | nil => exact List.Sublist.refl _
      | cons y r ih => simp only [Ents.items]; split <;> [exact ih.cons₂ _; exact ih.cons _]
    refine (List.Nodup.sublist hsub h.nodup).map_on ?_
    intro a ha b' hb' hab
    exact h.ridUnique a (hsub.subset ha) b' (hsub.subset hb') hab
  simp only [syncW]
  obtain ⟨a1, a2, a3⟩ := resume_pass p (fun rid w => retryReleaseW p rid true w)
    (fun w rid => if (w.proto p).version = v31 then patchDup (w.req rid).encoded true else clearDup (w.req rid).encoded)
    (fun rid w => C08.retryRelease_writes p rid true w) (fun rid w r hr => retryReleaseW_req_other p rid true w r hr)
    (fun rid w q => retryReleaseW_proto p rid true w q) (fun w w' rid hr hp => by simp only [hr, hp])
    (Ents.items w.ents (w.paddr p) .rel) w (hnd .rel)
  obtain ⟨w1, hw1⟩ : ∃ w1, w1 = (Ents.items w.ents (w.paddr p) .rel).foldl
      (fun w e => if (w.req e.rid).alarm = none then retryReleaseW p e.rid true w else w) w := ⟨_, rfl⟩
  rw [← hw1] at a1 a2 a3 ⊢
  have hents1 : w1.ents = w.ents := by
    rw [hw1]
    apply foldl_ents_same
    intro w' e
    split
    · exact retryReleaseW_ents _ _ _ _
    · rfl
  have hpa1 : w1.paddr p = w.paddr p := by simp only [World.paddr, a3]
  -- the publish-window entries refer to records the first pass did not touch
  have hpub_req : ∀ e ∈ Ents.items w.ents (w.paddr p) .pub, w1.req e.rid = w.req e.rid := by
    intro e he
    apply a2
    intro hc
    obtain ⟨y, hy, hyr⟩ := List.mem_map.mp hc
    have h1 := Ents.mem_items.mp he
    have h2 := Ents.mem_items.mp hy
    have := h.ridUnique y h2.1 e h1.1 hyr
    rw [this] at h2
    rw [h1.2.2] at h2
    exact absurd h2.2.2 (by decide)
  obtain ⟨b1, _, _⟩ := resume_pass p (fun rid w => retryPublishW p rid true w)
    (fun w rid => patchDup (w.req rid).encoded true)
    (fun rid w => (C08.retryPublish_writes p rid true w).1) (fun rid w r hr => retryPublishW_req_other p rid true w r hr)
    (fun rid w q => retryPublishW_proto p rid true w q) (fun w w' rid hr _ => by simp only [hr])
    (Ents.items w1.ents (w1.paddr p) .pub) w1 (by rw [hents1, hpa1]; exact hnd .pub)
  rw [b1, a1, hents1, hpa1]
  congr 1
  have hf : ((Ents.items w.ents (w.paddr p) .pub).filter fun e => (w1.req e.rid).alarm = none) =
      (Ents.items w.ents (w.paddr p) .pub).filter fun e => (w.req e.rid).alarm = none := by
    apply List.filter_congr; intro e he; rw [hpub_req e he]
  rw [hf]
  apply List.map_congr_left
  intro e he
  rw [hpub_req e (List.mem_of_mem_filter he)]

/-- not vacuous: in the demo history the second connection resumes a session that holds one PUBREL and one PUBLISH without timer;
    `_syncSession` writes exactly those two packets -/
example : let w := run (World.init 3) (demo.take 25)
    ((Ents.items w.ents (w.paddr 1) .rel).filter fun e => (w.req e.rid).alarm = none).length = 1 ∧
    ((Ents.items w.ents (w.paddr 1) .pub).filter fun e => (w.req e.rid).alarm = none).length = 1 ∧
    (syncW 1 w).log.length = w.log.length + 2 := by decide +kernel

end Mqtt.C12
