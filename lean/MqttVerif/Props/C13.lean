import MqttVerif.Proofs.More
/-
  C13 — Settled requests and lost connections stay silent: no stray timers or writes.
-/
namespace Mqtt.C13
open Mqtt

/-- once a request has been acknowledged, failed or purged (it is in no container) no retry timer exists for it:
    nothing will ever be written for it again -/
theorem settled_silent {w : World} (h : WInv w) (rid : Nat) (hgone : ∀ e ∈ w.ents, e.rid ≠ rid) (t p : Nat) :
    ¬ Pending w t (.retry p rid) := settled_is_silent h rid hgone t p

/-- a packet awaiting acknowledgement is driven by a single retry timer: two pending retry timers for one request are the
    same timer -/
theorem single_timer {w : World} (h : WInv w) (t1 t2 p1 p2 rid : Nat)
    (h1 : Pending w t1 (.retry p1 rid)) (h2 : Pending w t2 (.retry p2 rid)) : t1 = t2 ∧ p1 = p2 :=
  single_retry_timer h t1 t2 p1 p2 rid h1 h2

/-- every pending timer is accounted for; in particular, with keepalive off (no ping timer objects) and nothing outstanding
    (no entries), the only timers that can be pending are handshake timeouts of connecting or lost protocols and
    not-yet-delivered onDisconnection notifications -/
theorem every_timer_has_an_owner {w : World} (h : WInv w) (t : Nat) (k : TKind) (hp : Pending w t k) :
    match k with
    | .retry p rid => (∃ e ∈ w.ents, e.rid = rid ∧ (w.req rid).alarm = some t) ∧ ∃ pr, w.protos.get? p = some pr ∧ pr.lost = false
    | .pingLoop p => ∃ pr l, w.protos.get? p = some pr ∧ pr.pingTimer = some l ∧ l.call = some t
    | .pingAlarm p => ∃ pr, w.protos.get? p = some pr ∧ pr.pingAlarm = some t
    | .connack cr => ∃ c d, w.connReqs.get? cr = some c ∧ c.dfd = some d ∧ d ∉ w.fired ∧ c.alarm = t ∧
        ∃ pr, w.protos.get? c.proto = some pr ∧ (pr.lost = true ∨ (pr.state = .connecting ∧ pr.connReq = some cr))
    | .onDisc _ _ => True := timer_owners h t k hp

/-- **once a connection has been reported lost nothing more is written to its transport** -/
theorem lost_transport_silent {w : World} (h : WInv w) (op : Op) (henv : Env w op) (p : Nat) (pr : Proto)
    (hp : w.protos.get? p = some pr) (hl : pr.lost = true) :
    EmitsAt ⟨(· != p), fun _ => true, true⟩ op.handler w := no_write_after_lost h op henv p pr hp hl

/-- reporting the loss itself writes nothing -/
theorem loss_writes_nothing (p : Nat) (r : Err) : Emits ⟨fun _ => false, fun _ => false, false⟩ (connectionLost p r) := lost_silent p r

/-- after the loss no timer of the connection remains except a still-running CONNACK timeout and the notification -/
theorem lost_timers {w : World} (h : WInv w) (p : Nat) (pr : Proto) (hp : w.protos.get? p = some pr) (hl : pr.lost = true) (t : Nat) :
    (∀ rid, ¬ Pending w t (.retry p rid)) ∧ ¬ Pending w t (.pingLoop p) ∧ ¬ Pending w t (.pingAlarm p) :=
  lost_has_no_timers h p pr hp hl t

end Mqtt.C13
