import MqttVerif.Proofs.More
/-
  C15 — Keepalive: PINGREQ every k seconds, abort when unanswered, silent when k=0.
  Time is virtual: a timer fires when the environment fires it (`fire t`), at or after its due time.
-/
namespace Mqtt.C15
open Mqtt

/-- one run of the LoopingCall body on a connected protocol with keepalive: the PINGREQ is written, the PINGRESP alarm is
    armed for `k` seconds unless one is already running, the loop schedules its next run -- no exception, invariant kept -/
theorem loop_run {x : Option Nat} {w : World} (h : WInvX x w) (p : Nat) (ppr : Proto) (hpp : w.protos.get? p = some ppr)
    (hnl : ppr.lost = false) (l : Loop) (hl : ppr.pingTimer = some l) (hcall : l.call = none) :
    (loopRun p w).2 = none ∧ WInvX x (loopRun p w).1 ∧ PingFrame w (loopRun p w).1 p ppr := loopRun_inv h p ppr hpp hnl l hl hcall

/-- the alarm is armed `k` seconds ahead, the next run `interval` seconds ahead (definitions of the transitions) -/
theorem alarm_due (w : World) (p : Nat) (ppr : Proto) (due : Nat) (log' : List Obs) :
    (pingArmW w p ppr due log').timers.get? w.nextTimer = some ⟨due, .pingAlarm p, .pending⟩ := by
  simp [pingArmW, Dict.get?_set]
theorem next_run_due (w : World) (p : Nat) (ppr : Proto) (l : Loop) (due : Nat) :
    (loopSchedW w p ppr l due).timers.get? w.nextTimer = some ⟨due, .pingLoop p, .pending⟩ := by
  simp [loopSchedW, Dict.get?_set]

/-- a keepalive loop exists only on a connected protocol, is running, and has a keepalive value (clause `pingTimer`) -/
theorem loop_only_while_connected {w : World} (h : WInv w) (p : Nat) (pr : Proto) (l : Loop) (hp : w.protos.get? p = some pr)
    (hl : pr.pingTimer = some l) :
    l.running = true ∧ pr.state = .connected ∧ pr.pingKeepalive ≠ none ∧ ∀ t, l.call = some t → Pending w t (.pingLoop p) :=
  h.pingTimer p pr l hp hl

/-- PINGRESP in time cancels the alarm: keepalive never closes a connection whose PINGREQs are answered -/
theorem pingresp_cancels {x : Option Nat} {w : World} (h : WInvX x w) (p : Nat) (ppr : Proto) (hpp : w.protos.get? p = some ppr) :
    (handlePINGRESP p w).2 = none ∧ WInvX x (handlePINGRESP p w).1 := handlePINGRESP_inv h p ppr hpp

/-- the alarm that does expire belongs to a PINGREQ still unanswered: a pending `pingAlarm` timer is the protocol's
    current alarm (clause `pingAlarmOwned`); its callback clears it and aborts the connection (`runTimer`) -/
theorem alarm_is_current {w : World} (h : WInv w) (t p : Nat) (hp : Pending w t (.pingAlarm p)) :
    ∃ pr, w.protos.get? p = some pr ∧ pr.pingAlarm = some t := h.pingAlarmOwned t p hp
theorem alarm_expiry_aborts (p : Nat) (w : World) :
    runTimer (.pingAlarm p) w = (setProto p (fun pr => { pr with pingAlarm := none }) ;; abort p) w := rfl

/-- **keepalive 0**: no loop object, hence no loop timer, hence no PINGREQ from a timer; a loop timer that is pending
    belongs to a loop object (clause `pingLoopOwned`) -/
theorem no_loop_no_timer {w : World} (h : WInv w) (p : Nat) (pr : Proto) (hp : w.protos.get? p = some pr) (hpt : pr.pingTimer = none)
    (t : Nat) : ¬ Pending w t (.pingLoop p) := by
  intro hc
  obtain ⟨pr', l, a, b, _⟩ := h.pingLoopOwned t p hc
  rw [hp] at a; injection a with a; subst a
  rw [hpt] at b; cases b

/-- **no keepalive activity outlives its connection** -/
theorem none_after_loss {w : World} (h : WInv w) (p : Nat) (pr : Proto) (hp : w.protos.get? p = some pr) (hl : pr.lost = true) (t : Nat) :
    ¬ Pending w t (.pingLoop p) ∧ ¬ Pending w t (.pingAlarm p) := (lost_has_no_timers h p pr hp hl t).2

end Mqtt.C15
