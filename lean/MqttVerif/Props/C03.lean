import MqttVerif.Proofs.Framing
/-
  C03 — Packet framing is independent of how TCP segments the byte stream (pure part).
  `splitPackets` is the loop of MQTTBaseProtocol._accumulatePacket; `feed` one dataReceived call
  (buffer, packets handed to _processPacket so far). The session-level statement (same observable
  actions) is `C03.session` in Props/Session.lean.
-/
namespace Mqtt.C03

/-- For ANY byte list and ANY division into chunks the packets handed on, in order, and the bytes
    left in `_buffer` are the same as for the concatenation delivered at once. -/
theorem chunking (buf : Bytes) (done : List Bytes) (chunks : List Bytes) (hres : firstPacket buf = none) :
    chunks.foldl feed (buf, done) = feed (buf, done) chunks.flatten :=
  feed_chunks buf done chunks hres

/-- the state every call leaves behind satisfies the hypothesis of `chunking` -/
theorem residual (buf : Bytes) : firstPacket (splitPackets buf).2 = none :=
  splitPackets_residual buf

/-- nothing is dropped, duplicated, merged, truncated or reordered: the packets handed on followed
    by the buffered remainder are exactly the bytes received -/
theorem conservation (buf : Bytes) : (splitPackets buf).1.flatten ++ (splitPackets buf).2 = buf :=
  splitPackets_concat buf

/-- a complete first packet is not changed by bytes that arrive later -/
theorem stability (buf c p r : Bytes) (h : firstPacket buf = some (p, r)) :
    firstPacket (buf ++ c) = some (p, r ++ c) :=
  firstPacket_append buf c p r h

/-- every packet laid out as the standard prescribes (first byte, remaining length n, n bytes) is cut
    out exactly, whatever follows -/
theorem well_formed (h n : Nat) (body rest : Bytes) (hb : body.length = n) :
    firstPacket ([h] ++ encodeLength n ++ body ++ rest) = some ([h] ++ encodeLength n ++ body, rest) :=
  firstPacket_encoded h n body rest hb

/-! Non-vacuity: two packets cut byte by byte -/
example : [[0x40], [2], [0], [7, 0xD0], [0]].foldl feed ([], []) = ([], [[0x40, 2, 0, 7], [0xD0, 0]]) := by decide
example : firstPacket [0x30, 0x80] = none := by decide

end Mqtt.C03
