import MqttVerif.Proofs.More
/-
  C09 — QoS 2 sender order: PUBREL only after PUBREC, no PUBLISH again after PUBREL.
-/
namespace Mqtt.C09
open Mqtt

/-- **PUBREC for a QoS 2 PUBLISH in flight**: the PUBLISH entry leaves the publish window (its retry timer is cancelled),
    a PUBREL request under the same identifier and with the same Deferred enters the release window and is transmitted
    (this is the only place where the model creates a PUBREL request) -/
theorem pubrec_effect {w : World} (h : WInv w) (p : Nat) (ppr : Proto) (hpp : w.protos.get? p = some ppr)
    (hlive : ppr.lost = false) (hconn : ppr.state = .connected) (m : Nat) (hm : m < 65536) (rid : Nat)
    (hl : Ents.lookup w.ents ppr.addr .pub m = some rid) (hq2 : (w.req rid).qos = 2) :
    ∃ t bs, (w.req rid).alarm = some t ∧ encodePUBREL (m : Int) = .ok bs ∧
      handlePUBREC p m w = (retryReleaseW p w.nextReq false (afterPubrec w ppr.addr m rid t bs ppr.initialT), none) :=
  handlePUBREC_effect h p ppr hpp hlive hconn m hm rid hl hq2

/-- a PUBREC bearing the identifier of a QoS 1 message writes no PUBREL and creates no release-window entry -/
theorem pubrec_for_qos1 (p m rid : Nat) (w : World) (h : Ents.lookup w.ents (w.paddr p) .pub m = some rid) (hq : (w.req rid).qos ≠ 2) :
    handlePUBREC p m w = (w, none) := handlePUBREC_wrong_qos p m rid w h hq

/-- once the PUBREL has been written no container holds the PUBLISH request any more ... -/
theorem no_publish_entry_left {w : World} (h : WInv w) (a m rid t : Nat) (bs : Bytes) (i : Nat) (he : (⟨a, .pub, m, rid⟩ : Ent) ∈ w.ents) :
    ∀ y ∈ (afterPubrec w a m rid t bs i).ents, ¬ (y.box = .pub ∧ y.key = m ∧ y.addr = a) ∧ y.rid ≠ rid :=
  afterPubrec_no_publish h a m rid t bs i he

/-- ... and a request that is in no container is never transmitted again: it has no retry timer (timer expiry resends
    only the request its timer names), and session resumption walks the containers -/
theorem gone_request_has_no_timer {w : World} (h : WInv w) (rid : Nat) (hgone : ∀ e ∈ w.ents, e.rid ≠ rid) (t p : Nat) :
    ¬ Pending w t (.retry p rid) := settled_is_silent h rid hgone t p

/-- PUBREC for an identifier that is not awaiting PUBREC (unknown, or already in the PUBREL stage): no effect,
    in particular no second PUBREL request -/
theorem pubrec_unknown (p m : Nat) (w : World) (h : Ents.lookup w.ents (w.paddr p) .pub m = none) :
    handlePUBREC p m w = (w, none) := handlePUBREC_unknown p m w h

/-- the identifier stays occupied until PUBCOMP or purge: the release-window entry counts as in use for `makeId` -/
theorem identifier_occupied (w : World) (a m rid : Nat) (he : (⟨a, .rel, m, rid⟩ : Ent) ∈ w.ents) : idInUse w m = true := by
  simp only [idInUse, List.any_eq_true]
  exact ⟨_, he, by simp⟩

/-- the exchange ends on PUBCOMP -/
theorem pubcomp_ends {w : World} (h : WInv w) (p : Nat) (ppr : Proto) (hpp : w.protos.get? p = some ppr)
    (hlive : ppr.lost = false) (hconn : ppr.state = .connected) (m rid : Nat)
    (hl : Ents.lookup w.ents ppr.addr .rel m = some rid) :
    ∃ t d, (w.req rid).alarm = some t ∧ (w.req rid).dfd = some d ∧ d ∉ w.fired ∧ (w.req rid).msgId = m ∧
      handlePUBCOMP p m w = (refillW p false (Ents.count (Ents.remove w.ents ppr.addr .rel m) ppr.addr .queue)
        (fireD (dropArmed w ⟨ppr.addr, .rel, m, rid⟩ t) d (.fired d (.ok (.int m)))), none) :=
  handlePUBCOMP_effect h p ppr hpp hlive hconn m rid hl

end Mqtt.C09
