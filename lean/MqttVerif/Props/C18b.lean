import MqttVerif.Proofs.FirstConnect
import MqttVerif.Props.C15b
/-
  C18 over histories: "nothing is written before connect() is called, the first packet is CONNECT".  No invariant and no assumption on
  the environment is needed: the statements hold for every list of operations from a fresh factory, including operations on protocol
  numbers that were never built, connection losses reported twice, bytes received on idle protocols and timers fired in any order.
-/
namespace Mqtt.C18

/-- **the first packet on every transport is a CONNECT**: after any history, for every protocol object, either nothing has been
    written to its transport or the first packet written there is a CONNECT -/
theorem first_packet_is_connect (profile : Nat) (ops : List Op) (p : Nat) :
    NoW p (run (World.init profile) ops).log ∨ FirstC p (run (World.init profile) ops).log :=
  (started_run p ops _ (started_init p profile)).imp (fun h => h.2) id

/-- **nothing is written before connect() is called**: a history without a `connect()` on protocol `p` writes nothing to `p`'s
    transport -- whatever is called on `p`, received on it, reported lost, or run by the reactor -- and leaves `p` idle -/
theorem nothing_before_connect (profile : Nat) (ops : List Op) (p : Nat) (h : ∀ a, Op.connect p a ∉ ops) :
    NoW p (run (World.init profile) ops).log ∧ ((run (World.init profile) ops).proto p).state = .idle := by
  obtain ⟨hc, hn⟩ := quiet_until_connect p ops _ (clean_init p profile).1 (clean_init p profile).2 h
  exact ⟨hn, hc.idle⟩

/-- one operation, from a state where `p` has not started: only `connect()` on `p` writes to `p`'s transport, and what it writes
    first is the CONNECT -/
theorem only_connect_starts (p : Nat) (w : World) (hc : Clean p w) (op : Op) :
    ∃ l, (step w op).log = w.log ++ l ∧ ((Clean p (step w op) ∧ NoW p l) ∨ ((∃ a, op = .connect p a) ∧ FirstC p l)) := clean_step p w hc op

/-- disconnect(), when the state honours it, writes the DISCONNECT and asks the transport to close -- nothing else, and the state object stays
    (the transport reports the loss later) -/
theorem disconnect_writes_and_closes (w : World) (p : Nat) (h : allowed w p 1 = true) :
    apiDisconnect p w = ({ w with log := w.log ++ [.write p encodeDISCONNECT, .close p, .retNone] }, none) := by
  simp [apiDisconnect, Step.read, h, Step.seq, write, emit, Step.mod, World.emit]

instance (p : Nat) (l : List Obs) : Decidable (NoW p l) := by unfold NoW; infer_instance
/-- not vacuous: in the keepalive demonstration history protocol 0 has written (so its first packet is a CONNECT), while a second
    protocol that is built, configured, fed bytes and reported lost without connect() has written nothing -/
example : ¬ NoW 0 (run (World.init 3) C15.kaDemo).log
    ∧ NoW 1 (run (World.init 3) (C15.kaDemo ++ [.build 1, .sethandlers 1 7, .publish 1 (.str "a") (.bytearray [1]) 1 false,
        .recv 1 [0x20, 2, 0, 0], .recv 1 [0xD0, 0], .lost 1 .connLost, .fire 0, .fire 1])).log := by decide +kernel

end Mqtt.C18
