import MqttVerif.Proofs.FirstConnect
import MqttVerif.Props.C15b
import MqttVerif.Props.C19b
/-
  C18 over histories: "nothing is written before connect() is called, the first packet is CONNECT".  No invariant and no assumption on
  the environment is needed: the statements hold for every list of operations from a fresh factory, including operations on protocol
  numbers that were never built, connection losses reported twice, bytes received on idle protocols and timers fired in any order.
-/
namespace Mqtt.C18

/-- **the first packet on every transport is a CONNECT**: after any history, for every protocol object, either nothing has been
    written to its transport or the first packet written there is a CONNECT -/
theorem first_packet_is_connect (profile : Nat) (ops : List Op) (p : Nat) :
    NoW p (run (World.init profile) ops).log ∨ FirstC p (run (World.init profile) ops).log :=
  (started_run p ops _ (started_init p profile)).imp (fun h => h.2) id

/-- **nothing is written before connect() is called**: a history without a `connect()` on protocol `p` writes nothing to `p`'s
    transport -- whatever is called on `p`, received on it, reported lost, or run by the reactor -- and leaves `p` idle -/
theorem nothing_before_connect (profile : Nat) (ops : List Op) (p : Nat) (h : ∀ a, Op.connect p a ∉ ops) :
    NoW p (run (World.init profile) ops).log ∧ ((run (World.init profile) ops).proto p).state = .idle := by
  obtain ⟨hc, hn⟩ := quiet_until_connect p ops _ (clean_init p profile).1 (clean_init p profile).2 h
  exact ⟨hn, hc.idle⟩

/-- one operation, from a state where `p` has not started: only `connect()` on `p` writes to `p`'s transport, and what it writes
    first is the CONNECT -/
theorem only_connect_starts (p : Nat) (w : World) (hc : Clean p w) (op : Op) :
    ∃ l, (step w op).log = w.log ++ l ∧ ((Clean p (step w op) ∧ NoW p l) ∨ ((∃ a, op = .connect p a) ∧ FirstC p l)) := clean_step p w hc op

/-- disconnect(), when the state honours it, writes the DISCONNECT and asks the transport to close -- nothing else, and the state object stays
    (the transport reports the loss later) -/
theorem disconnect_writes_and_closes (w : World) (p : Nat) (h : allowed w p 1 = true) :
    apiDisconnect p w = ({ w with log := w.log ++ [.write p encodeDISCONNECT, .close p, .retNone] }, none) := by
  simp [apiDisconnect, Step.read, h, Step.seq, write, emit, Step.mod, World.emit]

/-- a protocol whose loss has been reported is clean: idle, and no pending timer is one of its keepalive or retransmission callbacks -/
theorem lost_is_clean {w : World} (hw : WInv w) (p : Nat) (pr : Proto) (hpp : w.protos.get? p = some pr) (hl : pr.lost = true) : Clean p w := by
  obtain ⟨hi, hpt, hpa⟩ := hw.lostIdle p pr hpp hl
  refine ⟨by simp only [World.proto, hpp, Option.getD_some]; exact hi, fun t tm ht hs hk => ?_⟩
  cases hkind : tm.kind with
  | connack cr => rw [hkind] at hk; exact hk
  | onDisc q r => rw [hkind] at hk; exact hk
  | pingLoop q =>
    rw [hkind] at hk; cases hk
    obtain ⟨pr', l, h1, h2, _⟩ := hw.pingLoopOwned t _ ⟨tm, ht, hs, hkind⟩
    rw [hpp] at h1; injection h1 with h1; subst h1
    rw [hpt] at h2; cases h2
  | pingAlarm q =>
    rw [hkind] at hk; cases hk
    obtain ⟨pr', h1, h2⟩ := hw.pingAlarmOwned t _ ⟨tm, ht, hs, hkind⟩
    rw [hpp] at h1; injection h1 with h1; subst h1
    rw [hpa] at h2; cases h2
  | retry q rid =>
    rw [hkind] at hk; cases hk
    obtain ⟨pr', h1, h2⟩ := hw.retryLive t _ rid ⟨tm, ht, hs, hkind⟩
    rw [hpp] at h1; injection h1 with h1; subst h1
    rw [hl] at h2; cases h2

/-- **nothing at all is written once the connection has been reported lost** -- in any continuation, of any length, whether or not it
    respects `Env` (bytes still arriving, the loss reported again, API calls on the dead protocol, timers of any kind): as long as
    `connect()` is not called on that protocol object again (that is known finding KF-2), nothing is written to its transport -/
theorem silent_after_loss {w : World} (hw : WInv w) (p : Nat) (pr : Proto) (hpp : w.protos.get? p = some pr) (hl : pr.lost = true)
    (ops : List Op) (hno : ∀ a, Op.connect p a ∉ ops) : ∃ l, (run w ops).log = w.log ++ l ∧ NoW p l := by
  obtain ⟨l, h1, h2, _⟩ := quiet_delta p ops w (lost_is_clean hw p pr hpp hl) hno
  exact ⟨l, h1, h2⟩

instance (p : Nat) (l : List Obs) : Decidable (NoW p l) := by unfold NoW; infer_instance
/-- not vacuous: in the keepalive demonstration history protocol 0 has written (so its first packet is a CONNECT), while a second
    protocol that is built, configured, fed bytes and reported lost without connect() has written nothing -/
example : ¬ NoW 0 (run (World.init 3) C15.kaDemo).log
    ∧ NoW 1 (run (World.init 3) (C15.kaDemo ++ [.build 1, .sethandlers 1 7, .publish 1 (.str "a") (.bytearray [1]) 1 false,
        .recv 1 [0x20, 2, 0, 0], .recv 1 [0xD0, 0], .lost 1 .connLost, .fire 0, .fire 1])).log := by decide +kernel

/-- not vacuous, and outside `Env`: after protocol 1 of the two-address demonstration has been reported lost, bytes still arriving for
    it, a second loss report, API calls on it and every timer of the table leave its transport untouched -/
def lostOne : List Op := C19.twoUp ++ C19.onOne.take 5
theorem lostOne_env : EnvRun (World.init 3) lostOne := envRunOk_sound _ _ (by decide +kernel)
example : ∃ l, (run (run (World.init 3) lostOne) [.recv 1 [0x20, 2, 0, 0], .recv 1 [0x32, 6, 0, 1, 0x61, 0, 7, 0x78], .lost 1 .connLost,
      .publish 1 (.str "a") (.bytearray [1]) 1 false, .disconnect 1, .fire 0, .fire 1, .fire 2, .fire 3, .fire 4, .fire 5, .fire 6, .fire 7]).log
      = (run (World.init 3) lostOne).log ++ l ∧ NoW 1 l := by
  have hw := reachable_inv 3 (Or.inr (Or.inr rfl)) lostOne lostOne_env
  obtain ⟨pr, hpp, hl⟩ : ∃ pr, (run (World.init 3) lostOne).protos.get? 1 = some pr ∧ pr.lost = true := by decide +kernel
  exact silent_after_loss hw 1 pr hpp hl _ (fun a h => by simp at h)

end Mqtt.C18
