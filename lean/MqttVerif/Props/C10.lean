import MqttVerif.Proofs.More
/-
  C10 — Send window bounds in-flight publishes; queue is FIFO and strands no message.
-/
namespace Mqtt.C10
open Mqtt

/-- publish() beyond the window is accepted and held back, never rejected or dropped: it never raises, and the
    request is appended to the queue before `_refillPublish` runs (`mkStep`) -/
theorem publish_accepts {w : World} (h : WInv w) (p : Nat) (topic : PyStr) (payload : Payload) (qos : Int) (retain : Bool)
    (hex : Exists w p) (hfree : FreeId w) :
    (apiPublish p topic payload qos retain w).2 = none ∧ WInv (apiPublish p topic payload qos retain w).1 :=
  apiPublish_inv h p topic payload qos retain hex hfree

/-- **window**: with as many PUBLISH packets awaiting their first acknowledgement as the window size in force, nothing is
    launched -/
theorem window_full_launches_nothing (p : Nat) (dup : Bool) (fuel : Nat) (w : World)
    (h : ¬ Ents.count w.ents (w.paddr p) .pub < (w.proto p).window) : refillW p dup fuel w = w := refill_window_full p dup fuel w h

/-- **FIFO**: what is launched is the head of the queue of held-back messages, one at a time, while there is room -/
theorem launches_head_first (p : Nat) (dup : Bool) (f : Nat) (w : World) (e : Ent) (rest : List Ent)
    (hq : Ents.items w.ents (w.paddr p) .queue = e :: rest) (hroom : Ents.count w.ents (w.paddr p) .pub < (w.proto p).window) :
    refillW p dup (f + 1) w = refillW p dup f (retryPublishW p e.rid dup
      (if (w.req e.rid).msgId ≠ 0 then
        (w.setEnts fun es => Ents.dropFirst es (w.paddr p) .queue).setEnts fun es => Ents.insert es (w.paddr p) .pub (w.req e.rid).msgId e.rid
       else w.setEnts fun es => Ents.dropFirst es (w.paddr p) .queue)) := refill_launches_head p dup f w e rest hq hroom

/-- **no message stranded**: after `_refillPublish` (run after every publish(), PUBACK, PUBCOMP and CONNACK) either no
    message of the address is held back or the window is full -/
theorem refill_leaves_no_room (p : Nat) (dup : Bool) (fuel : Nat) (w : World)
    (hf : (Ents.items w.ents (w.paddr p) .queue).length ≤ fuel) :
    Ents.items (refillW p dup fuel w).ents (w.paddr p) .queue = [] ∨
    ¬ Ents.count (refillW p dup fuel w).ents (w.paddr p) .pub < (w.proto p).window := refill_exhausts p dup fuel w hf

/-- held-back messages carry no retry timer (they have not been transmitted) and keep their place: clause `queueNoAlarm` -/
theorem held_back_not_armed {w : World} (h : WInv w) (e : Ent) (he : e ∈ w.ents) (hq : e.box = .queue) :
    (w.req e.rid).alarm = none := h.queueNoAlarm e he hq

end Mqtt.C10
