import MqttVerif.Proofs.Keepalive
import MqttVerif.Proofs.EnvOk
/-
  C15, "a PINGREQ at least every k seconds": in every state reachable from a fresh factory, a protocol that has a keepalive loop has the
  loop's next run on the reactor's table -- pending, with the loop callback of that protocol, due no later than `now + k` where `k` is the
  keepalive of the accepted connect().  When it runs it writes the PINGREQ and schedules the next run (`C15.loop_run`); so between two
  PINGREQs of a connection no more than k seconds of virtual time pass, provided the reactor runs timers when they are due.
  The bound is carried by `KAInv` (Proofs/Keepalive.lean), an invariant of ALL operation sequences (no `Env` needed): the run was scheduled
  `interval` seconds ahead, the clock never goes back, and no operation re-programs a timer.
-/
namespace Mqtt.C15
open Mqtt

/-- one operation keeps the keepalive bookkeeping (armed, due within the period, period = keepalive), whatever the operation -/
theorem keepalive_bookkeeping (w : World) (h : KAInv w) (op : Op) : KAInv (step w op) := ka_step w h op

theorem next_ping_within_keepalive (profile : Nat) (hprof : profile = 1 ∨ profile = 2 ∨ profile = 3) (ops : List Op)
    (henv : EnvRun (World.init profile) ops) (p : Nat) (pr : Proto) (l : Loop)
    (hp : (run (World.init profile) ops).protos.get? p = some pr) (hl : pr.pingTimer = some l) :
    ∃ t tm, l.call = some t ∧ (run (World.init profile) ops).timers.get? t = some tm ∧ tm.status = .pending ∧ tm.kind = .pingLoop p ∧
      tm.due ≤ (run (World.init profile) ops).now + ticks l.interval ∧ ∀ k, pr.pingKeepalive = some k → (l.interval : Nat) = k := by
  have hw : WInv (run (World.init profile) ops) := reachable_inv profile hprof ops henv
  have hk : KAInv (run (World.init profile) ops) := run_ka ops _ (KAInv.init profile)
  obtain ⟨hrun, _, _, hcall⟩ := hw.pingTimer p pr l hp hl
  have hne := hk.armed p pr l hp (by simp) hl hrun
  obtain ⟨t, ht⟩ : ∃ t, l.call = some t := by
    cases hc : l.call with
    | none => exact absurd hc hne
    | some t => exact ⟨t, rfl⟩
  obtain ⟨tm, htm, hst, hkind⟩ := hcall t ht
  exact ⟨t, tm, ht, htm, hst, hkind, hk.loopDue p pr l t tm hp hl ht htm, fun k hk' => hk.period p pr l k hp hl hk'⟩

/-- not vacuous: after an accepted connect() with keepalive 5 the loop exists, its next run is timer 2, due 5 s (5 * 2^20 ticks) from now -/
def kaDemo : List Op := [ .build 0, .sethandlers 0 7, .connect 0 (cargs 5 true), .recv 0 [0x20, 2, 0, 0], .recv 0 [0xD0, 0] ]
theorem kaDemo_env : EnvRun (World.init 3) kaDemo := envRunOk_sound kaDemo (World.init 3) (by decide +kernel)
example : (((run (World.init 3) kaDemo).proto 0).pingTimer.map fun l => (l.running, l.interval, l.call)) = some (true, 5, some 2)
    ∧ ((run (World.init 3) kaDemo).timers.get? 2).map (fun t => (t.due, t.status)) = some (5 * 1048576, .pending) := by decide +kernel

end Mqtt.C15
