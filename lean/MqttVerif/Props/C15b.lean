import MqttVerif.Proofs.Deadline
import MqttVerif.Proofs.EnvOk
/-
  C15, "a PINGREQ at least every k seconds": in every state reachable from a fresh factory, a protocol that has a keepalive loop has the
  loop's next run on the reactor's table -- pending, with the loop callback of that protocol, due no later than `now + k` where `k` is the
  keepalive of the accepted connect().  When it runs it writes the PINGREQ and schedules the next run (`C15.loop_run`); so between two
  PINGREQs of a connection no more than k seconds of virtual time pass, provided the reactor runs timers when they are due.
  The bound is carried by `KAInv` (Proofs/Keepalive.lean), an invariant of ALL operation sequences (no `Env` needed): the run was scheduled
  `interval` seconds ahead, the clock never goes back, and no operation re-programs a timer.
-/
namespace Mqtt.C15
open Mqtt

/-- one operation keeps the keepalive bookkeeping (armed, due within the period, period = keepalive), whatever the operation -/
theorem keepalive_bookkeeping (w : World) (h : KAInv w) (op : Op) : KAInv (step w op) := ka_step w h op

theorem next_ping_within_keepalive (profile : Nat) (hprof : profile = 1 ∨ profile = 2 ∨ profile = 3) (ops : List Op)
    (henv : EnvRun (World.init profile) ops) (p : Nat) (pr : Proto) (l : Loop)
    (hp : (run (World.init profile) ops).protos.get? p = some pr) (hl : pr.pingTimer = some l) :
    ∃ t tm, l.call = some t ∧ (run (World.init profile) ops).timers.get? t = some tm ∧ tm.status = .pending ∧ tm.kind = .pingLoop p ∧
      tm.due ≤ (run (World.init profile) ops).now + ticks l.interval ∧ ∀ k, pr.pingKeepalive = some k → (l.interval : Nat) = k := by
  have hw : WInv (run (World.init profile) ops) := reachable_inv profile hprof ops henv
  have hk : KAInv (run (World.init profile) ops) := run_ka ops _ (KAInv.init profile)
  obtain ⟨hrun, _, _, hcall⟩ := hw.pingTimer p pr l hp hl
  have hne := hk.armed p pr l hp (by simp) hl hrun
  obtain ⟨t, ht⟩ : ∃ t, l.call = some t := by
    cases hc : l.call with
    | none => exact absurd hc hne
    | some t => exact ⟨t, rfl⟩
  obtain ⟨tm, htm, hst, hkind⟩ := hcall t ht
  exact ⟨t, tm, ht, htm, hst, hkind, hk.loopDue p pr l t tm hp hl ht htm, fun k hk' => hk.period p pr l k hp hl hk'⟩

/-- the deadline bookkeeping (a protocol that is not connected has no deadline; a deadline exists on the timer table and is due within the
    keepalive) is kept by every operation, whatever the operation -/
theorem deadline_bookkeeping (w : World) (h : KDInv w) (op : Op) : KDInv (step w op) := kd_step w h op

/-- **"if k seconds pass after a PINGREQ without a PINGRESP it aborts"**: in every reachable state, a protocol that waits for a PINGRESP is
    connected and its deadline is on the reactor's table -- pending, with the abort callback of that protocol (`alarm_expiry_aborts`), due no
    later than `now + k`.  It was armed k seconds ahead when a PINGREQ went out with no deadline pending, so it expires k seconds after the
    oldest PINGREQ still unanswered; a PINGRESP cancels it (`pingresp_cancels`). -/
theorem abort_deadline (profile : Nat) (hprof : profile = 1 ∨ profile = 2 ∨ profile = 3) (ops : List Op)
    (henv : EnvRun (World.init profile) ops) (p : Nat) (pr : Proto) (t : Nat)
    (hp : (run (World.init profile) ops).protos.get? p = some pr) (ha : pr.pingAlarm = some t) :
    pr.state = .connected ∧ ∃ tm, (run (World.init profile) ops).timers.get? t = some tm ∧ tm.status = .pending ∧ tm.kind = .pingAlarm p ∧
      ∀ k, pr.pingKeepalive = some k → tm.due ≤ (run (World.init profile) ops).now + ticks k := by
  have hw : WInv (run (World.init profile) ops) := reachable_inv profile hprof ops henv
  have hk : KDInv (run (World.init profile) ops) := run_kd ops _ (KDInv.init profile)
  obtain ⟨tm, htm, hst, hkind⟩ := hw.pingAlarm p pr t hp ha
  refine ⟨?_, tm, htm, hst, hkind, fun k hkk => hk.alarmDue p pr t tm k hp ha hkk htm⟩
  cases hs : pr.state with
  | connected => rfl
  | idle => have := hk.idleNoAlarm p pr hp (by rw [hs]; decide); rw [ha] at this; cases this
  | connecting => have := hk.idleNoAlarm p pr hp (by rw [hs]; decide); rw [ha] at this; cases this

/-- not vacuous: after an accepted connect() with keepalive 5 the loop exists, its next run is timer 2, due 5 s (5 * 2^20 ticks) from now -/
def kaDemo : List Op := [ .build 0, .sethandlers 0 7, .connect 0 (cargs 5 true), .recv 0 [0x20, 2, 0, 0], .recv 0 [0xD0, 0] ]
/-- and before the PINGRESP the deadline is timer 1, due 5 s ahead -/
def kaDemo2 : List Op := kaDemo.take 4
example : ((run (World.init 3) kaDemo2).proto 0).pingAlarm = some 1
    ∧ ((run (World.init 3) kaDemo2).timers.get? 1).map (fun t => (t.due, t.status)) = some (5 * 1048576, .pending) := by decide +kernel
theorem kaDemo_env : EnvRun (World.init 3) kaDemo := envRunOk_sound kaDemo (World.init 3) (by decide +kernel)
example : (((run (World.init 3) kaDemo).proto 0).pingTimer.map fun l => (l.running, l.interval, l.call)) = some (true, 5, some 2)
    ∧ ((run (World.init 3) kaDemo).timers.get? 2).map (fun t => (t.due, t.status)) = some (5 * 1048576, .pending) := by decide +kernel

end Mqtt.C15
