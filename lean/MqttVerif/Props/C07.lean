import MqttVerif.Proofs.Local
/-
  C07 — subscribe()/unsubscribe(): one request per call, matched by id, window enforced.
-/
namespace Mqtt.C07
open Mqtt

theorem subscribe_safe {w : World} (h : WInv w) (p : Nat) (arg : SubArg) (qos : Int) (hex : Exists w p) (hfree : FreeId w) :
    (apiSubscribe p arg qos w).2 = none ∧ WInv (apiSubscribe p arg qos w).1 := apiSubscribe_inv h p arg qos hex hfree

theorem unsubscribe_safe {w : World} (h : WInv w) (p : Nat) (arg : UnsubArg) (hex : Exists w p) (hfree : FreeId w) :
    (apiUnsubscribe p arg w).2 = none ∧ WInv (apiUnsubscribe p arg w).1 := apiUnsubscribe_inv h p arg hex hfree

/-- **window enforced**: with at least `window` SUBSCRIBE requests awaiting SUBACK the call fails with MQTTWindowError and
    does nothing else (no identifier drawn, nothing written, no request registered) -/
theorem subscribe_window_full (p : Nat) (arg : SubArg) (qos : Int) (w : World) (ha : allowed w p 2 = true)
    (hfull : Ents.count w.ents (w.paddr p) .sub ≥ (w.proto p).window) :
    apiSubscribe p arg qos w = (w.emit (.retFail .window), none) := by
  simp [apiSubscribe, Step.read, ha, hfull, emit, Step.mod]

/-- the same for UNSUBSCRIBE (one identifier has been drawn by then -- doUnsubscribe calls makeId before the check) -/
theorem unsubscribe_window_full (p : Nat) (arg : UnsubArg) (w : World) (ha : allowed w p 3 = true)
    (hfull : Ents.count w.ents (w.paddr p) .unsub ≥ (w.proto p).window) :
    apiUnsubscribe p arg w =
      (({ w with nextId := scanId w 65535 w.nextId, idAllocs := w.idAllocs + 1 } : World).emit (.retFail .window), none) := by
  simp only [apiUnsubscribe, read_apply, ha, Bool.not_true, Bool.false_eq_true, ↓reduceIte]
  rw [makeId_apply, read_apply]
  have : Ents.count ({ w with nextId := scanId w 65535 w.nextId, idAllocs := w.idAllocs + 1 } : World).ents
      (({ w with nextId := scanId w 65535 w.nextId, idAllocs := w.idAllocs + 1 } : World).paddr p) .unsub ≥
      (({ w with nextId := scanId w 65535 w.nextId, idAllocs := w.idAllocs + 1 } : World).proto p).window := hfull
  simp only [this, ↓reduceIte]; rfl

/-- **SUBACK / UNSUBACK bearing the identifier of a pending request**: that request's Deferred succeeds with the value the
    acknowledgement carries (granted QoS list / identifier); timer cancelled; entry removed -/
theorem ack_effect {w : World} (h : WInv w) (p : Nat) (ppr : Proto) (hpp : w.protos.get? p = some ppr)
    (hlive : ppr.lost = false) (hconn : ppr.state = .connected) (isSub : Bool) (m rid : Nat) (v : Val)
    (hl : Ents.lookup w.ents ppr.addr (if isSub then .sub else .unsub) m = some rid) :
    ∃ t d, (w.req rid).alarm = some t ∧ (w.req rid).dfd = some d ∧ d ∉ w.fired ∧ (w.req rid).msgId = m ∧
      handleSubUnsubAck p isSub m v w =
        (fireD (dropArmed w ⟨ppr.addr, if isSub then .sub else .unsub, m, rid⟩ t) d (.fired d (.ok v)), none) :=
  handleSubUnsubAck_effect h p ppr hpp hlive hconn isSub m rid v hl

/-- acknowledgements bearing other identifiers have no effect -/
theorem other_identifier (p : Nat) (isSub : Bool) (m : Nat) (v : Val) (w : World)
    (h : Ents.lookup w.ents (w.paddr p) (if isSub then .sub else .unsub) m = none) :
    handleSubUnsubAck p isSub m v w = (w, none) := handleSubUnsubAck_unknown p isSub m v w h

/-- a SUBSCRIBE/UNSUBSCRIBE request exists only with a running retry timer: it never outlives its connection
    (clause `subArmed`; connection loss fails them all, `connectionLost_inv`) -/
theorem request_is_armed {w : World} (h : WInv w) (e : Ent) (he : e ∈ w.ents) (hb : e.box = .sub ∨ e.box = .unsub) :
    (w.req e.rid).alarm ≠ none := by
  intro ha
  obtain ⟨q, _, hx, _⟩ := h.subArmed e he hb ha
  cases hx

theorem at_most_once (profile : Nat) (ops : List Op) : (firedIds (run (World.init profile) ops).log).Nodup :=
  fires_at_most_once profile ops

end Mqtt.C07
