import MqttVerif.Proofs.More
/-
  C18 — Each connection's output is a well-formed client packet stream led by CONNECT.
  (That each packet written is byte-for-byte well formed is C02; here: who may write, when, and to which transport.)
-/
namespace Mqtt.C18
open Mqtt

/-- an accepted connect() writes exactly one packet, the CONNECT -/
theorem connect_writes_connect (w : World) (p : Nat) (a : ConnectArgs) (ppr : Proto) (hpp : w.protos.get? p = some ppr)
    (ha : allowed w p 0 = true) (hck : checkConnect a = true) (pdu : Bytes) (henc : a.toF.encode = .ok pdu) :
    apiConnect p a w =
      (connStartW w p { ppr with cleanStart := a.cleanStart, version := verOf a.version, state := .connecting, connReq := some w.nextCR }
        (w.now + ticks (if a.keepalive.toNat = 0 then 10 else (a.keepalive.toNat : Rat))) a.keepalive.toNat
        ((w.log ++ [.write p pdu]) ++ [.retPending w.nextDfd none]), none) := connect_effect w p a ppr hpp ha hck pdu henc

/-- connect() is honoured on an idle protocol only: no second CONNECT while connecting or connected -/
theorem connect_refused_unless_idle (w : World) (p : Nat) (a : ConnectArgs) (h : allowed w p 0 = false) :
    apiConnect p a w = (C14.refusedWith w (.retFail .state), none) := C14.connect_refused w p a h

/-- before connect(): publish/subscribe/unsubscribe/disconnect on an idle protocol write nothing (C14) -/
theorem idle_publish_silent (w : World) (p : Nat) (t : PyStr) (pl : Payload) (q : Int) (r : Bool) (h : allowed w p 4 = false) :
    apiPublish p t pl q r w = (C14.refusedWith w (.retFail .state), none) := C14.publish_refused w p t pl q r h
theorem idle_disconnect_silent (w : World) (p : Nat) (h : allowed w p 1 = false) : apiDisconnect p w = (w, some .state) :=
  C14.disconnect_refused w p h

/-- an API call on `p` writes to `p`'s transport only -/
theorem api_writes_own_transport (op : Op) (p : Nat)
    (hop : (∃ a, op = .connect p a) ∨ op = .disconnect p ∨ (∃ t pl q r, op = .publish p t pl q r) ∨ (∃ a q, op = .subscribe p a q) ∨
      (∃ a, op = .unsubscribe p a) ∨ (∃ n, op = .setwin p n) ∨ (∃ n, op = .settimeout p n) ∨ (∃ b f, op = .setbw p b f) ∨
      (∃ m, op = .sethandlers p m)) :
    Emits ⟨(· == p), fun _ => false, false⟩ op.handler := api_confined op p hop

/-- bytes received on `p` make the client write to `p`'s transport only -/
theorem recv_writes_own_transport (p : Nat) (d : Bytes) : Emits ⟨(· == p), (· == p), true⟩ (dataReceived p d) := recv_confined p d

/-- **nothing at all is written once the connection has been reported lost** -/
theorem nothing_after_loss {w : World} (h : WInv w) (op : Op) (henv : Env w op) (p : Nat) (pr : Proto)
    (hp : w.protos.get? p = some pr) (hl : pr.lost = true) :
    EmitsAt ⟨(· != p), fun _ => true, true⟩ op.handler w := no_write_after_lost h op henv p pr hp hl
theorem loss_itself_silent (p : Nat) (r : Err) : Emits ⟨fun _ => false, fun _ => false, false⟩ (connectionLost p r) := lost_silent p r

/-- a retransmission goes to the transport of a protocol whose loss has not been reported (clause `retryLive`) -/
theorem retransmissions_on_live_transport {w : World} (h : WInv w) (t p rid : Nat) (hp : Pending w t (.retry p rid)) :
    ∃ pr, w.protos.get? p = some pr ∧ pr.lost = false := h.retryLive t p rid hp

end Mqtt.C18
