import MqttVerif.Proofs.Rearm
import MqttVerif.Proofs.EnvOk
import MqttVerif.Props.C19b
/-
  C08 ("nothing is repeated except on expiry or resumption") and C09 ("never written again"), over histories, read off the table of
  DelayedCalls: every transmission of a request with an identifier creates a retry timer `.retry p rid` (C08.transmission_arms), the
  table only grows, so the retry timers an operation adds are the requests it transmits.
-/
namespace Mqtt.C08

theorem tf_init (profile : Nat) : TF (World.init profile) := fun t tm h => by simp [World.init, Dict.get?] at h
theorem run_tf (ops : List Op) : ∀ w, TF w → TF (run w ops) := by
  induction ops with
  | nil => intro w h; exact h
  | cons op r ih => intro w h; exact ih _ (step_timers_keep w h op).tf

/-- a DelayedCall below the counter was not created later: it was there all along, with the same callback -/
theorem run_back (ops : List Op) : ∀ (w : World), TF w → ∀ t tm, t < w.nextTimer → (run w ops).timers.get? t = some tm →
    ∃ tm0, w.timers.get? t = some tm0 ∧ tm0.kind = tm.kind := by
  induction ops with
  | nil => intro w _ t tm _ ht; exact ⟨tm, ht, rfl⟩
  | cons op r ih =>
    intro w h t tm hlt ht
    have ra := ra_step w h op
    obtain ⟨tm1, h1, k1⟩ := ih (step w op) ra.keep.tf t tm (Nat.lt_of_lt_of_le hlt ra.nt) ht
    obtain ⟨tm0, h0, k0⟩ := ra.back t tm1 hlt h1
    exact ⟨tm0, h0, k0.trans k1⟩

theorem expiring_some {w : World} {op : Op} {rid : Nat} (h : op.expiring w = some rid) :
    ∃ t q, op = .fire t ∧ Pending w t (.retry q rid) := by
  cases op <;> simp only [Op.expiring] at h <;> try cases h
  rename_i t
  split at h
  · rename_i tm ht
    split at h
    · rename_i q r hk
      split at h
      · rename_i hp
        injection h with h; subst h
        exact ⟨t, q, rfl, tm, ht, hp, hk⟩
      · cases h
    · cases h
  · cases h

/-- **re-arming needs a reason** (any history, no assumption on the environment): a retry timer that an operation adds is for a request
    that was created during the operation, or was waiting on the queue when it started (first transmissions); or that the factory held
    without a timer while received bytes are processed (resumption after CONNACK); or whose own pending retry timer the operation runs
    (expiry) -/
theorem rearm_needs_reason (profile : Nat) (ops : List Op) (op : Op) (t : Nat) (tm : Timer) (q rid : Nat)
    (hnew : (run (World.init profile) ops).nextTimer ≤ t) (ht : (step (run (World.init profile) ops) op).timers.get? t = some tm)
    (hk : tm.kind = .retry q rid) :
    (run (World.init profile) ops).nextReq ≤ rid ∨ queuedIn (run (World.init profile) ops) rid ∨
    (op.isRecv ∧ ((run (World.init profile) ops).req rid).alarm = none ∧ hasEnt (run (World.init profile) ops) rid) ∨
    (∃ t0 q0, op = .fire t0 ∧ Pending (run (World.init profile) ops) t0 (.retry q0 rid)) := by
  have := (ra_step _ (run_tf ops _ (tf_init profile)) op).new t tm hnew ht q rid hk
  rcases this with h | h | h | h
  · exact Or.inl h
  · exact Or.inr (Or.inl h)
  · exact Or.inr (Or.inr (Or.inl h))
  · exact Or.inr (Or.inr (Or.inr (expiring_some h)))

/-- no timer is ever re-programmed and none appears below the counter: the retry timers of a state are a history -/
theorem retry_timers_are_a_history (profile : Nat) (ops : List Op) (op : Op) (t : Nat) (tm : Timer)
    (ht : (run (World.init profile) ops).timers.get? t = some tm) :
    ∃ tm', (step (run (World.init profile) ops) op).timers.get? t = some tm' ∧ tm'.due = tm.due ∧ tm'.kind = tm.kind :=
  (ra_step _ (run_tf ops _ (tf_init profile)) op).keep.keep t tm ht

/-- **an armed request is re-armed by the expiry of its own timer only**: a request that is in flight (held, not queued) with a timer
    gets a new retry timer only from the operation that runs that request's pending retry timer -/
theorem armed_rearmed_only_on_expiry (profile : Nat) (ops : List Op) (op : Op) (t : Nat) (tm : Timer) (q rid : Nat)
    (hold : rid < (run (World.init profile) ops).nextReq) (hnq : ¬ queuedIn (run (World.init profile) ops) rid)
    (harm : ((run (World.init profile) ops).req rid).alarm ≠ none)
    (hnew : (run (World.init profile) ops).nextTimer ≤ t) (ht : (step (run (World.init profile) ops) op).timers.get? t = some tm)
    (hk : tm.kind = .retry q rid) :
    ∃ t0 q0, op = .fire t0 ∧ Pending (run (World.init profile) ops) t0 (.retry q0 rid) := by
  rcases rearm_needs_reason profile ops op t tm q rid hnew ht hk with h | h | h | h
  · omega
  · exact absurd h hnq
  · exact absurd h.2.1 harm
  · exact h

/-- an API call, a keepalive or handshake timer, a loss report: anything that neither processes received bytes nor runs a retry timer
    transmits requests for the first time only -/
theorem first_transmissions_only (profile : Nat) (ops : List Op) (op : Op) (hr : ¬ op.isRecv)
    (hf : ∀ t0 q0 r0, op = .fire t0 → ¬ Pending (run (World.init profile) ops) t0 (.retry q0 r0))
    (t : Nat) (tm : Timer) (q rid : Nat)
    (hnew : (run (World.init profile) ops).nextTimer ≤ t) (ht : (step (run (World.init profile) ops) op).timers.get? t = some tm)
    (hk : tm.kind = .retry q rid) :
    (run (World.init profile) ops).nextReq ≤ rid ∨ queuedIn (run (World.init profile) ops) rid := by
  rcases rearm_needs_reason profile ops op t tm q rid hnew ht hk with h | h | h | ⟨t0, q0, h1, h2⟩
  · exact Or.inl h
  · exact Or.inr h
  · exact absurd h.1 hr
  · exact absurd h2 (hf t0 q0 rid h1)

/-- each call of a retransmission helper on a request with an identifier adds one pending retry timer for that request, numbered
    by the counter (so the timers counted above are the transmissions) -/
theorem publish_transmission_arms (p rid : Nat) (dup : Bool) (w : World) (hm : (w.req rid).msgId ≠ 0) :
    ∃ due, (retryPublishW p rid dup w).timers = w.timers.set w.nextTimer ⟨due, .retry p rid, .pending⟩ ∧
      (retryPublishW p rid dup w).nextTimer = w.nextTimer + 1 := by
  simp only [retryPublishW, req_setReq, ↓reduceIte, ne_eq, hm, not_false_eq_true]
  exact ⟨_, rfl, rfl⟩
theorem release_transmission_arms (p rid : Nat) (dup : Bool) (w : World) :
    ∃ due, (retryReleaseW p rid dup w).timers = w.timers.set w.nextTimer ⟨due, .retry p rid, .pending⟩ ∧
      (retryReleaseW p rid dup w).nextTimer = w.nextTimer + 1 := by
  simp only [retryReleaseW]
  split <;> exact ⟨_, rfl, rfl⟩
theorem subunsub_transmission_arms (p rid : Nat) (dup s : Bool) (w : World) :
    ∃ due, (retrySubUnsubW p rid dup s w).timers = w.timers.set w.nextTimer ⟨due, .retry p rid, .pending⟩ ∧
      (retrySubUnsubW p rid dup s w).nextTimer = w.nextTimer + 1 := by
  simp only [retrySubUnsubW]
  split <;> exact ⟨_, rfl, rfl⟩

/-- not vacuous: in the demonstration history of C19b request 0 (QoS 1, in flight, timer 4) is re-armed with timer 5 when timer 4 runs ... -/
example : (run (World.init 3) C19.twoUp).nextTimer = 5 ∧ ¬ queuedIn (run (World.init 3) C19.twoUp) 0
    ∧ ((run (World.init 3) C19.twoUp).req 0).alarm = some 4
    ∧ ((step (run (World.init 3) C19.twoUp) (.fire 4)).timers.get? 5).map (fun t => (t.kind, t.status)) = some (.retry 0 0, .pending) := by decide +kernel
/-- ... and an API call in between adds a retry timer only for what it creates (here request 2, a SUBSCRIBE) -/
example : (run (World.init 3) C19.twoUp).nextReq = 2
    ∧ ((step (run (World.init 3) C19.twoUp) (.subscribe 0 (.str "t") 1)).timers.get? 5).map (fun t => (t.kind, t.status)) = some (.retry 0 2, .pending) := by decide +kernel

end Mqtt.C08

namespace Mqtt.C09

/-- request `rid` was created and no container of the factory holds it any more: acknowledged, failed, or dropped -/
def Gone (w : World) (rid : Nat) : Prop := rid < w.nextReq ∧ ¬ hasEnt w rid

/-- one operation: a request that is gone stays gone and gets no retry timer -/
theorem gone_step {w : World} (hw : WInv w) {rid : Nat} (hg : Gone w rid) (op : Op) :
    Gone (step w op) rid ∧ ∀ t tm q, w.nextTimer ≤ t → (step w op).timers.get? t = some tm → tm.kind ≠ .retry q rid := by
  have ra := ra_step w hw.timerFresh op
  refine ⟨⟨Nat.lt_of_lt_of_le hg.1 ra.nr, fun ⟨e, he, hr⟩ => hg.2 ?_⟩, fun t tm q hle ht hk => ?_⟩
  · have := ra.old e he (by rw [hr]; exact hg.1)
    rw [hr] at this; exact this
  · rcases ra.new t tm hle ht q rid hk with h | ⟨e, he, _, hr⟩ | ⟨_, _, h⟩ | h
    · exact absurd hg.1 (by omega)
    · exact hg.2 ⟨e, he, hr⟩
    · exact hg.2 h
    · obtain ⟨t0, q0, _, hp⟩ := C08.expiring_some h
      obtain ⟨e, he, hr, _⟩ := hw.noStale t0 q0 rid hp
      exact hg.2 ⟨e, he, hr⟩

/-- **never written again**: once a request has left the factory's containers, no operation of any continuation creates a retry timer
    for it -- it is never transmitted again, whatever the broker sends, whichever timers run, however often the connection is lost and
    made again -/
theorem gone_never_retransmitted : ∀ (ops : List Op) (w : World), WInv w → EnvRun w ops → ∀ rid, Gone w rid →
    Gone (run w ops) rid ∧ ∀ t tm q, w.nextTimer ≤ t → (run w ops).timers.get? t = some tm → tm.kind ≠ .retry q rid := by
  intro ops
  induction ops with
  | nil =>
    intro w hw _ rid hg
    exact ⟨hg, fun t tm q hle ht => absurd (hw.timerFresh t tm ht) (by omega)⟩
  | cons op r ih =>
    intro w hw henv rid hg
    obtain ⟨g1, n1⟩ := gone_step hw hg op
    have hw1 := step_inv hw op henv.1
    obtain ⟨g2, n2⟩ := ih (step w op) hw1 henv.2 rid g1
    refine ⟨g2, fun t tm q hle ht hk => ?_⟩
    have ra := ra_step w hw.timerFresh op
    by_cases hlt : t < (step w op).nextTimer
    · -- the timer existed after the first operation: it was created by it, or before
      obtain ⟨tm1, h1, k1⟩ : ∃ tm1, (step w op).timers.get? t = some tm1 ∧ tm1.kind = tm.kind := by
        exact C08.run_back r (step w op) hw1.timerFresh t tm hlt ht
      exact n1 t tm1 q hle h1 (k1.trans hk)
    · exact n2 t tm q (by omega) ht hk

instance (w : World) (rid : Nat) : Decidable (Gone w rid) := by unfold Gone; infer_instance
/-- not vacuous: the PUBACK for identifier 1 makes request 0 of the demonstration history gone (and launches the queued request 1) -/
example : ¬ Gone (run (World.init 3) C19.twoUp) 0 ∧ Gone (run (World.init 3) (C19.twoUp ++ [.recv 0 [0x40, 2, 0, 1]])) 0
    ∧ ¬ Gone (run (World.init 3) (C19.twoUp ++ [.recv 0 [0x40, 2, 0, 1]])) 1 := by decide +kernel

/-- and the hypotheses of `gone_never_retransmitted` are met there: whatever follows -- here the other address's traffic, a retry
    timer of address 0, a loss and a reconnection with the session kept -- adds no retry timer for request 0 -/
def afterAck : List Op := C19.onOne ++ [.fire 5, .lost 0 .connLost, .build 0, .connect 3 (cargs 0 false), .recv 3 [0x20, 2, 1, 0]]
theorem afterAck_env : EnvRun (World.init 3) (C19.twoUp ++ [.recv 0 [0x40, 2, 0, 1]] ++ afterAck) := envRunOk_sound _ _ (by decide +kernel)
example : ∀ t tm q, (run (World.init 3) (C19.twoUp ++ [.recv 0 [0x40, 2, 0, 1]])).nextTimer ≤ t →
    (run (World.init 3) (C19.twoUp ++ [.recv 0 [0x40, 2, 0, 1]] ++ afterAck)).timers.get? t = some tm → tm.kind ≠ .retry q 0 := by
  have hsplit : ∀ (l1 l2 : List Op) (w : World), EnvRun w (l1 ++ l2) → EnvRun w l1 ∧ EnvRun (run w l1) l2 := by
    intro l1
    induction l1 with
    | nil => intro l2 w h; exact ⟨trivial, h⟩
    | cons op r ih => intro l2 w h; exact ⟨⟨h.1, (ih l2 _ h.2).1⟩, (ih l2 _ h.2).2⟩
  obtain ⟨e1, e2⟩ := hsplit _ _ _ afterAck_env
  have hw := reachable_inv 3 (Or.inr (Or.inr rfl)) _ e1
  have := (gone_never_retransmitted afterAck _ hw e2 0 (by decide +kernel)).2
  intro t tm q hle ht
  refine this t tm q hle ?_
  rw [← ht]
  show (List.foldl step (List.foldl step _ _) _).timers.get? t = (List.foldl step _ _).timers.get? t
  rw [← List.foldl_append]

end Mqtt.C09
