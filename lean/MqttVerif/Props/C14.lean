import MqttVerif.Model.Step
import MqttVerif.Props.ConfigOk
/-
  C14 — Operations are honoured only in the states and profiles that allow them.
  The model dispatches through `Config.dispatchTable`, regenerated from the state classes of the
  current source; `ConfigOk.dispatch_ok` proves it equal to the table the property prescribes.
-/
namespace Mqtt.C14
open Mqtt

/-- the model's dispatch is the prescribed table, for every profile, state and operation -/
theorem allowed_eq_honoured (w : World) (p op : Nat) (hp : w.profile = 1 ∨ w.profile = 2 ∨ w.profile = 3) (hop : op < 15) :
    allowed w p op = Spec.honoured w.profile (stateIdx (w.proto p).state) op := by
  unfold allowed
  rw [ConfigOk.dispatch_ok]
  have key : ∀ prof st o, (prof = 1 ∨ prof = 2 ∨ prof = 3) → st < 3 → o < 15 →
      (((Spec.dispatchTable.getD (prof - 1) []).getD st []).getD o false) = Spec.honoured prof st o := by
    intro prof st o hprof hst ho
    rcases hprof with rfl | rfl | rfl <;>
      (have : st = 0 ∨ st = 1 ∨ st = 2 := by omega) <;>
      rcases this with rfl | rfl | rfl <;>
      (have : o = 0 ∨ o = 1 ∨ o = 2 ∨ o = 3 ∨ o = 4 ∨ o = 5 ∨ o = 6 ∨ o = 7 ∨ o = 8 ∨ o = 9 ∨ o = 10 ∨ o = 11 ∨ o = 12 ∨ o = 13 ∨ o = 14 := by omega) <;>
      rcases this with rfl | rfl | rfl | rfl | rfl | rfl | rfl | rfl | rfl | rfl | rfl | rfl | rfl | rfl | rfl <;> decide
  exact key _ _ _ hp (by cases (w.proto p).state <;> decide) hop

/-- the observation appended by a refused call, and nothing else -/
def refusedWith (w : World) (o : Obs) : World := { w with log := w.log ++ [o] }

/-- connect() where it is not allowed: a Deferred failed with MQTTStateError; nothing written, no
    timer, no state change -/
theorem connect_refused (w : World) (p : Nat) (a : ConnectArgs) (h : allowed w p 0 = false) :
    apiConnect p a w = (refusedWith w (.retFail .state), none) := by
  simp [apiConnect, Step.read, h, emit, World.emit, Step.mod, refusedWith]

theorem publish_refused (w : World) (p : Nat) (t : PyStr) (pl : Payload) (q : Int) (r : Bool)
    (h : allowed w p 4 = false) :
    apiPublish p t pl q r w = (refusedWith w (.retFail .state), none) := by
  simp [apiPublish, Step.read, h, emit, World.emit, Step.mod, refusedWith]

theorem subscribe_refused (w : World) (p : Nat) (a : SubArg) (q : Int) (h : allowed w p 2 = false) :
    apiSubscribe p a q w = (refusedWith w (.retFail .state), none) := by
  simp [apiSubscribe, Step.read, h, emit, World.emit, Step.mod, refusedWith]

theorem unsubscribe_refused (w : World) (p : Nat) (a : UnsubArg) (h : allowed w p 3 = false) :
    apiUnsubscribe p a w = (refusedWith w (.retFail .state), none) := by
  simp [apiUnsubscribe, Step.read, h, emit, World.emit, Step.mod, refusedWith]

/-- disconnect() where it is not allowed raises MQTTStateError and changes nothing at all -/
theorem disconnect_refused (w : World) (p : Nat) (h : allowed w p 1 = false) :
    apiDisconnect p w = (w, some .state) := by
  simp [apiDisconnect, Step.read, h, Step.raise]

/-- and the step function records exactly that -/
theorem step_disconnect_refused (w : World) (p : Nat) (h : allowed w p 1 = false) :
    step w (.disconnect p) = refusedWith w (.raised .state) := by
  simp [step, Op.handler, disconnect_refused w p h, Op.isReactor, refusedWith]

/-- the operation number of the state method that handles a packet type (type nibble) -/
def opOfType : Nat → Option Nat
  | 2 => some 6 | 13 => some 7 | 9 => some 8 | 11 => some 9 | 3 => some 10 | 4 => some 11
  | 5 => some 12 | 6 => some 13 | 7 => some 14 | _ => none

/-- a broker packet that does not belong to the current state or profile is ignored without any
    effect: `_processPacket` leaves the world untouched (whatever the packet decodes to; a packet that
    does not decode aborts the connection instead, which is C16's subject) -/
theorem packet_ignored (w : World) (p : Nat) (h0 : Nat) (rest : Bytes) (op : Nat)
    (hop : opOfType ((h0 &&& 0xF0) >>> 4) = some op) (hna : allowed w p op = false) :
    processPacket p (h0 :: rest) w = (w, none) ∨ processPacket p (h0 :: rest) w = abort p w := by
  have hk : Config.knownTypes.getD ((h0 &&& 0xF0) >>> 4) false = true ∧
            Config.handledTypes.getD ((h0 &&& 0xF0) >>> 4) false = true := by
    generalize (h0 &&& 0xF0) >>> 4 = t at hop
    unfold opOfType at hop
    split at hop <;> first | (constructor <;> decide) | simp at hop
  unfold processPacket
  simp only [hk.1, hk.2, Bool.not_true, Bool.false_eq_true, ↓reduceIte, Step.read]
  generalize (h0 &&& 0xF0) >>> 4 = t at hop ⊢
  unfold opOfType at hop
  split at hop <;> simp at hop <;> subst hop <;> simp only [hna, Bool.false_eq_true, ↓reduceIte] <;>
    (first
      | (left; rfl)
      | (cases ConnackF.decode (h0 :: rest) <;> first | (left; rfl) | (right; rfl))
      | (cases SubackF.decode (h0 :: rest) <;> first | (left; rfl) | (right; rfl))
      | (cases decodeAck (h0 :: rest) <;> first | (left; rfl) | (right; rfl))
      | (cases PublishD.decode (h0 :: rest) <;> first | (left; rfl) | (right; rfl))
      | (cases hd : decodePUBREL (h0 :: rest) with
         | error e => right; rfl
         | ok md => obtain ⟨m, d⟩ := md; left; rfl))

/-! Non-vacuity: a publisher-only protocol that is connected refuses subscribe(); a subscriber ignores PUBACK. -/
example : Spec.honoured 2 2 2 = false ∧ Spec.honoured 1 2 11 = false ∧ Spec.honoured 3 1 4 = true ∧
    Spec.honoured 1 1 4 = false := by decide

end Mqtt.C14
