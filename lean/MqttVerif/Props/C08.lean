import MqttVerif.Model.Step
import Mathlib.Tactic.Linarith
import Mathlib.Tactic.Positivity
import Mathlib.Tactic.Ring
/-
  C08 — retransmission: the arithmetic of the retry schedule (interval.py) and of the timers that
  `_retryPublish/_retryRelease/_retrySubscribe/_retryUnsubscribe` arm.
  The history-level clauses (a retransmission on every expiry, DUP, same content, nothing repeated
  otherwise) are decided by the monitor on the real code and by the correspondence with the model.
-/
namespace Mqtt.C08
open Mqtt

/-! ### the virtual reactor's clock grid -/

theorem tickRate_pos : (0 : Rat) < (tickRate : Rat) := by unfold tickRate; norm_num

theorem ticks_mono (a b : Rat) (h : a ≤ b) : ticks a ≤ ticks b := by
  unfold ticks
  have h1 : a * (tickRate : Rat) + 1 / 2 ≤ b * (tickRate : Rat) + 1 / 2 := by
    have := tickRate_pos
    nlinarith
  exact Int.toNat_le_toNat (Rat.floor_monotone h1)

theorem floor_eq_of (x : Rat) (m : Int) (h1 : (m : Rat) ≤ x) (h2 : x < ((m + 1 : Int) : Rat)) : x.floor = m := by
  have a : m ≤ x.floor := Rat.le_floor_iff.mpr h1
  have b : x.floor < m + 1 := Rat.floor_lt_iff.mpr h2
  omega

/-- whole seconds are exact on the grid -/
theorem ticks_nat (n : Nat) : ticks (n : Rat) = n * tickRate := by
  unfold ticks
  have : ((n : Rat) * (tickRate : Rat) + 1 / 2).floor = ((n * tickRate : Nat) : Int) := by
    apply floor_eq_of
    · push_cast; linarith
    · push_cast; linarith
  rw [this]; exact Int.toNat_natCast _

/-- a delay of at least `n` whole seconds is at least `n` seconds on the grid -/
theorem ticks_ge (n : Nat) (d : Rat) (h : (n : Rat) ≤ d) : n * tickRate ≤ ticks d := by
  rw [← ticks_nat]; exact ticks_mono _ _ h

/-! ### Interval (SUBSCRIBE, UNSUBSCRIBE, PUBREL): doubling, capped -/

/-- Interval.__call__ on the stored value -/
def ivNext (initial v : Nat) : Nat := min (v * Config.intervalFactor) (max initial Config.intervalMaxDelay)

/-- every delay is at least the initial timeout the request was created with -/
theorem interval_ge_initial (initial v : Nat) (h : initial ≤ v) : initial ≤ ivNext initial v := by
  unfold ivNext
  have : 2 ≤ Config.intervalFactor := by decide
  have : v ≤ v * Config.intervalFactor := Nat.le_mul_of_pos_right v (by omega)
  omega

/-- and the delays never decrease (the value stays under its cap) -/
theorem interval_mono (initial v : Nat) (h : v ≤ max initial Config.intervalMaxDelay) : v ≤ ivNext initial v := by
  unfold ivNext
  have : 2 ≤ Config.intervalFactor := by decide
  have : v ≤ v * Config.intervalFactor := Nat.le_mul_of_pos_right v (by omega)
  omega

theorem interval_capped (initial v : Nat) : ivNext initial v ≤ max initial Config.intervalMaxDelay := by
  unfold ivNext; omega

/-! ### IntervalLinear (PUBLISH): initial + k * size / bandwith, k multiplied by `factor` each time -/

/-- the delay net of jitter -/
def linDelay (initial : Nat) (k bw : Rat) (size : Nat) : Rat := (initial : Rat) + (k * size) / bw

theorem linear_ge_initial (initial size : Nat) (k bw : Rat) (hk : 0 ≤ k) (hb : 0 < bw) :
    (initial : Rat) ≤ linDelay initial k bw size := by
  unfold linDelay
  have : 0 ≤ (k * size) / bw := by positivity
  linarith

/-- with factor >= 1 the gaps of a PUBLISH (net of jitter) do not shrink from one retry to the next -/
theorem linear_mono (initial size : Nat) (k bw f : Rat) (hk : 0 ≤ k) (hb : 0 < bw) (hf : 1 ≤ f) :
    linDelay initial k bw size ≤ linDelay initial (k * f) bw size := by
  unfold linDelay
  have h1 : k * size ≤ k * f * size := by
    have hs : (0 : Rat) ≤ (size : Rat) := by positivity
    have hks : 0 ≤ k * (size : Rat) := mul_nonneg hk hs
    have : k * f * size = (k * size) * f := by ring
    rw [this]
    nlinarith
  have : (k * size) / bw ≤ (k * f * size) / bw := div_le_div_of_nonneg_right h1 hb.le
  linarith

/-- k stays non-negative (it starts at 1 and is multiplied by a positive factor) -/
theorem k_nonneg (k f : Rat) (hk : 0 ≤ k) (hf : 0 < f) : 0 ≤ k * f := by positivity

/-- KNOWN FINDING KF-3 (F-11): `setBandwith` accepts 0 < factor < 1 (every positive value, as C20 demands), and
    then the gaps DO shrink: the full statement "for a PUBLISH the gaps do not shrink" is false of the code. -/
theorem linear_shrinks_counterexample :
    ¬ (linDelay 4 1 1 20 ≤ linDelay 4 (1 * (1 / 2)) 1 20) := by
  unfold linDelay; norm_num

/-! ### the timers armed by the retransmission helpers -/

/-- the timer `_retryPublish` arms is due no earlier than the request's initial timeout after now -/
theorem publish_timer_spacing (r : Req) (now : Nat) (jitter : Rat) (size : Nat)
    (hk : 0 ≤ r.ivK) (hb : 0 < r.bandwith) (hj : 0 ≤ jitter) :
    now + r.initial * tickRate ≤ now + ticks ((r.initial : Rat) + (r.ivK * size) / r.bandwith + jitter) := by
  have h := linear_ge_initial r.initial size r.ivK r.bandwith hk hb
  unfold linDelay at h
  have := ticks_ge r.initial ((r.initial : Rat) + (r.ivK * size) / r.bandwith + jitter) (by linarith)
  omega

/-- the timer `_retryRelease/_retrySubscribe/_retryUnsubscribe` arms: at least the initial timeout -/
theorem interval_timer_spacing (r : Req) (now : Nat) (jitter extra : Rat) (hi : r.initial ≤ r.ivValue)
    (hj : 0 ≤ jitter) (he : 0 ≤ extra) :
    now + r.initial * tickRate ≤ now + ticks (((ivNext r.initial r.ivValue : Nat) : Rat) + jitter + extra) := by
  have h := interval_ge_initial r.initial r.ivValue hi
  have h' : (r.initial : Rat) ≤ ((ivNext r.initial r.ivValue : Nat) : Rat) + jitter + extra := by
    have : (r.initial : Rat) ≤ ((ivNext r.initial r.ivValue : Nat) : Rat) := by exact_mod_cast h
    linarith
  have := ticks_ge r.initial _ h'
  omega

/-! Non-vacuity -/
example : ivNext 4 4 = 8 ∧ ivNext 4 512 = 1024 ∧ ivNext 4 1024 = 1024 ∧ ivNext 2000 2000 = 2000 := by decide
example : ticks (4 + 1 / 2 : Rat) = 4718592 := by
  have : ((4 + 1 / 2 : Rat) * (tickRate : Rat) + 1 / 2).floor = 4718592 := by
    apply floor_eq_of <;> (unfold tickRate; norm_num)
  unfold ticks; rw [this]; rfl

end Mqtt.C08
