import MqttVerif.Proofs.Local
/-
  C16 — Malformed or unexpected input is contained: no crash, no unjustified effect.

  Model: Model/Handlers.lean (`dataReceived`, `processPacket`, the `handleXXX` functions, `runTimer`),
  transcribed from base.py / pubsubs.py including the exceptions the Twisted primitives raise
  (AlreadyCalled/AlreadyCancelled, AlreadyCalledError, AttributeError on `None`, IndexError).
  An escaping exception is an `Option Err` result `some e` of the handler.
-/
namespace Mqtt.C16
open Mqtt

/-- **No exception escapes** from dataReceived, connectionLost or a timer callback, in any state satisfying the
    session invariant, whatever bytes arrive (any `Bytes`, any chunking), under the environment assumptions `Env`
    (bytes are bytes; nothing is received after the loss was reported; connectionLost once per protocol). -/
theorem no_escape {w : World} (h : WInv w) (op : Op) (henv : Env w op) (hr : op.isReactor = true) :
    (op.handler w).2 = none := Mqtt.no_escape h op henv hr

/-- ... and the invariant this rests on holds in every state reachable from a fresh factory -/
theorem reachable (profile : Nat) (hp : profile = 1 ∨ profile = 2 ∨ profile = 3) (ops : List Op)
    (henv : EnvRun (World.init profile) ops) : WInv (run (World.init profile) ops) :=
  reachable_inv profile hp ops henv

/-- so: after any history, the next reactor-driven entry point lets no exception escape -/
theorem reachable_no_escape (profile : Nat) (hp : profile = 1 ∨ profile = 2 ∨ profile = 3) (ops : List Op) (op : Op)
    (henv : EnvRun (World.init profile) (ops ++ [op])) (hr : op.isReactor = true) :
    (op.handler (run (World.init profile) ops)).2 = none :=
  Mqtt.reachable_no_escape profile hp ops op henv hr

/-- **The strongest reaction is aborting the connection.** A packet its decoder rejects -- truncated, corrupt, invalid
    UTF-8 -- makes `_processPacket` abort the transport and do nothing else: the world is unchanged but for the
    `abort` observation (no onPublish call, no Deferred fired, no write, no timer). -/
theorem undecodable_aborts (p : Nat) (h0 : Nat) (rest : Bytes) (w : World)
    (h : Undecodable (h0 :: rest) ((h0 &&& 0xF0) >>> 4)) :
    processPacket p (h0 :: rest) w = (w.emit (.abort p), none) := processPacket_undecodable p h0 rest w h

/-- unknown (15) and broker-bound packet types (CONNECT, SUBSCRIBE, UNSUBSCRIBE, PINGREQ, DISCONNECT, 0): the same -/
theorem foreign_type_aborts (p : Nat) (h0 : Nat) (rest : Bytes) (w : World)
    (h : Config.knownTypes.getD ((h0 &&& 0xF0) >>> 4) false = false ∨ Config.handledTypes.getD ((h0 &&& 0xF0) >>> 4) false = false) :
    processPacket p (h0 :: rest) w = (w.emit (.abort p), none) := processPacket_unknown_type p h0 rest w h

/-- acknowledgements nobody asked for have no effect at all -/
theorem unknown_puback (p m : Nat) (w : World) (h : Ents.lookup w.ents (w.paddr p) .pub m = none) :
    handlePUBACK p m w = (w, none) := handlePUBACK_unknown p m w h
theorem unknown_pubrec (p m : Nat) (w : World) (h : Ents.lookup w.ents (w.paddr p) .pub m = none) :
    handlePUBREC p m w = (w, none) := handlePUBREC_unknown p m w h
theorem unknown_pubcomp (p m : Nat) (w : World) (h : Ents.lookup w.ents (w.paddr p) .rel m = none) :
    handlePUBCOMP p m w = (w, none) := handlePUBCOMP_unknown p m w h
theorem unknown_suback_unsuback (p : Nat) (isSub : Bool) (m : Nat) (v : Val) (w : World)
    (h : Ents.lookup w.ents (w.paddr p) (if isSub then .sub else .unsub) m = none) :
    handleSubUnsubAck p isSub m v w = (w, none) := handleSubUnsubAck_unknown p isSub m v w h
/-- an unsolicited PINGRESP has no effect at all -/
theorem unsolicited_pingresp (p : Nat) (w : World) (h : (w.proto p).pingAlarm = none) :
    handlePINGRESP p w = (w, none) := handlePINGRESP_unsolicited p w h

/-- no Deferred succeeds unless bytes from the broker are being processed -/
theorem success_needs_a_packet (op : Op) (hop : ∀ p d, op ≠ .recv p d) :
    Emits ⟨fun _ => true, fun _ => true, false⟩ op.handler := success_only_on_recv op hop

/-- reserved CONNACK return codes (6..255) are refusals like 1..5: the connect Deferred fails with MQTTStateError,
    nothing is raised (`handleCONNACK_inv` covers every `rc`) -/
theorem any_return_code {w : World} (h : WInv w) (p : Nat) (ppr : Proto) (hpp : w.protos.get? p = some ppr)
    (hnl : ppr.lost = false) (hs : ppr.state = .connecting) (session : Bool) (rc : Nat) :
    (handleCONNACK p session rc w).2 = none ∧ WInv (handleCONNACK p session rc w).1 :=
  handleCONNACK_inv h p ppr hpp hnl hs session rc

/-! Non-vacuity: the invariant and the environment assumptions are satisfiable with requests in flight -- a
    connected publisher/subscriber with a QoS 1 publish awaiting PUBACK receives garbage. -/
def demoOps : List Op :=
  [.build 0, .connect 0 { clientId := "c", keepalive := 0, version := .v311, cleanStart := true }, .recv 0 [0x20, 2, 0, 0],
   .publish 0 (.str "t") (.bytearray [65]) 1 false, .recv 0 [0xF0, 0], .recv 0 [0x40, 1], .lost 0 .connDone]

example : ((run (World.init 3) demoOps).log.filter fun o => match o with | .esc _ => true | _ => false) = [] := by decide +kernel

end Mqtt.C16
