import MqttVerif.Proofs.WindowPos
import MqttVerif.Props.C10
import MqttVerif.Proofs.Local
/-
  C10: the window in force is never smaller than one message (constructor default 1, `setWindowSize` accepts 1..16), for every protocol
  object after every history -- no invariant, no `Env`.  With `refill_leaves_no_room` this is the form of "no accepted message is left
  unsent while no QoS>0 exchange is outstanding" that holds right after every refill: no message held back, or a PUBLISH in flight.
-/
namespace Mqtt.C10

/-- after any history every protocol object has a window of at least one message -/
theorem window_at_least_one (profile : Nat) (ops : List Op) (p : Nat) : 1 ≤ ((run (World.init profile) ops).proto p).window :=
  wpos_run ops _ (wpos_init profile) p

/-- **nothing stranded by a refill**: after `_refillPublish` (run after every publish(), PUBACK, PUBCOMP and CONNACK) no message of the
    address is held back, or at least one PUBLISH of the address is awaiting its first acknowledgement -/
theorem refill_leaves_exchange (p : Nat) (dup : Bool) (fuel : Nat) (w : World) (hw : 1 ≤ (w.proto p).window)
    (hf : (Ents.items w.ents (w.paddr p) .queue).length ≤ fuel) :
    Ents.items (refillW p dup fuel w).ents (w.paddr p) .queue = [] ∨ 0 < Ents.count (refillW p dup fuel w).ents (w.paddr p) .pub := by
  rcases refill_leaves_no_room p dup fuel w hf with h | h
  · exact Or.inl h
  · exact Or.inr (by omega)

/-- **after a PUBACK for a message in flight**: the slot it frees is refilled at once -- afterwards no message of the address is held back,
    or a PUBLISH of the address is awaiting its first acknowledgement -/
theorem puback_refills {w : World} (h : WInv w) (p : Nat) (ppr : Proto) (hpp : w.protos.get? p = some ppr)
    (hlive : ppr.lost = false) (hconn : ppr.state = .connected) (hwin : 1 ≤ ppr.window) (m rid : Nat)
    (hl : Ents.lookup w.ents ppr.addr .pub m = some rid) (hq1 : (w.req rid).qos = 1) :
    Ents.items (handlePUBACK p m w).1.ents ppr.addr .queue = [] ∨ 0 < Ents.count (handlePUBACK p m w).1.ents ppr.addr .pub := by
  obtain ⟨t, d, _, _, _, _, he⟩ := handlePUBACK_effect h p ppr hpp hlive hconn m rid hl hq1
  rw [he]
  have hpa : ∀ w' : World, w'.protos = w.protos → w'.paddr p = ppr.addr ∧ (w'.proto p).window = ppr.window := fun w' hw' => by
    simp [World.paddr, World.proto, hw', hpp]
  obtain ⟨a1, a2⟩ := hpa (fireD (dropArmed w ⟨ppr.addr, .pub, m, rid⟩ t) d (.fired d (.ok (.int m)))) rfl
  have := refill_leaves_exchange p false (Ents.count (Ents.remove w.ents ppr.addr .pub m) ppr.addr .queue)
    (fireD (dropArmed w ⟨ppr.addr, .pub, m, rid⟩ t) d (.fired d (.ok (.int m)))) (by rw [a2]; exact hwin) (by rw [a1]; exact Nat.le_refl _)
  rw [a1] at this
  exact this

/-- the same after a PUBCOMP -/
theorem pubcomp_refills {w : World} (h : WInv w) (p : Nat) (ppr : Proto) (hpp : w.protos.get? p = some ppr)
    (hlive : ppr.lost = false) (hconn : ppr.state = .connected) (hwin : 1 ≤ ppr.window) (m rid : Nat)
    (hl : Ents.lookup w.ents ppr.addr .rel m = some rid) :
    Ents.items (handlePUBCOMP p m w).1.ents ppr.addr .queue = [] ∨ 0 < Ents.count (handlePUBCOMP p m w).1.ents ppr.addr .pub := by
  obtain ⟨t, d, _, _, _, _, he⟩ := handlePUBCOMP_effect h p ppr hpp hlive hconn m rid hl
  rw [he]
  have hpa : ∀ w' : World, w'.protos = w.protos → w'.paddr p = ppr.addr ∧ (w'.proto p).window = ppr.window := fun w' hw' => by
    simp [World.paddr, World.proto, hw', hpp]
  obtain ⟨a1, a2⟩ := hpa (fireD (dropArmed w ⟨ppr.addr, .rel, m, rid⟩ t) d (.fired d (.ok (.int m)))) rfl
  have := refill_leaves_exchange p false (Ents.count (Ents.remove w.ents ppr.addr .rel m) ppr.addr .queue)
    (fireD (dropArmed w ⟨ppr.addr, .rel, m, rid⟩ t) d (.fired d (.ok (.int m)))) (by rw [a2]; exact hwin) (by rw [a1]; exact Nat.le_refl _)
  rw [a1] at this
  exact this

theorem mk_refills (w : World) (p : Nat) (qn m : Nat) (d : Option Nat) (bs : Bytes) (o : Obs) (hw : 1 ≤ (w.proto p).window) :
    Ents.items ((mkStep p (w.proto p) qn m d bs ;; emit o) w).1.ents (w.paddr p) .queue = [] ∨
    0 < Ents.count ((mkStep p (w.proto p) qn m d bs ;; emit o) w).1.ents (w.paddr p) .pub := by
  simp only [mkStep, Step.read, Step.seq, Step.mod, setEnts, refill, emit]
  generalize hw2 : (World.setEnts _ _) = w2
  have hp : w2.protos = w.protos := by rw [← hw2]; rfl
  have h1 : w2.paddr p = w.paddr p := by simp only [World.paddr, World.proto, hp]
  have h2 : (w2.proto p).window = (w.proto p).window := by simp only [World.proto, hp]
  have := refill_leaves_exchange p false (Ents.count w2.ents (w2.paddr p) .queue) w2 (by rw [h2]; exact hw) (Nat.le_refl _)
  rw [h1] at this ⊢
  exact this

/-- **after publish()**: refused or rejected calls change no container; an accepted one ends with the refill, so afterwards no message of the
    address is held back, or a PUBLISH of the address is awaiting its first acknowledgement -/
theorem publish_refills (w : World) (p : Nat) (topic : PyStr) (payload : Payload) (qos : Int) (retain : Bool)
    (hw : 1 ≤ (w.proto p).window) :
    (apiPublish p topic payload qos retain w).1.ents = w.ents ∨
    Ents.items (apiPublish p topic payload qos retain w).1.ents (w.paddr p) .queue = [] ∨
    0 < Ents.count (apiPublish p topic payload qos retain w).1.ents (w.paddr p) .pub := by
  rw [apiPublish_eq]
  split
  · exact Or.inl rfl
  · split
    · exact Or.inl rfl
    · split
      · cases encodePublishPy topic payload 0 retain none with
        | error e => exact Or.inl rfl
        | ok bs => exact Or.inr (mk_refills w p _ _ _ _ _ hw)
      · -- an identifier is drawn first (the containers are not touched by that)
        simp only [makeId, Step.read, Step.seq, Step.mod]
        generalize hw1 : ({ w with nextId := scanId w 65535 w.nextId, idAllocs := w.idAllocs + 1 } : World) = w1
        have hp : w1.protos = w.protos := by rw [← hw1]
        have he : w1.ents = w.ents := by rw [← hw1]
        have h1 : w1.paddr p = w.paddr p := by simp only [World.paddr, World.proto, hp]
        have h2 : w1.proto p = w.proto p := by simp only [World.proto, hp]
        cases encodePublishPy topic payload qos.toNat retain (some ((scanId w 65535 w.nextId : Nat) : Int)) with
        | error e => exact Or.inl (by show (w1.emit _).ents = w.ents; exact he)
        | ok bs =>
          refine Or.inr ?_
          dsimp only
          rw [show ∀ (k : Nat → Step) (w : World), newDfd k w = k w.nextDfd { w with nextDfd := w.nextDfd + 1 } from fun _ _ => rfl]
          generalize hw1' : ({ w1 with nextDfd := w1.nextDfd + 1 } : World) = w1'
          have hp' : w1'.protos = w.protos := by rw [← hw1']; exact hp
          have h1' : w1'.paddr p = w.paddr p := by simp only [World.paddr, World.proto, hp']
          have h2' : w1'.proto p = w.proto p := by simp only [World.proto, hp']
          have := mk_refills w1' p qos.toNat (scanId w 65535 w.nextId) (some w1.nextDfd) bs
            (Obs.retPending w1.nextDfd (some (scanId w 65535 w.nextId))) (by rw [h2']; exact hw)
          rw [h1', h2'] at this
          exact this
end Mqtt.C10
