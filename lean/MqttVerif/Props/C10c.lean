import MqttVerif.Proofs.WindowPos
import MqttVerif.Props.C10
/-
  C10: the window in force is never smaller than one message (constructor default 1, `setWindowSize` accepts 1..16), for every protocol
  object after every history -- no invariant, no `Env`.  With `refill_leaves_no_room` this is the form of "no accepted message is left
  unsent while no QoS>0 exchange is outstanding" that holds right after every refill: no message held back, or a PUBLISH in flight.
-/
namespace Mqtt.C10

/-- after any history every protocol object has a window of at least one message -/
theorem window_at_least_one (profile : Nat) (ops : List Op) (p : Nat) : 1 ≤ ((run (World.init profile) ops).proto p).window :=
  wpos_run ops _ (wpos_init profile) p

/-- **nothing stranded by a refill**: after `_refillPublish` (run after every publish(), PUBACK, PUBCOMP and CONNACK) no message of the
    address is held back, or at least one PUBLISH of the address is awaiting its first acknowledgement -/
theorem refill_leaves_exchange (p : Nat) (dup : Bool) (fuel : Nat) (w : World) (hw : 1 ≤ (w.proto p).window)
    (hf : (Ents.items w.ents (w.paddr p) .queue).length ≤ fuel) :
    Ents.items (refillW p dup fuel w).ents (w.paddr p) .queue = [] ∨ 0 < Ents.count (refillW p dup fuel w).ents (w.paddr p) .pub := by
  rcases refill_leaves_no_room p dup fuel w hf with h | h
  · exact Or.inl h
  · exact Or.inr (by omega)

end Mqtt.C10
