import MqttVerif.Proofs.More
import MqttVerif.Props.C08
/-
  C08, session level — what happens when a retry timer expires: the request named by the timer is written again
  (same bytes but for the DUP bit of the first byte), re-armed, and nothing else is written.
-/
namespace Mqtt.C08
open Mqtt

/-- the schedule functions of the model are the ones whose arithmetic is proved in `Props/C08.lean` -/
theorem model_interval (r : Req) : ivNextValue r = ivNext r.initial r.ivValue := rfl
theorem model_linear (r : Req) (size : Nat) : linValue r size = linDelay r.initial r.ivK r.bandwith size := rfl

/-! ### same content: only the DUP bit of the first byte may change -/

theorem patchDup_tail (bs : Bytes) (dup : Bool) : (patchDup bs dup).tail = bs.tail ∧ (patchDup bs dup).length = bs.length := by
  cases bs <;> simp [patchDup]
theorem clearDup_tail (bs : Bytes) : (clearDup bs).tail = bs.tail ∧ (clearDup bs).length = bs.length := by
  cases bs <;> simp [clearDup]
/-- `dup = false` (first transmission) leaves the packet as encoded -/
theorem patchDup_first (bs : Bytes) : patchDup bs false = bs := by
  cases bs <;> simp [patchDup, b2n]

/-- what `_retryPublish` writes: the request's packet with `DUP := dup` -- and exactly that one write -/
theorem retryPublish_writes (p rid : Nat) (dup : Bool) (w : World) :
    (retryPublishW p rid dup w).log = w.log ++ [.write p (patchDup (w.req rid).encoded dup)] ∧
    ((retryPublishW p rid dup w).req rid).encoded = patchDup (w.req rid).encoded dup ∧
    ((retryPublishW p rid dup w).req rid).msgId = (w.req rid).msgId := by
  simp only [retryPublishW, req_setReq, ↓reduceIte]
  split <;> simp

/-- what `_retryRelease` writes: under 3.1 the PUBREL with `DUP := dup`, under 3.1.1 the PUBREL with DUP cleared -/
theorem retryRelease_writes (p rid : Nat) (dup : Bool) (w : World) :
    (retryReleaseW p rid dup w).log = w.log ++
      [.write p (if (w.proto p).version = v31 then patchDup (w.req rid).encoded dup else clearDup (w.req rid).encoded)] := by
  simp only [retryReleaseW]
  split <;> simp

/-- what `_retrySubscribe/_retryUnsubscribe` write: under 3.1 with `DUP := dup`, under 3.1.1 the packet unchanged -/
theorem retrySubUnsub_writes (p rid : Nat) (dup s : Bool) (w : World) :
    (retrySubUnsubW p rid dup s w).log = w.log ++
      [.write p (if (w.proto p).version = v31 then patchDup (w.req rid).encoded dup else (w.req rid).encoded)] := by
  simp only [retrySubUnsubW]
  split <;> simp

/-! ### every expiry resends -/

/-- **a retry timer that expires re-sends the request it names, with DUP, and nothing else**: the callback is the
    retransmission helper of the request's kind applied to that request (in the world where the timer is marked as
    called and the clock stands at its due time) -/
theorem expiry_resends {w : World} (t : Nat) (tm : Timer) (htm : w.timers.get? t = some tm) (hs : tm.status = .pending)
    (p rid : Nat) (hk : tm.kind = .retry p rid) :
    fireTimer t w =
      (match (w.req rid).kind with
       | .publish => retryPublishW p rid true (marked w (some t) (max w.now tm.due))
       | .pubrel => retryReleaseW p rid true (marked w (some t) (max w.now tm.due))
       | .subscribe => retrySubUnsubW p rid true true (marked w (some t) (max w.now tm.due))
       | .unsubscribe => retrySubUnsubW p rid true false (marked w (some t) (max w.now tm.due)), none) := by
  obtain ⟨due, kind, st⟩ := tm
  simp only at hs hk; subst hs; subst hk
  have hm := marked_eq w t _ htm (max w.now due)
  simp only at hm
  simp only [fireTimer, read_apply, htm, ↓reduceIte]
  have s0 : Step.mod (fun w => { w with now := max w.now due, timers := w.timers.set t ⟨due, .retry p rid, .called⟩ }) w
      = (marked w (some t) (max w.now due), none) := by rw [hm]; rfl
  rw [seq_ok s0]
  simp only [runTimer, read_apply, marked_req]
  cases (w.req rid).kind <;> rfl

/-- and the request is re-armed: afterwards it again has a pending retry timer of its own (invariant clause `alarm`
    in the successor state, which `fireTimer_inv` establishes) -/
theorem rearmed_after_expiry {w : World} (h : WInv w) (t : Nat) :
    WInv (fireTimer t w).1 ∧ (fireTimer t w).2 = none := ⟨(fireTimer_inv h t).2, (fireTimer_inv h t).1⟩

/-- the delay `_retryPublish` arms is the `IntervalLinear` value (+ jitter) of the request *after* `k` has been multiplied
    by `factor`: the model reads `linValue` at the updated request -- the spacing theorems of `Props/C08.lean` apply -/
theorem publish_delay_at_least_initial (r : Req) (size : Nat) (jitter : Rat) (hk : 0 ≤ r.ivK) (hb : 0 < r.bandwith) (hj : 0 ≤ jitter) :
    (r.initial : Rat) ≤ linValue r size + jitter := by
  have := linear_ge_initial r.initial size r.ivK r.bandwith hk hb
  rw [model_linear]; linarith

/-- nothing is repeated except on timer expiry or resumption: the only callers of the retransmission helpers are the
    timer callback above, `_refillPublish` (first transmission, `dup=false`), `_syncSession` (resumption, `dup=true`),
    `handlePUBREC` (first PUBREL) and subscribe()/unsubscribe() (first transmission); every other handler writes at most
    acknowledgements, PINGREQ, CONNECT or DISCONNECT.  Connection loss writes nothing: -/
theorem loss_resends_nothing (p : Nat) (r : Err) : Emits ⟨fun _ => false, fun _ => false, false⟩ (connectionLost p r) := lost_silent p r

end Mqtt.C08
