import MqttVerif.Proofs.More
/-
  C06 — Inbound PUBLISH: faithful delivery, QoS 2 exactly once, every packet answered.
  (That the decoder hands `handlePUBLISH` exactly the fields the packet carried is C01/C02.)
-/
namespace Mqtt.C06
open Mqtt

/-- QoS 0: delivered (once, if a handler is set), nothing written -/
theorem qos0 (p : Nat) (m : RxMsg) (w : World) (h : m.qos = 0) : handlePUBLISH p m w = deliver p m w := handlePUBLISH_qos0 p m w h

/-- QoS 1: exactly one PUBACK echoing the received identifier, then the delivery with the fields of the packet -/
theorem qos1 (p : Nat) (m : RxMsg) (w : World) (h : m.qos = 1) (i : Nat) (hi : m.msgId = some i) (hlt : i < 65536) :
    ∃ bs, encodePUBACK (i : Int) = .ok bs ∧ handlePUBLISH p m w = (write p bs ;; deliver p m) w := handlePUBLISH_qos1 p m w h i hi hlt

/-- QoS 2: stored under the identifier, PUBREC echoing it, no delivery yet -/
theorem qos2 (p : Nat) (m : RxMsg) (w : World) (h : m.qos = 2) (i : Nat) (hi : m.msgId = some i) (hlt : i < 65536) :
    ∃ bs, encodePUBREC (i : Int) = .ok bs ∧
      handlePUBLISH p m w = (({ w with rx := Rx.insert w.rx (w.paddr p) i m } : World).emit (.write p bs), none) :=
  handlePUBLISH_qos2 p m w h i hi hlt

/-- however often the broker repeats the QoS 2 PUBLISH, one message is stored per identifier -/
theorem repeated_publish_stored_once (rx : List RxEnt) (a k : Nat) (m m' : RxMsg) :
    Rx.insert (Rx.insert rx a k m) a k m' = Rx.insert rx a k m' := Rx.insert_idem rx a k m m'

/-- the first PUBREL delivers the stored message and answers with PUBCOMP -/
theorem pubrel_first (p m : Nat) (w : World) (hm : m < 65536) (msg : RxMsg) (h : Rx.lookup w.rx (w.paddr p) m = some msg) :
    ∃ bs, encodePUBCOMP (m : Int) = .ok bs ∧
      handlePUBREL p m w = ((Step.mod (fun w' => { w' with rx := Rx.remove w'.rx (w'.paddr p) m }) ;; deliver p msg) ;; write p bs) w :=
  handlePUBREL_stored p m w hm msg h

/-- a repeated PUBREL (nothing stored under the identifier) delivers nothing and is still answered with PUBCOMP -/
theorem pubrel_repeated (p m : Nat) (w : World) (hm : m < 65536) (h : Rx.lookup w.rx (w.paddr p) m = none) :
    ∃ bs, encodePUBCOMP (m : Int) = .ok bs ∧ handlePUBREL p m w = (w.emit (.write p bs), none) := handlePUBREL_repeated p m w hm h

/-- a delivery reaches `p`'s handler only, and only while bytes received on `p` are processed -/
theorem delivery_confined (p : Nat) (d : Bytes) : Emits ⟨(· == p), (· == p), true⟩ (dataReceived p d) := recv_confined p d

/-- no exception escapes, whatever is received (identifiers are read from two bytes, so the answers always encode) -/
theorem inbound_safe {w : World} (h : WInv w) (p : Nat) (ppr : Proto) (hpp : w.protos.get? p = some ppr) (hnl : ppr.lost = false)
    (data : Bytes) (hd : Bytes.WF data) : (dataReceived p data w).2 = none ∧ WInv (dataReceived p data w).1 :=
  dataReceived_inv h p ppr hpp hnl data hd

end Mqtt.C06
