import MqttVerif.Generated.AddrScan
/-
  Obligation on the configuration regenerated from /repo's current source, for C19 only (kept apart from `ConfigOk` so that a change
  which breaks it does not take the obligations of C14 and C20 with it).
-/
namespace Mqtt.ConfigOk

/-- C19: every use of a per-address dictionary in the source goes through `[self.addr]` (the premise under which the model tags every entry
    with the address of the protocol that runs the handler) -/
theorem addr_keyed_ok : Config.addrUnkeyedAccesses = 0 ∧ 0 < Config.addrKeyedAccesses := by decide

end Mqtt.ConfigOk
