import MqttVerif.Proofs.Local
/-
  C05 — publish() Deferred fires exactly once, only on the ack its QoS level requires.
-/
namespace Mqtt.C05
open Mqtt

/-- publish() never raises and keeps the invariant (QoS 0: returned already succeeded; QoS 1/2: a fresh Deferred under a
    fresh identifier is queued and launched as the window allows) -/
theorem publish_safe {w : World} (h : WInv w) (p : Nat) (topic : PyStr) (payload : Payload) (qos : Int) (retain : Bool)
    (hex : Exists w p) (hfree : FreeId w) :
    (apiPublish p topic payload qos retain w).2 = none ∧ WInv (apiPublish p topic payload qos retain w).1 :=
  apiPublish_inv h p topic payload qos retain hex hfree

/-- **PUBACK for the identifier of a QoS 1 publish in flight**: exactly that request's Deferred succeeds, with the
    identifier -- window key, `msgId` of the request object and number on the wire are the same `m` -/
theorem puback_effect {w : World} (h : WInv w) (p : Nat) (ppr : Proto) (hpp : w.protos.get? p = some ppr)
    (hlive : ppr.lost = false) (hconn : ppr.state = .connected) (m rid : Nat)
    (hl : Ents.lookup w.ents ppr.addr .pub m = some rid) (hq1 : (w.req rid).qos = 1) :
    ∃ t d, (w.req rid).alarm = some t ∧ (w.req rid).dfd = some d ∧ d ∉ w.fired ∧ (w.req rid).msgId = m ∧
      handlePUBACK p m w = (refillW p false (Ents.count (Ents.remove w.ents ppr.addr .pub m) ppr.addr .queue)
        (fireD (dropArmed w ⟨ppr.addr, .pub, m, rid⟩ t) d (.fired d (.ok (.int m)))), none) :=
  handlePUBACK_effect h p ppr hpp hlive hconn m rid hl hq1

/-- an acknowledgement of the wrong type for the QoS of the message changes nothing: PUBACK bearing the identifier of a QoS 2
    publish does not complete it, PUBREC bearing the identifier of a QoS 1 publish does not start a release phase -/
theorem puback_for_qos2 (p m rid : Nat) (w : World) (h : Ents.lookup w.ents (w.paddr p) .pub m = some rid) (hq : (w.req rid).qos ≠ 1) :
    handlePUBACK p m w = (w, none) := handlePUBACK_wrong_qos p m rid w h hq
theorem pubrec_for_qos1 (p m rid : Nat) (w : World) (h : Ents.lookup w.ents (w.paddr p) .pub m = some rid) (hq : (w.req rid).qos ≠ 2) :
    handlePUBREC p m w = (w, none) := handlePUBREC_wrong_qos p m rid w h hq

/-- **PUBCOMP for an identifier whose PUBREL is in flight** (i.e. after the PUBREC): the same for QoS 2 -/
theorem pubcomp_effect {w : World} (h : WInv w) (p : Nat) (ppr : Proto) (hpp : w.protos.get? p = some ppr)
    (hlive : ppr.lost = false) (hconn : ppr.state = .connected) (m rid : Nat)
    (hl : Ents.lookup w.ents ppr.addr .rel m = some rid) :
    ∃ t d, (w.req rid).alarm = some t ∧ (w.req rid).dfd = some d ∧ d ∉ w.fired ∧ (w.req rid).msgId = m ∧
      handlePUBCOMP p m w = (refillW p false (Ents.count (Ents.remove w.ents ppr.addr .rel m) ppr.addr .queue)
        (fireD (dropArmed w ⟨ppr.addr, .rel, m, rid⟩ t) d (.fired d (.ok (.int m)))), none) :=
  handlePUBCOMP_effect h p ppr hpp hlive hconn m rid hl

/-- duplicate, late or unknown-identifier acknowledgements change nothing -/
theorem unknown_puback (p m : Nat) (w : World) (h : Ents.lookup w.ents (w.paddr p) .pub m = none) :
    handlePUBACK p m w = (w, none) := handlePUBACK_unknown p m w h
theorem unknown_pubrec (p m : Nat) (w : World) (h : Ents.lookup w.ents (w.paddr p) .pub m = none) :
    handlePUBREC p m w = (w, none) := handlePUBREC_unknown p m w h
theorem unknown_pubcomp (p m : Nat) (w : World) (h : Ents.lookup w.ents (w.paddr p) .rel m = none) :
    handlePUBCOMP p m w = (w, none) := handlePUBCOMP_unknown p m w h

/-- PUBCOMP before PUBREC is such an unknown acknowledgement: a QoS 2 publish awaiting PUBREC sits in the publish
    window, not in the release window (identifiers are unique across all containers, clause `idUnique`) -/
theorem pubcomp_before_pubrec_is_unknown {w : World} (h : WInv w) (a m rid : Nat) (hpub : Ents.lookup w.ents a .pub m = some rid) :
    Ents.lookup w.ents a .rel m = none := by
  cases hl : Ents.lookup w.ents a .rel m with
  | none => rfl
  | some r2 =>
    have e1 := Ents.lookup_some hpub
    have e2 := Ents.lookup_some hl
    have hk := h.keyId _ e1 (by simp)
    have := h.idUnique _ e1 _ e2 (by simp [idOf]) (by simp [idOf]; exact hk.2)
    simp at this

/-- the Deferred never succeeds without those acknowledgements: no operation but the processing of received bytes
    makes any Deferred succeed -/
theorem no_success_without_ack (op : Op) (hop : ∀ p d, op ≠ .recv p d) :
    Emits ⟨fun _ => true, fun _ => true, false⟩ op.handler := success_only_on_recv op hop

/-- at most once, in any history -/
theorem at_most_once (profile : Nat) (ops : List Op) : (firedIds (run (World.init profile) ops).log).Nodup :=
  fires_at_most_once profile ops

/-- an unfinished publish has an unfired Deferred, present whenever it has an identifier, owned by it alone -/
theorem pending_deferred {w : World} (h : WInv w) (e : Ent) (he : e ∈ w.ents) :
    (∀ d, (w.req e.rid).dfd = some d → d < w.nextDfd ∧ d ∉ w.fired) ∧ ((w.req e.rid).msgId ≠ 0 → (w.req e.rid).dfd ≠ none) ∧
    (∀ e2 ∈ w.ents, ∀ d, (w.req e.rid).dfd = some d → (w.req e2.rid).dfd = some d → e = e2) :=
  ⟨h.dfdFresh e he, h.dfdSome e he, fun e2 he2 d => h.dfdInj e he e2 he2 d⟩

end Mqtt.C05
