import MqttVerif.Proofs.FirstConnect
import MqttVerif.Props.C19b
/-
  C19 on the wire, and a corollary for C14.  The dictionary layer (C19b), the object layer (C19b/C19c) and now the transports: an operation
  run by one protocol writes nothing to the transport of another one, in any state (no invariant, no `Env`); over histories of any length.
-/
namespace Mqtt.C19

/-- **an operation writes to its own transport only**: run by protocol `q` (an API call on it, bytes received on it, its loss report, one
    of its timers) or by none (building a protocol, the factory's counters, a handshake timeout), it writes nothing to the transport of
    any other protocol `p` -- of the same address or another -/
theorem others_never_write (p : Nat) (w : World) (op : Op) (hop : ∀ q, op.proto? w = some q → q ≠ p) :
    ∃ l, (step w op).log = w.log ++ l ∧ NoW p l := other_protocol_step p w op hop

/-- no operation of the history is run by `p` -/
def notBy (p : Nat) : World → List Op → Prop
  | _, [] => True
  | w, op :: r => (∀ q, op.proto? w = some q → q ≠ p) ∧ notBy p (step w op) r

/-- over histories: whatever the other protocols of the factory do, for however long, nothing appears on `p`'s transport -/
theorem others_never_write_history (p : Nat) : ∀ (ops : List Op) (w : World), notBy p w ops →
    ∃ l, (run w ops).log = w.log ++ l ∧ NoW p l := by
  intro ops
  induction ops with
  | nil => intro w _; exact ⟨[], by simp [run], NoW.nil p⟩
  | cons op r ih =>
    intro w h
    obtain ⟨l1, a1, a2⟩ := others_never_write p w op h.1
    obtain ⟨l2, b1, b2⟩ := ih (step w op) h.2
    exact ⟨l1 ++ l2, by show (run (step w op) r).log = _; rw [b1, a1, List.append_assoc], a2.append b2⟩

instance (p : Nat) (w : World) (ops : List Op) : Decidable (notBy p w ops) := by
  induction ops generalizing w with
  | nil => exact isTrue trivial
  | cons op r ih =>
    unfold notBy
    have : Decidable (∀ q, op.proto? w = some q → q ≠ p) := by
      cases h : op.proto? w with
      | none => exact isTrue (fun q hq => by cases hq)
      | some q0 =>
        by_cases hq : q0 = p
        · exact isFalse (fun hh => hh q0 rfl hq)
        · exact isTrue (fun q hq' => by injection hq' with hq'; rw [← hq']; exact hq)
    have := ih (step w op)
    infer_instance
/-- not vacuous: the nine operations run for address 1 in the demonstration history are not run by protocol 0, which has requests in flight -/
example : notBy 0 (run (World.init 3) twoUp) onOne := by decide +kernel

end Mqtt.C19

namespace Mqtt.C14

/-- **the IDLE state honours connect() and nothing else**, for every profile value: read off the dispatch matrix regenerated from the
    state classes of the source on every run -/
theorem idle_honours_connect_only (w : World) (p k : Nat) (hi : (w.proto p).state = .idle) (h : allowed w p k = true) : k = 0 :=
  idle_allows_connect_only w p k hi h

end Mqtt.C14
