import MqttVerif.Proofs.More
/-
  C11 — Clean session: connection loss fails everything pending and nothing carries over.
-/
namespace Mqtt.C11
open Mqtt

/-- **connection loss, clean session**: no exception; afterwards no request of the address is left in any container --
    not in the publish window, the release window, the queue of held-back messages, nor the subscribe/unsubscribe
    windows -- so the next connection to the address starts from nothing -/
theorem nothing_carried_over {w : World} (h : WInv w) (p : Nat) (ppr : Proto) (hpp : w.protos.get? p = some ppr)
    (hnl : ppr.lost = false) (hclean : ppr.cleanStart = true) (reason : Err) :
    (connectionLost p reason w).2 = none ∧ ∀ y ∈ (connectionLost p reason w).1.ents, y.addr ≠ ppr.addr := by
  obtain ⟨a, _, c⟩ := connectionLost_full h p ppr hpp hnl reason
  exact ⟨a, c.clean hclean⟩

/-- every request that leaves a container this way has its Deferred fired (with the reason of the loss): removal and
    errback are one step of the loops (`settleQuiet_inv`, `drainQueue`), and the only Deferreds connection loss fires
    are failures -/
theorem loss_only_fails (p : Nat) (r : Err) : Emits ⟨fun _ => false, fun _ => false, false⟩ (connectionLost p r) := lost_silent p r

/-- ... exactly once: no Deferred fires twice in any history -/
theorem at_most_once (profile : Nat) (ops : List Op) : (firedIds (run (World.init profile) ops).log).Nodup :=
  fires_at_most_once profile ops

/-- and none is left hanging with a timer: after the loss no retry timer of the connection is pending -/
theorem no_timer_left {w : World} (h : WInv w) (p : Nat) (pr : Proto) (hp : w.protos.get? p = some pr) (hl : pr.lost = true) (t : Nat) :
    (∀ rid, ¬ Pending w t (.retry p rid)) ∧ ¬ Pending w t (.pingLoop p) ∧ ¬ Pending w t (.pingAlarm p) :=
  lost_has_no_timers h p pr hp hl t

/-- the invariant (in particular: Deferreds of unfinished requests unfired, one owner each) survives the loss -/
theorem loss_safe {w : World} (h : WInv w) (p : Nat) (ppr : Proto) (hpp : w.protos.get? p = some ppr)
    (hnl : ppr.lost = false) (reason : Err) : WInv (connectionLost p reason w).1 := (connectionLost_inv h p ppr hpp hnl reason).2

end Mqtt.C11
