import MqttVerif.Model.Step
/-
  C17 — Packet identifiers are 1..65535 and never shared by two unfinished requests.
  `makeId` (factory.py, with the in-use check of the F-14 repair): every identifier handed out is in
  range, and it is carried by no unfinished request of any address as long as a free identifier
  exists at all -- including after the 16-bit counter has wrapped.
-/
namespace Mqtt.C17
open Mqtt

theorem bumpId_eq (i : Nat) (h : i ≤ 65535) : bumpId i = i % 65535 + 1 := by
  unfold bumpId
  by_cases h1 : i = 65535
  · subst h1; decide
  · have : (i + 1) % 65536 = i + 1 := Nat.mod_eq_of_lt (by omega)
    have h2 : i % 65535 = i := Nat.mod_eq_of_lt (by omega)
    simp [this, h2]

theorem bumpId_range (i : Nat) : 1 ≤ bumpId i ∧ bumpId i ≤ 65535 := by
  unfold bumpId
  have : (i + 1) % 65536 < 65536 := Nat.mod_lt _ (by decide)
  simp only
  split <;> omega

/-- `k` applications of `bumpId` -/
def iterId : Nat → Nat → Nat
  | 0, cur => cur
  | k + 1, cur => iterId k (bumpId cur)

/-- the allocator walks 1..65535 cyclically -/
theorem iterId_closed (k cur : Nat) (hc : cur ≤ 65535) : iterId (k + 1) cur = (cur + k) % 65535 + 1 := by
  induction k generalizing cur with
  | zero => simp [iterId, bumpId_eq cur hc]
  | succ k ih =>
    have hb := bumpId_range cur
    rw [iterId, ih (bumpId cur) hb.2, bumpId_eq cur hc]
    omega

/-- every identifier 1..65535 is reached within 65535 steps, from any counter value -/
theorem iterId_hits (cur j : Nat) (hc : cur ≤ 65535) (hj1 : 1 ≤ j) (hj2 : j ≤ 65535) :
    ∃ k, k < 65535 ∧ iterId (k + 1) cur = j := by
  refine ⟨(j + 65535 - 1 - cur % 65535) % 65535, Nat.mod_lt _ (by decide), ?_⟩
  rw [iterId_closed _ _ hc]
  omega

/-- what the loop of `makeId` returns: the first identifier of the walk that is not in use, or -- when all
    `fuel` candidates are in use -- the last one tried -/
theorem scanId_spec (w : World) (fuel cur : Nat) (hf : 1 ≤ fuel) :
    (∃ k, k < fuel ∧ scanId w fuel cur = iterId (k + 1) cur ∧ idInUse w (iterId (k + 1) cur) = false) ∨
    ((∀ k, k < fuel → idInUse w (iterId (k + 1) cur) = true) ∧ scanId w fuel cur = iterId fuel cur) := by
  induction fuel generalizing cur with
  | zero => omega
  | succ f ih =>
    unfold scanId
    by_cases hu : idInUse w (bumpId cur) = true
    · simp only [hu, ↓reduceIte]
      by_cases hf0 : f = 0
      · subst hf0
        right
        refine ⟨fun k hk => ?_, by simp [scanId, iterId]⟩
        have : k = 0 := by omega
        subst this; simpa [iterId] using hu
      · rcases ih (bumpId cur) (by omega) with ⟨k, hk, he, hfree⟩ | ⟨hall, he⟩
        · left; exact ⟨k + 1, by omega, by simpa [iterId] using he, by simpa [iterId] using hfree⟩
        · right
          refine ⟨fun k hk => ?_, by simpa [iterId] using he⟩
          cases k with
          | zero => simpa [iterId] using hu
          | succ k => have := hall k (by omega); simpa [iterId] using this
    · left
      have hu' : idInUse w (bumpId cur) = false := by simpa using hu
      exact ⟨0, by omega, by simp [hu', iterId], by simpa [iterId] using hu'⟩

/-- the identifier `makeId` hands out is in 1..65535 -/
theorem scanId_range (w : World) (cur : Nat) : 1 ≤ scanId w 65535 cur ∧ scanId w 65535 cur ≤ 65535 := by
  have hr : ∀ k c, 1 ≤ iterId (k + 1) c ∧ iterId (k + 1) c ≤ 65535 := by
    intro k
    induction k with
    | zero => intro c; simpa [iterId] using bumpId_range c
    | succ k ih => intro c; rw [iterId]; exact ih (bumpId c)
  rcases scanId_spec w 65535 cur (by decide) with ⟨k, _, he, _⟩ | ⟨_, he⟩
  · rw [he]; exact hr k cur
  · rw [he]; exact hr 65534 cur

/-- ... and no unfinished request of the factory carries it, provided any identifier is free at all
    (i.e. fewer than 65535 requests are unfinished) -- also right after the counter has wrapped -/
theorem scanId_fresh (w : World) (cur : Nat) (hc : cur ≤ 65535)
    (hfree : ∃ j, 1 ≤ j ∧ j ≤ 65535 ∧ idInUse w j = false) :
    idInUse w (scanId w 65535 cur) = false := by
  rcases scanId_spec w 65535 cur (by decide) with ⟨k, _, he, hf⟩ | ⟨hall, _⟩
  · rw [he]; exact hf
  · obtain ⟨j, h1, h2, hj⟩ := hfree
    obtain ⟨k, hk, hit⟩ := iterId_hits cur j hc h1 h2
    have := hall k hk
    rw [hit, hj] at this
    exact absurd this (by simp)

/-- the counter itself stays in 0..65535 -/
theorem makeId_counter (w : World) (k : Nat → Step) :
    ∃ i, 1 ≤ i ∧ i ≤ 65535 ∧ i = scanId w 65535 w.nextId ∧
      makeId k w = k i { w with nextId := i, idAllocs := w.idAllocs + 1 } := by
  refine ⟨scanId w 65535 w.nextId, (scanId_range w _).1, (scanId_range w _).2, rfl, ?_⟩
  simp [makeId, Step.read, Step.seq, Step.mod]

/-! Non-vacuity: at the wrap the allocator skips identifiers in use. With requests 65535 and 1 unfinished
    and the counter at 65534, the next identifier is 2. -/
def wrapWorld : World :=
  { nextId := 65534, ents := [⟨0, .pub, 65535, 0⟩, ⟨0, .sub, 1, 1⟩] }
example : scanId wrapWorld 65535 wrapWorld.nextId = 2 := by decide
example : idInUse wrapWorld 65535 = true ∧ idInUse wrapWorld 1 = true ∧ idInUse wrapWorld 2 = false := by decide

end Mqtt.C17
