import MqttVerif.Model.World
/-
  Operational semantics of the session layer: each function below transcribes one method of
  src/mqtt/client/base.py / pubsubs.py / factory.py (named in its doc comment), or one primitive
  of the runtime underneath (Twisted's DelayedCall, Deferred, LoopingCall, transport) with the
  behaviour the code relies on, including the exceptions those primitives raise.

  Handlers are `Step = World → World × Option Err`: the mutations made so far stay in place when
  a Python exception propagates (`some e`).
-/
namespace Mqtt

abbrev Step := World → World × Option Err

namespace Step
def ok : Step := fun w => (w, none)
def raise (e : Err) : Step := fun w => (w, some e)
def seq (a b : Step) : Step := fun w =>
  match a w with
  | (w', none) => b w'
  | r => r
def read (f : World → Step) : Step := fun w => f w w
def mod (f : World → World) : Step := fun w => (f w, none)
end Step

infixr:60 " ;; " => Step.seq

/-- run `f` on each element in order; stop at the first exception -/
def forEach {α : Type} : List α → (α → Step) → Step
  | [], _ => Step.ok
  | a :: r, f => f a ;; forEach r f

/-! ### accessors -/

def World.proto (w : World) (p : Nat) : Proto := (w.protos.get? p).getD default
def World.req (w : World) (r : Nat) : Req := (w.reqs.get? r).getD default
/-- `self.addr` of protocol `p` -/
def World.paddr (w : World) (p : Nat) : Nat := (w.proto p).addr

/-! pure (never raising) primitives as plain functions on worlds -/
def World.emit (w : World) (o : Obs) : World := { w with log := w.log ++ [o] }
def World.setReq (w : World) (r : Nat) (f : Req → Req) : World := { w with reqs := w.reqs.set r (f (w.req r)) }
def World.setEnts (w : World) (f : List Ent → List Ent) : World := { w with ents := f w.ents }
/-- `reactor.callLater(delay, ...)`: the world with a new pending DelayedCall, and its id -/
def World.callLater (w : World) (delay : Rat) (kind : TKind) : World × Nat :=
  ({ w with timers := w.timers.set w.nextTimer ⟨w.now + ticks delay, kind, .pending⟩, nextTimer := w.nextTimer + 1 }, w.nextTimer)

def setProto (p : Nat) (f : Proto → Proto) : Step :=
  Step.mod fun w => { w with protos := w.protos.set p (f (w.proto p)) }
def setReq (r : Nat) (f : Req → Req) : Step := Step.mod fun w => w.setReq r f
def setEnts (f : List Ent → List Ent) : Step := Step.mod fun w => w.setEnts f

def emit (o : Obs) : Step := Step.mod fun w => w.emit o

/-! ### runtime primitives (modelled, not verified) -/

/-- `reactor.callLater(delay, ...)`: a new pending DelayedCall; `k` receives its id -/
def callLater (delay : Rat) (kind : TKind) (k : Nat → Step) : Step :=
  Step.read fun w => Step.mod (fun w => (w.callLater delay kind).1) ;; k w.nextTimer

/-- `DelayedCall.cancel()`: AlreadyCalled / AlreadyCancelled on a dead call -/
def cancelTimer (tid : Nat) : Step :=
  Step.read fun w =>
    match w.timers.get? tid with
    | none => Step.raise .attribute
    | some t =>
      match t.status with
      | .pending => Step.mod fun w => { w with timers := w.timers.set tid { t with status := .cancelled } }
      | .called => Step.raise .alreadyCalled
      | .cancelled => Step.raise .alreadyCancelled

/-- `request.alarm.cancel()` where `alarm` may be `None` (AttributeError) -/
def cancelAlarm : Option Nat → Step
  | none => Step.raise .attribute
  | some tid => cancelTimer tid

/-- `Deferred.callback/errback`: AlreadyCalledError the second time -/
def fireDfd (d : Nat) (o : Outcome) : Step :=
  Step.read fun w =>
    if d ∈ w.fired then Step.raise .alreadyCalledDfd
    else Step.mod (fun w => { w with fired := d :: w.fired }) ;; emit (.fired d o)

/-- `request.deferred.callback/errback(...)` where the Deferred of a QoS 0 publish has fired already -/
def fireReqDfd (d : Option Nat) (o : Outcome) : Step :=
  match d with
  | none => Step.raise .alreadyCalledDfd
  | some d => fireDfd d o

/-- `defer.Deferred()`: a fresh Deferred; `k` receives its id -/
def newDfd (k : Nat → Step) : Step :=
  Step.read fun w =>
    let d := w.nextDfd
    Step.mod (fun w => { w with nextDfd := d + 1 }) ;; k d

def write (p : Nat) (bs : Bytes) : Step := emit (.write p bs)

/-! ### factory.py -/

/-- MQTTFactory._idInUse: an unfinished request of any address still carries this identifier -/
def idInUse (w : World) (i : Nat) : Bool :=
  w.ents.any fun e => if e.box = .queue then (w.req e.rid).msgId == i else e.key == i

/-- `(id + 1) % 65536 or 1` -/
def bumpId (i : Nat) : Nat :=
  let i0 := (i + 1) % 65536
  if i0 = 0 then 1 else i0

/-- the `for _ in range(65535)` loop of makeId: the last identifier tried -/
def scanId (w : World) : Nat → Nat → Nat
  | 0, cur => cur
  | fuel + 1, cur =>
    let i := bumpId cur
    if idInUse w i then scanId w fuel i else i

/-- MQTTFactory.makeId -/
def makeId (k : Nat → Step) : Step :=
  Step.read fun w =>
    let i := scanId w 65535 w.nextId
    Step.mod (fun w => { w with nextId := i, idAllocs := w.idAllocs + 1 }) ;; k i

/-- MQTTFactory.buildProtocol(addr) followed by makeConnection(transport) -/
def buildProtocol (a : Nat) : Step :=
  Step.mod fun w =>
    { w with protos := w.protos.set w.nextProto { addr := a }, nextProto := w.nextProto + 1 }

/-! ### interval.py -/

/-- Interval.__call__ on the request's interval object: the new stored value -/
def ivNextValue (r : Req) : Nat := min (r.ivValue * Config.intervalFactor) (max r.initial Config.intervalMaxDelay)

/-- IntervalLinear.__call__(size): the delay net of jitter -/
def linValue (r : Req) (size : Nat) : Rat := (r.initial : Rat) + (r.ivK * size) / r.bandwith

/-! ### dispatch through the state objects (base.py:94-251 and the per-profile state classes) -/

def stateIdx : PState → Nat
  | .idle => 0 | .connecting => 1 | .connected => 2

/-- does the current state object of protocol `p` override BaseState's method number `op`? -/
def allowed (w : World) (p : Nat) (op : Nat) : Bool :=
  (((Config.dispatchTable.getD (w.profile - 1) []).getD (stateIdx (w.proto p).state) []).getD op false)

/-! ### pubsubs.py: transmit / retransmit helpers -/

/-- `request.encoded[0] |= (dup << 3)` -/
def patchDup (bs : Bytes) (dup : Bool) : Bytes :=
  match bs with
  | [] => []
  | h :: r => (h ||| (b2n dup <<< 3)) :: r

/-- `reply.encoded[0] &= 0xF7` -/
def clearDup (bs : Bytes) : Bytes :=
  match bs with
  | [] => []
  | h :: r => (h &&& 0xF7) :: r

/-- MQTTProtocol._retryPublish(request, dup) run by protocol `p` (never raises) -/
def retryPublishW (p rid : Nat) (dup : Bool) (w : World) : World :=
  let w1 := w.setReq rid fun r => { r with encoded := patchDup r.encoded dup }
  let r := w1.req rid
  let w4 :=
    if r.msgId ≠ 0 then
      -- request.interval(len(request.encoded)); callLater; request.alarm = ...
      let w2 := w1.setReq rid fun r => { r with ivK := r.ivK * r.factor }
      let (w3, tid) := w2.callLater (linValue r r.encoded.length + w1.jitter) (.retry p rid)
      w3.setReq rid fun r => { r with alarm := some tid }
    else w1
  w4.emit (.write p r.encoded)

def retryPublish (p rid : Nat) (dup : Bool) : Step := Step.mod (retryPublishW p rid dup)

/-- MQTTProtocol._retryRelease(reply, dup) -/
def retryReleaseW (p rid : Nat) (dup : Bool) (w : World) : World :=
  let w1 := if (w.proto p).version = v31 then w.setReq rid fun r => { r with encoded := patchDup r.encoded dup }
            else w.setReq rid fun r => { r with encoded := clearDup r.encoded }
  let v := ivNextValue (w1.req rid)
  let w2 := w1.setReq rid fun r => { r with ivValue := v }
  let (w3, tid) := w2.callLater ((v : Rat) + w1.jitter) (.retry p rid)
  let w4 := w3.setReq rid fun r => { r with alarm := some tid }
  w4.emit (.write p (w4.req rid).encoded)

def retryRelease (p rid : Nat) (dup : Bool) : Step := Step.mod (retryReleaseW p rid dup)

/-- MQTTProtocol._retrySubscribe / _retryUnsubscribe (they differ only in the window counted) -/
def retrySubUnsubW (p rid : Nat) (dup : Bool) (isSub : Bool) (w : World) : World :=
  let w1 := if (w.proto p).version = v31 then w.setReq rid fun r => { r with encoded := patchDup r.encoded dup } else w
  let v := ivNextValue (w1.req rid)
  let w2 := w1.setReq rid fun r => { r with ivValue := v }
  let n := Ents.count w2.ents (w2.paddr p) (if isSub then .sub else .unsub)
  let (w3, tid) := w2.callLater ((v : Rat) + w1.jitter + (1 / 4 : Rat) * n) (.retry p rid)
  let w4 := w3.setReq rid fun r => { r with alarm := some tid }
  w4.emit (.write p (w4.req rid).encoded)

def retrySubUnsub (p rid : Nat) (dup : Bool) (isSub : Bool) : Step := Step.mod (retrySubUnsubW p rid dup isSub)

/-- MQTTProtocol._refillPublish(dup): `while queue and len(windowPublish) < self._window` (never raises) -/
def refillW (p : Nat) (dup : Bool) : Nat → World → World
  | 0, w => w
  | fuel + 1, w =>
    let a := w.paddr p
    match Ents.items w.ents a .queue with
    | [] => w
    | e :: _ =>
      if Ents.count w.ents a .pub < (w.proto p).window then
        let w1 := w.setEnts fun es => Ents.dropFirst es a .queue
        let w2 := if (w.req e.rid).msgId ≠ 0 then w1.setEnts fun es => Ents.insert es a .pub (w.req e.rid).msgId e.rid else w1
        refillW p dup fuel (retryPublishW p e.rid dup w2)
      else w

def refill (p : Nat) : Step := Step.mod fun w => refillW p false (Ents.count w.ents (w.paddr p) .queue) w

/-- MQTTProtocol._deliver -/
def deliver (p : Nat) (m : RxMsg) : Step :=
  Step.read fun w => if (w.proto p).onPublish then emit (.pub p m) else Step.ok

/-- MQTTProtocol._purgeSession(reason) -/
def purgeWindow (p : Nat) (rel : Bool) (reason : Err) : Step :=
  Step.read fun w =>
    let box : Box := if rel then .rel else .pub
    forEach (Ents.items w.ents (w.paddr p) box) fun e =>
      Step.read fun w =>
        if (w.req e.rid).alarm = none then
          setEnts (fun es => Ents.remove es e.addr box e.key) ;;
          fireReqDfd (w.req e.rid).dfd (.fail reason)
        else Step.ok

def purgeSession (p : Nat) (reason : Err) : Step :=
  purgeWindow p false reason ;; purgeWindow p true reason

/-- MQTTProtocol._syncSession (never raises): inherited PUBRELs, then inherited PUBLISHes, those without a running alarm -/
def syncW (p : Nat) (w : World) : World :=
  let w1 := (Ents.items w.ents (w.paddr p) .rel).foldl
    (fun w e => if (w.req e.rid).alarm = none then retryReleaseW p e.rid true w else w) w
  (Ents.items w1.ents (w1.paddr p) .pub).foldl
    (fun w e => if (w.req e.rid).alarm = none then retryPublishW p e.rid true w else w) w1

def syncSession (p : Nat) : Step := Step.mod (syncW p)

/-- MQTTProtocol.mqttConnectionMade -/
def mqttConnectionMade (p : Nat) : Step :=
  Step.read fun w =>
    (if (w.proto p).cleanStart then purgeSession p .sessionCleared else syncSession p) ;;
    refill p ;;
    Step.read fun w => if (w.proto p).onConn then emit (.onConn p) else Step.ok

/-! ### base.py: keepalive -/

/-- MQTTBaseProtocol.doPingRequest -/
def doPingRequest (p : Nat) : Step :=
  write p encodePINGREQ ;;
  Step.read fun w =>
    if (w.proto p).pingAlarm = none then
      match (w.proto p).pingKeepalive with
      | none => Step.raise .attribute
      | some k => callLater k (.pingAlarm p) fun tid => setProto p (fun pr => { pr with pingAlarm := some tid })
    else Step.ok

/-- MQTTBaseProtocol.ping → self.state.ping() (AttributeError when the state has no `ping`) -/
def ping (p : Nat) : Step :=
  Step.read fun w => if allowed w p 5 then doPingRequest p else Step.raise .attribute

/-- one run of the LoopingCall body: `maybeDeferred(self.ping)`; an exception stops the loop
    (it goes to the loop's own Deferred, not to the caller), otherwise the loop re-arms itself -/
def loopRun (p : Nat) : Step := fun w =>
  match ping p w with
  | (w', none) =>
    (Step.read fun w =>
      match (w.proto p).pingTimer with
      | some l =>
        if l.running then
          callLater l.interval (.pingLoop p) fun tid =>
            setProto p (fun pr => { pr with pingTimer := (pr.pingTimer.map fun l => { l with call := some tid }) })
        else Step.ok
      | none => Step.ok) w'
  | (w', some _) =>
    (setProto p (fun pr => { pr with pingTimer := (pr.pingTimer.map fun l => { l with running := false, call := none }) })) w'

/-- LoopingCall.stop() -/
def loopStop (p : Nat) : Step :=
  Step.read fun w =>
    match (w.proto p).pingTimer with
    | none => Step.ok
    | some l =>
      if !l.running then Step.raise .assertion
      else
        setProto p (fun pr => { pr with pingTimer := (pr.pingTimer.map fun l => { l with running := false }) }) ;;
        match l.call with
        | none => Step.ok
        | some tid => cancelTimer tid ;;
            setProto p (fun pr => { pr with pingTimer := (pr.pingTimer.map fun l => { l with call := none }) })

/-! ### base.py: handlers of inbound packets -/

/-- MQTTBaseProtocol.handleCONNACK -/
def handleCONNACK (p : Nat) (session : Bool) (rc : Nat) : Step :=
  Step.read fun w =>
    match (w.proto p).connReq with
    | none => Step.raise .attribute
    | some cr =>
      match w.connReqs.get? cr with
      | none => Step.raise .attribute
      | some c =>
        match c.dfd with
        | none => Step.ok            -- the CONNACK timeout has already failed this request
        | some d =>
          cancelTimer c.alarm ;;
          (if rc = 0 then
            setProto p (fun pr => { pr with state := .connected }) ;;
            mqttConnectionMade p ;;
            (if c.keepalive ≠ 0 then
              setProto p (fun pr => { pr with pingKeepalive := some c.keepalive,
                                              pingTimer := some ⟨true, c.keepalive, none⟩ }) ;;
              loopRun p
             else Step.ok) ;;
            fireDfd d (.ok (.bool session))
           else
            setProto p (fun pr => { pr with state := .idle }) ;;
            fireDfd d (.fail .state)) ;;
          setProto p (fun pr => { pr with connReq := none })

/-- MQTTBaseProtocol.handlePINGRESP -/
def handlePINGRESP (p : Nat) : Step :=
  Step.read fun w =>
    match (w.proto p).pingAlarm with
    | none => Step.ok
    | some tid => cancelTimer tid ;; setProto p (fun pr => { pr with pingAlarm := none })

/-- MQTTProtocol.handleSUBACK / handleUNSUBACK -/
def handleSubUnsubAck (p : Nat) (isSub : Bool) (msgId : Nat) (v : Val) : Step :=
  Step.read fun w =>
    let box : Box := if isSub then .sub else .unsub
    match Ents.lookup w.ents (w.paddr p) box msgId with
    | none => Step.ok
    | some rid =>
      setEnts (fun es => Ents.remove es (w.paddr p) box msgId) ;;
      cancelAlarm (w.req rid).alarm ;;
      fireReqDfd (w.req rid).dfd (.ok v)

/-- MQTTProtocol.handlePUBLISH -/
def handlePUBLISH (p : Nat) (m : RxMsg) : Step :=
  if m.qos = 0 then deliver p m
  else if m.qos = 1 then
    match encodePUBACK ((m.msgId.getD 0 : Nat) : Int) with
    | .ok bs => write p bs ;; deliver p m
    | .error e => Step.raise e
  else if m.qos = 2 then
    Step.mod (fun w => { w with rx := Rx.insert w.rx (w.paddr p) (m.msgId.getD 0) m }) ;;
    match encodePUBREC ((m.msgId.getD 0 : Nat) : Int) with
    | .ok bs => write p bs
    | .error e => Step.raise e
  else Step.ok

/-- MQTTProtocol.handlePUBREL -/
def handlePUBREL (p : Nat) (msgId : Nat) : Step :=
  Step.read fun w =>
    (match Rx.lookup w.rx (w.paddr p) msgId with
     | none => Step.ok
     | some m => Step.mod (fun w => { w with rx := Rx.remove w.rx (w.paddr p) msgId }) ;; deliver p m) ;;
    match encodePUBCOMP (msgId : Int) with
    | .ok bs => write p bs
    | .error e => Step.raise e

/-- MQTTProtocol.handlePUBACK -/
def handlePUBACK (p : Nat) (msgId : Nat) : Step :=
  Step.read fun w =>
    match Ents.lookup w.ents (w.paddr p) .pub msgId with
    | none => Step.ok
    | some rid =>
      if (w.req rid).qos ≠ 1 then Step.ok        -- a QoS 2 exchange is only completed by PUBREC + PUBCOMP
      else
      cancelAlarm (w.req rid).alarm ;;
      fireReqDfd (w.req rid).dfd (.ok (.int (w.req rid).msgId)) ;;
      setEnts (fun es => Ents.remove es (w.paddr p) .pub msgId) ;;
      refill p

/-- MQTTProtocol.handlePUBREC -/
def handlePUBREC (p : Nat) (msgId : Nat) : Step :=
  Step.read fun w =>
    match Ents.lookup w.ents (w.paddr p) .pub msgId with
    | none => Step.ok
    | some rid =>
      if (w.req rid).qos ≠ 2 then Step.ok        -- a QoS 1 message is only acknowledged by PUBACK
      else
      cancelAlarm (w.req rid).alarm ;;
      setEnts (fun es => Ents.remove es (w.paddr p) .pub msgId) ;;
      match encodePUBREL (msgId : Int) with
      | .error e => Step.raise e
      | .ok bs =>
        Step.read fun w =>
          let nid := w.nextReq
          let old := w.req rid
          Step.mod (fun w => { w with
            reqs := w.reqs.set nid { kind := .pubrel, msgId := msgId, qos := old.qos, encoded := bs, dfd := old.dfd,
                                     alarm := none, initial := (w.proto p).initialT, ivValue := (w.proto p).initialT,
                                     ivK := 1, bandwith := 1, factor := 1, seq := old.seq },
            nextReq := nid + 1 }) ;;
          setEnts (fun es => Ents.insert es (w.paddr p) .rel msgId nid) ;;
          retryRelease p nid false

/-- MQTTProtocol.handlePUBCOMP -/
def handlePUBCOMP (p : Nat) (msgId : Nat) : Step :=
  Step.read fun w =>
    match Ents.lookup w.ents (w.paddr p) .rel msgId with
    | none => Step.ok
    | some rid =>
      cancelAlarm (w.req rid).alarm ;;
      fireReqDfd (w.req rid).dfd (.ok (.int (w.req rid).msgId)) ;;
      setEnts (fun es => Ents.remove es (w.paddr p) .rel (w.req rid).msgId) ;;
      refill p

def abort (p : Nat) : Step := emit (.abort p)

/-- MQTTBaseProtocol._processPacket and the `_handleXXX` wrappers: decode inside try/except
    (abort on failure), then dispatch through the state object -/
def processPacket (p : Nat) (packet : Bytes) : Step :=
  match packet with
  | [] => Step.raise .index
  | h :: _ =>
    let t := (h &&& 0xF0) >>> 4
    if !(Config.knownTypes.getD t false) then abort p
    else if !(Config.handledTypes.getD t false) then abort p
    else Step.read fun w =>
      -- op number of the state method for this packet type
      match t with
      | 2 => match ConnackF.decode packet with
        | .error _ => abort p
        | .ok c => if allowed w p 6 then handleCONNACK p c.session c.resultCode else Step.ok
      | 13 => if allowed w p 7 then handlePINGRESP p else Step.ok
      | 9 => match SubackF.decode packet with
        | .error _ => abort p
        | .ok s => if allowed w p 8 then handleSubUnsubAck p true s.msgId.toNat (.granted s.granted) else Step.ok
      | 11 => match decodeAck packet with
        | .error _ => abort p
        | .ok m => if allowed w p 9 then handleSubUnsubAck p false m (.int m) else Step.ok
      | 3 => match PublishD.decode packet with
        | .error _ => abort p
        | .ok d => if allowed w p 10 then handlePUBLISH p ⟨d.topic, d.payload, d.qos, d.dup, d.retain, d.msgId⟩ else Step.ok
      | 4 => match decodeAck packet with
        | .error _ => abort p
        | .ok m => if allowed w p 11 then handlePUBACK p m else Step.ok
      | 5 => match decodeAck packet with
        | .error _ => abort p
        | .ok m => if allowed w p 12 then handlePUBREC p m else Step.ok
      | 6 => match decodePUBREL packet with
        | .error _ => abort p
        | .ok (m, _) => if allowed w p 13 then handlePUBREL p m else Step.ok
      | 7 => match decodeAck packet with
        | .error _ => abort p          -- (the missing `else` of _handlePUBCOMP has no observable effect)
        | .ok m => if allowed w p 14 then handlePUBCOMP p m else Step.ok
      | _ => abort p

/-- MQTTBaseProtocol._accumulatePacket: the buffer keeps the packet being processed until
    `_processPacket` has returned -/
def accumulate (p : Nat) : Nat → Step
  | 0 => Step.ok
  | fuel + 1 => Step.read fun w =>
    match firstPacket (w.proto p).buffer with
    | none => Step.ok
    | some (pkt, rest) =>
      processPacket p pkt ;;
      setProto p (fun pr => { pr with buffer := rest }) ;;
      accumulate p fuel

/-- Protocol.dataReceived(data) -/
def dataReceived (p : Nat) (data : Bytes) : Step :=
  setProto p (fun pr => { pr with buffer := pr.buffer ++ data }) ;;
  Step.read fun w => accumulate p (w.proto p).buffer.length

/-! ### connection loss -/

def cancelWindowAlarms (win : List Ent) : Step :=
  forEach win fun e =>
    Step.read fun w =>
      match (w.req e.rid).alarm with
      | none => Step.ok
      | some tid => cancelTimer tid ;; setReq e.rid (fun r => { r with alarm := none })

def failWindow (p : Nat) (isSub : Bool) (reason : Err) : Step :=
  Step.read fun w =>
    let box : Box := if isSub then .sub else .unsub
    forEach (Ents.items w.ents (w.paddr p) box) fun e =>
      setEnts (fun es => Ents.remove es e.addr box e.key) ;;
      Step.read fun w => fireReqDfd (w.req e.rid).dfd (.fail reason)

/-- the `while len(queuePublishTx)` drain of the clean-session branch -/
def drainQueue (p : Nat) (reason : Err) : Nat → Step
  | 0 => Step.ok
  | fuel + 1 => Step.read fun w =>
    match Ents.items w.ents (w.paddr p) .queue with
    | [] => Step.ok
    | e :: _ =>
      setEnts (fun es => Ents.dropFirst es (w.paddr p) .queue) ;;
      (if (w.req e.rid).msgId ≠ 0 then fireReqDfd (w.req e.rid).dfd (.fail reason) else Step.ok) ;;
      drainQueue p reason fuel

/-- MQTTProtocol.doConnectionLost -/
def doConnectionLost (p : Nat) (reason : Err) : Step :=
  Step.read fun w =>
    cancelWindowAlarms (Ents.items w.ents (w.paddr p) .sub) ;;
    cancelWindowAlarms (Ents.items w.ents (w.paddr p) .unsub) ;;
    cancelWindowAlarms (Ents.items w.ents (w.paddr p) .pub) ;;
    cancelWindowAlarms (Ents.items w.ents (w.paddr p) .rel) ;;
    failWindow p true reason ;;
    failWindow p false reason ;;
    Step.read fun w =>
      if (w.proto p).cleanStart then
        purgeSession p reason ;;
        Step.read fun w => drainQueue p reason (Ents.count w.ents (w.paddr p) .queue)
      else Step.ok

/-- MQTTBaseProtocol.connectionLost -/
def connectionLost (p : Nat) (reason : Err) : Step :=
  Step.read fun w =>
    (match (w.proto p).pingTimer with
     | none => Step.ok
     | some _ => loopStop p ;; setProto p (fun pr => { pr with pingTimer := none })) ;;
    (match (w.proto p).pingAlarm with
     | none => Step.ok
     | some tid => cancelTimer tid ;; setProto p (fun pr => { pr with pingAlarm := none })) ;;
    doConnectionLost p reason ;;
    setProto p (fun pr => { pr with state := .idle, lost := true }) ;;     -- `lost` is a ghost field: the loss has been reported
    Step.read fun w =>
      if (w.proto p).onDisc then callLater (1 / 10 : Rat) (.onDisc p reason) fun _ => Step.ok else Step.ok

/-! ### timers -/

/-- the callback of a fired DelayedCall -/
def runTimer (k : TKind) : Step :=
  match k with
  | .connack cr =>
    -- `connectError` closure of doConnect
    Step.read fun w =>
      match w.connReqs.get? cr with
      | none => Step.raise .attribute
      | some c =>
        (match c.dfd with
         | none => Step.raise .attribute
         | some d => fireDfd d (.fail .timeout)) ;;
        Step.mod (fun w => { w with connReqs := w.connReqs.set cr { c with dfd := none } }) ;;
        abort c.proto
  | .pingLoop p =>
    setProto p (fun pr => { pr with pingTimer := (pr.pingTimer.map fun l => { l with call := none }) }) ;;
    loopRun p
  | .pingAlarm p =>
    -- `doPingError`
    setProto p (fun pr => { pr with pingAlarm := none }) ;; abort p
  | .retry p rid =>
    Step.read fun w =>
      match (w.req rid).kind with
      | .publish => retryPublish p rid true          -- _publishError
      | .pubrel => retryRelease p rid true           -- _pubrelError
      | .subscribe => retrySubUnsub p rid true true  -- _subscribeError
      | .unsubscribe => retrySubUnsub p rid true false -- _unsubscribeError
  | .onDisc p reason => emit (.onDisc p reason)

end Mqtt
