import MqttVerif.Model.Basic
/-
  Transcription of the three primitive codecs of src/mqtt/pdu.py (lines 51-121).
-/
namespace Mqtt

/-- pdu.py `encodeString`: 2-byte big-endian byte length + UTF-8; StringValueError above 65535. -/
def encodeString (s : String) : Except Err Bytes :=
  let b := utf8 s
  let l := b.length
  if l > 65535 then .error .value
  else .ok ((l >>> 8) :: (l &&& 0xFF) :: b)

/-- pdu.py `decodeString` (with the bounds check of the F-19 repair). `encoded[0]` on a too
    short buffer is IndexError; an invalid UTF-8 body is UnicodeDecodeError (ValueError). -/
def decodeString (e : Bytes) : Except Err (String × Bytes) :=
  match e with
  | a :: b :: rest =>
    let len := a * 256 + b
    if rest.length < len then .error .value
    else match fromUtf8? (rest.take len) with
      | some s => .ok (s, rest.drop len)
      | none => .error .value
  | _ => .error .index

/-- pdu.py `encode16Int`: a `bytearray` item store raises ValueError outside range(256). -/
def encode16Int (v : Int) : Except Err Bytes :=
  if 0 ≤ v ∧ v < 65536 then .ok [v.toNat >>> 8, v.toNat &&& 0xFF] else .error .value

/-- pdu.py `decode16Int` -/
def decode16Int (e : Bytes) : Except Err Nat :=
  match e with
  | a :: b :: _ => .ok (a * 256 + b)
  | _ => .error .index

/-- pdu.py `encodeLength` (do-while over base-128 digits, continuation bit 0x80).
    The loop is bounded by a fuel argument; `v` itself is always enough fuel (one unit per digit). -/
def encodeLengthF : Nat → Nat → Bytes
  | 0, v => [v % 128]
  | f + 1, v => if v / 128 > 0 then ((v % 128) ||| 128) :: encodeLengthF f (v / 128) else [v % 128]

def encodeLength (v : Nat) : Bytes := encodeLengthF v v

def decodeLengthAux (value mult : Nat) : Bytes → Nat
  | [] => value
  | i :: rest =>
    let v := value + (i &&& 0x7F) * mult
    if (i &&& 0x80) != 0x80 then v else decodeLengthAux v (mult * 0x80) rest

/-- pdu.py `decodeLength` -/
def decodeLength (e : Bytes) : Nat := decodeLengthAux 0 1 e

end Mqtt
