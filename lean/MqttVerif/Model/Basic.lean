/-
  Basic vocabulary of the model: bytes as Python ints, Python exception classes (canonical enum),
  conversions between `String` and UTF-8 byte lists.
  No Mathlib import anywhere under Model/ or Spec/ (they are compiled into the driver).
-/
deriving instance DecidableEq for Except

namespace Mqtt

/-- A `bytearray`/`bytes` value: a list of Python ints. Well-formedness (`< 256`) is a proved
    property of encoder outputs, not a subtype. -/
abbrev Bytes := List Nat

def Bytes.WF (bs : Bytes) : Prop := ∀ b ∈ bs, b < 256

/-- Canonical exception classes (the harness maps every ValueError subclass to `value`,
    every TypeError subclass to `type`). -/
inductive Err where
  | value | type | index | key | attribute
  | state            -- MQTTStateError
  | window           -- MQTTWindowError
  | timeout          -- MQTTTimeoutError
  | sessionCleared   -- MQTTSessionCleared
  | connDone | connLost | connAborted     -- connection-loss reasons
  | alreadyCalledDfd -- defer.AlreadyCalledError
  | alreadyCalled | alreadyCancelled      -- DelayedCall.cancel() on a dead call
  | assertion
  deriving DecidableEq, Repr, Inhabited

def Err.name : Err → String
  | .value => "ValueError" | .type => "TypeError" | .index => "IndexError" | .key => "KeyError"
  | .attribute => "AttributeError" | .state => "MQTTStateError" | .window => "MQTTWindowError"
  | .timeout => "MQTTTimeoutError" | .sessionCleared => "MQTTSessionCleared"
  | .connDone => "ConnectionDone" | .connLost => "ConnectionLost" | .connAborted => "ConnectionAborted"
  | .alreadyCalledDfd => "AlreadyCalledError" | .alreadyCalled => "AlreadyCalled"
  | .alreadyCancelled => "AlreadyCancelled" | .assertion => "AssertionError"

/-- `ValueError` or `TypeError` (what C02/C20 allow for unrepresentable / invalid input). -/
def Err.isValueOrType : Err → Bool
  | .value | .type => true
  | _ => false

/-- `bytearray(s, encoding='utf-8')` -/
def utf8 (s : String) : Bytes := s.toByteArray.data.toList.map UInt8.toNat

def toByteArray (bs : Bytes) : ByteArray := ⟨(bs.map UInt8.ofNat).toArray⟩

/-- `bs.decode('utf-8')`; `none` is UnicodeDecodeError (a ValueError). -/
def fromUtf8? (bs : Bytes) : Option String := String.fromUTF8? (toByteArray bs)

end Mqtt
