import MqttVerif.Model.Prim
/-
  Transcription of the 14 packet classes of src/mqtt/pdu.py (encode()/decode() pairs), function by
  function. Fields are plain structures; `Except Err` carries the Python exception class.
  Statement order follows the Python so that the *first* exception raised is the one reported.
-/
namespace Mqtt

structure Version where
  level : Nat
  tag : String
  deriving DecidableEq, Repr, Inhabited

def v31 : Version := ⟨3, "MQIsdp"⟩
def v311 : Version := ⟨4, "MQTT"⟩

def b2n (b : Bool) : Nat := if b then 1 else 0

/-- `bytearray.append(x)` / `ba[i] = x`: ValueError unless `x in range(256)`. -/
def byte (x : Nat) : Except Err Nat := if x < 256 then .ok x else .error .value

/-- `lenLen = 1; while packet[lenLen] & 0x80: lenLen += 1; packet[lenLen+1:]`
    applied to `packet[1:]`: IndexError when the bytes run out. -/
def skipLen : Bytes → Except Err Bytes
  | [] => .error .index
  | b :: rest => if b &&& 0x80 != 0 then skipLen rest else .ok rest

/-- the bytes after the fixed header, as every `decode()` computes them -/
def body (packet : Bytes) : Except Err Bytes := skipLen (packet.drop 1)

/-- `packet[0]` -/
def first (packet : Bytes) : Except Err Nat :=
  match packet with
  | [] => .error .index
  | b :: _ => .ok b

/-! ### DISCONNECT, PINGREQ, PINGRES -/

def encodeDISCONNECT : Bytes := [0xE0, 0]
def encodePINGREQ : Bytes := [0xC0, 0]
def encodePINGRES : Bytes := [0xD0, 0]

/-! ### CONNECT -/

structure ConnectF where
  clientId : String
  keepalive : Int
  willTopic : Option String := none
  willMessage : Option String := none
  willQoS : Nat := 0
  willRetain : Bool := false
  username : Option String := none
  password : Option String := none
  cleanStart : Bool := true
  version : Version := v311
  deriving Repr, DecidableEq

def ConnectF.hasWill (f : ConnectF) : Bool := f.willTopic.isSome && f.willMessage.isSome

def ConnectF.flags (f : ConnectF) : Nat :=
  let f0 := b2n f.cleanStart <<< 1
  let f1 := if f.hasWill then f0 ||| (0x04 ||| (b2n f.willRetain <<< 5) ||| (f.willQoS <<< 3)) else f0
  let f2 := if f.username.isSome then f1 ||| 0x80 else f1
  if f.password.isSome then f2 ||| 0x40 else f2

def encOptString : Option String → Except Err Bytes
  | none => .ok []
  | some s => encodeString s

def ConnectF.encode (f : ConnectF) : Except Err Bytes := do
  let tag ← encodeString f.version.tag
  let lvl ← byte f.version.level
  let fl ← byte f.flags
  let ka ← encode16Int f.keepalive
  let varHeader := tag ++ [lvl] ++ [fl] ++ ka
  let cid ← encodeString f.clientId
  let will ← if f.hasWill then do
      let t ← encOptString f.willTopic
      let m ← encOptString f.willMessage
      pure (t ++ m)
    else pure []
  let user ← encOptString f.username
  let pass ← encOptString f.password
  let payload := cid ++ will ++ user ++ pass
  pure ([0x10] ++ encodeLength (varHeader.length + payload.length) ++ varHeader ++ payload)

/-- what CONNECT.decode() leaves in the object: will QoS/retain only when the will flag is set,
    password as raw bytes -/
structure ConnectD where
  clientId : String
  keepalive : Nat
  willTopic : Option String
  willMessage : Option String
  willQoS : Option Nat
  willRetain : Option Bool
  username : Option String
  password : Option Bytes
  cleanStart : Bool
  version : Version
  deriving Repr, DecidableEq

def ConnectD.decode (packet : Bytes) : Except Err ConnectD := do
  let r ← body packet
  let (_, r) ← decodeString r
  let versionId ← first r
  let version := if versionId == v31.level then v31 else v311
  let flags ← first (r.drop 1)
  let cleanStart := (flags &&& 0x02) != 0
  let willFlag := (flags &&& 0x04) != 0
  let willQoS := (flags >>> 3) &&& 0x03
  let willRetain := (flags &&& 0x20) != 0
  let userFlag := (flags &&& 0x80) != 0
  let passFlag := (flags &&& 0x40) != 0
  let r := r.drop 2
  let keepalive ← decode16Int r
  let r := r.drop 2
  let (clientId, r) ← decodeString r
  let (wq, wr, wt, wm, r) ← if willFlag then do
      let (t, r) ← decodeString r
      let (m, r) ← decodeString r
      pure (some willQoS, some willRetain, some t, some m, r)
    else pure (none, none, none, none, r)
  let (user, r) ← if userFlag then do
      let (u, r) ← decodeString r
      pure (some u, r)
    else pure (none, r)
  let pass ← if passFlag then do
      let l ← decode16Int r
      pure (some ((r.drop 2).take l))
    else pure none
  pure { clientId, keepalive, willTopic := wt, willMessage := wm, willQoS := wq, willRetain := wr,
         username := user, password := pass, cleanStart, version }

/-! ### CONNACK -/

structure ConnackF where
  session : Bool
  resultCode : Nat
  deriving Repr, DecidableEq

def ConnackF.encode (f : ConnackF) : Except Err Bytes := do
  let s ← byte (b2n f.session)
  let rc ← byte f.resultCode
  pure ([0x20] ++ encodeLength 2 ++ [s, rc])

def ConnackF.decode (packet : Bytes) : Except Err ConnackF := do
  let r ← body packet
  let a ← first r
  let b ← first (r.drop 1)
  pure { session := (a &&& 0x01) == 0x01, resultCode := b }

/-! ### SUBSCRIBE -/

structure SubscribeF where
  msgId : Int
  topics : List (String × Nat)
  deriving Repr, DecidableEq

def encTopicsQ : List (String × Nat) → Except Err Bytes
  | [] => .ok []
  | (t, q) :: rest => do
    let e ← encodeString t
    let qb ← byte q
    let r ← encTopicsQ rest
    pure (e ++ [qb] ++ r)

def SubscribeF.encode (f : SubscribeF) : Except Err Bytes := do
  let varHeader ← encode16Int f.msgId
  let payload ← encTopicsQ f.topics
  pure ([0x82] ++ encodeLength (varHeader.length + payload.length) ++ varHeader ++ payload)

/-- the `while len(packet_remaining)` loop of SUBSCRIBE.decode; `fuel` bounds the iterations
    (each consumes at least 3 bytes, so `r.length` is enough) -/
def decTopicsQ : Nat → Bytes → Except Err (List (String × Nat))
  | 0, _ => .ok []
  | fuel + 1, r =>
    if r.length == 0 then .ok [] else do
      let (t, r) ← decodeString r
      let q ← first r
      let rest ← decTopicsQ fuel (r.drop 1)
      pure ((t, q &&& 0x03) :: rest)

def SubscribeF.decode (packet : Bytes) : Except Err SubscribeF := do
  let r ← body packet
  let msgId ← decode16Int (r.take 2)
  let topics ← decTopicsQ r.length (r.drop 2)
  pure { msgId := msgId, topics }

/-! ### SUBACK -/

structure SubackF where
  msgId : Int
  granted : List (Nat × Bool)
  deriving Repr, DecidableEq

def encGranted : List (Nat × Bool) → Except Err Bytes
  | [] => .ok []
  | (q, fl) :: rest => do
    let b ← byte (q ||| (if fl then 0x80 else 0x00))
    let r ← encGranted rest
    pure (b :: r)

def SubackF.encode (f : SubackF) : Except Err Bytes := do
  let varHeader ← encode16Int f.msgId
  let payload ← encGranted f.granted
  pure ([0x90] ++ encodeLength (varHeader.length + payload.length) ++ varHeader ++ payload)

def SubackF.decode (packet : Bytes) : Except Err SubackF := do
  let r ← body packet
  let msgId ← decode16Int r
  pure { msgId := msgId, granted := (r.drop 2).map fun b => (b &&& 0x7F, (b &&& 0x80) == 0x80) }

/-! ### UNSUBSCRIBE -/

structure UnsubscribeF where
  msgId : Int
  topics : List String
  deriving Repr, DecidableEq

def encTopics : List String → Except Err Bytes
  | [] => .ok []
  | t :: rest => do
    let e ← encodeString t
    let r ← encTopics rest
    pure (e ++ r)

def UnsubscribeF.encode (f : UnsubscribeF) : Except Err Bytes := do
  let varHeader ← encode16Int f.msgId
  let payload ← encTopics f.topics
  pure ([0xA2] ++ encodeLength (varHeader.length + payload.length) ++ varHeader ++ payload)

/-- UNSUBSCRIBE.decode's own loop: slices (no bounds check), then `.decode('utf-8')` -/
def decTopics : Nat → Bytes → Except Err (List String)
  | 0, _ => .ok []
  | fuel + 1, r =>
    if r.length == 0 then .ok [] else do
      let l ← decode16Int (r.take 2)
      match fromUtf8? ((r.drop 2).take l) with
      | none => .error .value
      | some t => do
        let rest ← decTopics fuel (r.drop (2 + l))
        pure (t :: rest)

def UnsubscribeF.decode (packet : Bytes) : Except Err UnsubscribeF := do
  let r ← body packet
  let msgId ← decode16Int (r.take 2)
  let topics ← decTopics r.length (r.drop 2)
  pure { msgId := msgId, topics }

/-! ### the five two-byte acknowledgements: UNSUBACK, PUBACK, PUBREC, PUBREL, PUBCOMP -/

/-- header byte, then `encodeLength(2)`, then the identifier -/
def encodeAck (hdr : Nat) (msgId : Int) : Except Err Bytes := do
  let varHeader ← encode16Int msgId
  pure ([hdr] ++ encodeLength varHeader.length ++ varHeader)

def encodeUNSUBACK := encodeAck 0xB0
def encodePUBACK := encodeAck 0x40
def encodePUBREC := encodeAck 0x50
def encodePUBREL := encodeAck 0x62
def encodePUBCOMP := encodeAck 0x70

/-- `decode()` of UNSUBACK/PUBACK/PUBREC/PUBCOMP: the identifier -/
def decodeAck (packet : Bytes) : Except Err Nat := do
  let r ← body packet
  decode16Int r

/-- PUBREL.decode: identifier and DUP -/
def decodePUBREL (packet : Bytes) : Except Err (Nat × Bool) := do
  let r ← body packet
  let m ← decode16Int r
  let h ← first packet
  pure (m, (h &&& 0x08) == 0x08)

/-! ### PUBLISH -/

/-- the `payload` argument as Python sees it -/
inductive Payload where
  | str (s : String)
  | bytearray (b : Bytes)
  | other                      -- any other type: PayloadTypeError
  deriving Repr, DecidableEq, Inhabited

/-- the `isinstance` cascade of PUBLISH.encode: bytearray as is, str as UTF-8, else PayloadTypeError -/
def Payload.toBytes : Payload → Except Err Bytes
  | .bytearray b => .ok b
  | .str s => .ok (utf8 s)
  | .other => .error .type

/-- the bytes of a payload given as str (UTF-8) or bytearray -/
def Payload.bytes : Payload → Bytes
  | .str s => utf8 s
  | .bytearray b => b
  | .other => []

structure PublishF where
  topic : String
  payload : Payload
  qos : Nat
  dup : Bool
  retain : Bool
  msgId : Option Int
  deriving Repr, DecidableEq

def PublishF.encode (f : PublishF) : Except Err Bytes := do
  let (h0, varHeader) ← if f.qos != 0 then do
      let h ← byte (0x30 ||| b2n f.retain ||| (f.qos <<< 1) ||| (b2n f.dup <<< 3))
      let t ← encodeString f.topic
      let m ← match f.msgId with
        | none => .error .type
        | some i => encode16Int i
      pure (h, t ++ m)
    else do
      let t ← encodeString f.topic
      pure (0x30 ||| b2n f.retain, t)
  let payload ← f.payload.toBytes
  let total := varHeader.length + payload.length
  if total > 268435455 then .error .value
  else pure ([h0] ++ encodeLength total ++ varHeader ++ payload)

/-- what PUBLISH.decode() leaves in the object (payload always bytes, msgId None at QoS 0) -/
structure PublishD where
  topic : String
  payload : Bytes
  qos : Nat
  dup : Bool
  retain : Bool
  msgId : Option Nat
  deriving Repr, DecidableEq

def PublishD.decode (packet : Bytes) : Except Err PublishD := do
  let r ← body packet
  let h ← first packet
  let dup := (h &&& 0x08) == 0x08
  let qos := (h &&& 0x06) >>> 1
  let retain := (h &&& 0x01) == 0x01
  let (topic, _) ← decodeString r
  let topicLen ← decode16Int r
  if qos != 0 then do
    let m ← decode16Int ((r.drop (topicLen + 2)).take 2)
    pure { topic, payload := r.drop (topicLen + 4), qos, dup, retain, msgId := some m }
  else
    pure { topic, payload := r.drop (topicLen + 2), qos, dup, retain, msgId := none }

end Mqtt
