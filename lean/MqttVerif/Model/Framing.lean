import MqttVerif.Model.Prim
/-
  Transcription of MQTTBaseProtocol._accumulatePacket (src/mqtt/client/base.py:303-337):
  stream reassembly. One iteration of its `while` loop is `firstPacket`; the loop is `splitAux`.
-/
namespace Mqtt

/-- `lenLen = 1; while lenLen < len(buf): if not buf[lenLen] & 0x80: break; lenLen += 1`
    counted from `buf[1:]`: the number of leading bytes with the continuation bit -/
def scanLen : Bytes → Nat
  | [] => 0
  | b :: r => if b &&& 0x80 != 0 then scanLen r + 1 else 0

/-- `i < len(buf) and buf[i] & 0x80` -/
def contAt (buf : Bytes) (i : Nat) : Bool :=
  match buf[i]? with
  | some b => b &&& 0x80 != 0
  | none => false

/-- one iteration: `some (packet, rest)` when a whole packet is buffered, `none` to wait for more -/
def firstPacket (buf : Bytes) : Option (Bytes × Bytes) :=
  if buf.length < 2 then none
  else
    let lenLen := 1 + scanLen (buf.drop 1)
    -- "We still haven't got all of the remaining length field"
    if contAt buf lenLen then none
    else
      let length := decodeLength (buf.drop 1)
      if buf.length ≥ length + lenLen + 1 then
        some (buf.take (length + lenLen + 1), buf.drop (length + lenLen + 1))
      else none

/-- the loop, bounded by fuel (every extracted packet has at least two bytes) -/
def splitAux : Nat → Bytes → List Bytes × Bytes
  | 0, buf => ([], buf)
  | f + 1, buf =>
    match firstPacket buf with
    | none => ([], buf)
    | some (p, r) =>
      let (ps, r') := splitAux f r
      (p :: ps, r')

/-- all whole packets at the head of the buffer, and what stays buffered -/
def splitPackets (buf : Bytes) : List Bytes × Bytes := splitAux buf.length buf

end Mqtt
