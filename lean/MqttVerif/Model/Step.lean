import MqttVerif.Model.Handlers
/-
  API entry points (IMQTTClientControl / IMQTTPublisher / IMQTTSubscriber), the operation alphabet
  and the step function of the model. Argument values are small sums of the Python types the
  properties mention.
-/
namespace Mqtt

/-- a topic-like argument as Python sees it -/
inductive PyStr where
  | none
  | str (s : String)
  | other                     -- any other type
  deriving Repr, DecidableEq, Inhabited

/-- a numeric argument -/
inductive PyNum where
  | none
  | int (i : Int)
  deriving Repr, DecidableEq, Inhabited

inductive VerArg where
  | v31 | v311 | bogus
  deriving Repr, DecidableEq, Inhabited

structure ConnectArgs where
  clientId : String
  keepalive : Int
  version : VerArg
  cleanStart : Bool
  willTopic : Option String := none
  willMessage : Option String := none
  willQoS : Int := 0
  willRetain : Bool := false
  username : Option String := none
  password : Option String := none
  deriving Repr, DecidableEq, Inhabited

/-- the `topics` argument of subscribe() -/
inductive SubArg where
  | str (s : String)
  | tuple (t : PyStr) (q : Int)
  | list (l : List (PyStr × Int))
  | other
  deriving Repr, DecidableEq, Inhabited

/-- the `topics` argument of unsubscribe() -/
inductive UnsubArg where
  | str (s : String)
  | list (l : List PyStr)
  | other
  deriving Repr, DecidableEq, Inhabited

inductive Op where
  | build (a : Nat)
  | sethandlers (p : Nat) (mask : Nat)
  | connect (p : Nat) (args : ConnectArgs)
  | disconnect (p : Nat)
  | publish (p : Nat) (topic : PyStr) (payload : Payload) (qos : Int) (retain : Bool)
  | subscribe (p : Nat) (arg : SubArg) (qos : Int)
  | unsubscribe (p : Nat) (arg : UnsubArg)
  | setwin (p : Nat) (n : PyNum)
  | settimeout (p : Nat) (n : PyNum)
  | setbw (p : Nat) (bw : Rat) (factor : Rat)
  | jit (v : Rat)
  | setid (v : Nat)
  | recv (p : Nat) (data : Bytes)
  | lost (p : Nat) (reason : Err)
  | fire (t : Nat)
  deriving Repr, Inhabited

/-! ### connect() -/

def verOf : VerArg → Version
  | .v31 => v31
  | .v311 => v311
  | .bogus => ⟨9, "bogus"⟩

/-- MQTTBaseProtocol._checkConnect: the first failing check raises a ValueError subclass -/
def checkConnect (a : ConnectArgs) : Bool :=
  (0 ≤ a.willQoS ∧ a.willQoS < 3) ∧
  (0 ≤ a.keepalive ∧ a.keepalive ≤ 65535) ∧
  ¬ (a.version = .v31 ∧ a.clientId.length > 23) ∧
  (a.version = .v31 ∨ a.version = .v311) ∧
  ¬ (a.willMessage.isSome ∧ a.willTopic.isNone) ∧
  ¬ (a.willMessage.isNone ∧ a.willTopic.isSome) ∧
  ¬ (a.username.isNone ∧ a.password.isSome)

def ConnectArgs.toF (a : ConnectArgs) : ConnectF :=
  { clientId := a.clientId, keepalive := a.keepalive, willTopic := a.willTopic, willMessage := a.willMessage,
    willQoS := a.willQoS.toNat, willRetain := a.willRetain, username := a.username, password := a.password,
    cleanStart := a.cleanStart, version := verOf a.version }

/-- MQTTBaseProtocol.connect → state.connect → doConnect -/
def apiConnect (p : Nat) (a : ConnectArgs) : Step :=
  Step.read fun w =>
    if !allowed w p 0 then emit (.retFail .state)
    else if !checkConnect a then emit (.retFail .value)
    else match a.toF.encode with
      | .error e => if e = .value then emit (.retFail .value) else Step.raise e
      | .ok pdu =>
        setProto p (fun pr => { pr with cleanStart := a.cleanStart, version := verOf a.version }) ;;
        write p pdu ;;
        setProto p (fun pr => { pr with state := .connecting }) ;;
        Step.read fun w =>
          let cr := w.nextCR
          let ka := a.keepalive.toNat
          callLater (if ka = 0 then 10 else ka) (.connack cr) fun tid =>
            newDfd fun d =>
              Step.mod (fun w => { w with connReqs := w.connReqs.set cr ⟨p, ka, some d, tid⟩, nextCR := cr + 1 }) ;;
              setProto p (fun pr => { pr with connReq := some cr }) ;;
              emit (.retPending d none)

/-- MQTTBaseProtocol.disconnect → state.disconnect → doDisconnect -/
def apiDisconnect (p : Nat) : Step :=
  Step.read fun w =>
    if allowed w p 1 then write p encodeDISCONNECT ;; emit (.close p) ;; emit .retNone
    else Step.raise .state

/-! ### publish() -/

def PyStr.encode : PyStr → Except Err Bytes
  | .str s => encodeString s
  | _ => .error .type

/-- PUBLISH.encode with a topic of arbitrary Python type (TypeError from `bytearray(topic, ...)`) -/
def encodePublishPy (topic : PyStr) (payload : Payload) (qos : Nat) (retain : Bool) (msgId : Option Int) :
    Except Err Bytes :=
  match topic with
  | .str s => PublishF.encode ⟨s, payload, qos, false, retain, msgId⟩
  | _ =>
    -- the header byte is computed first, then encodeString(topic) raises TypeError
    if qos != 0 then do
      let _ ← byte (0x30 ||| b2n retain ||| (qos <<< 1))
      .error .type
    else .error .type

/-- MQTTProtocol.publish → state.publish → doPublish -/
def apiPublish (p : Nat) (topic : PyStr) (payload : Payload) (qos : Int) (retain : Bool) : Step :=
  Step.read fun w =>
    if !allowed w p 4 then emit (.retFail .state)
    else if ¬ (0 ≤ qos ∧ qos < 3) then emit (.retFail .value)
    else
      let pr := w.proto p
      let mk (msgId : Nat) (dfd : Option Nat) (bs : Bytes) : Step :=
        Step.read fun w =>
          let rid := w.nextReq
          Step.mod (fun w => { w with
            reqs := w.reqs.set rid { kind := .publish, msgId := msgId, qos := qos.toNat, encoded := bs, dfd := dfd,
                                     alarm := none, initial := pr.initialT, ivValue := pr.initialT, ivK := 1,
                                     bandwith := pr.bandwith, factor := pr.factor, seq := w.nextSeq },
            nextReq := rid + 1, nextSeq := w.nextSeq + 1 }) ;;
          setEnts (fun es => es ++ [⟨w.paddr p, .queue, 0, rid⟩]) ;;
          refill p
      if qos = 0 then
        match encodePublishPy topic payload 0 retain none with
        | .error e => emit (.retFail e)
        | .ok bs => mk 0 none bs ;; emit (.retOk .none)
      else
        makeId fun i =>
          match encodePublishPy topic payload qos.toNat retain (some (i : Int)) with
          | .error e => emit (.retFail e)
          | .ok bs => newDfd fun d => mk i (some d) bs ;; emit (.retPending d (some i))

/-! ### subscribe() / unsubscribe() -/

/-- the payload loop of SUBSCRIBE.encode over arbitrary Python values -/
def encTopicsQPy : List (PyStr × Int) → Except Err Bytes
  | [] => .ok []
  | (t, q) :: rest => do
    let e ← t.encode
    let qb ← if 0 ≤ q ∧ q < 256 then .ok q.toNat else .error .value
    let r ← encTopicsQPy rest
    pure (e ++ [qb] ++ r)

def encTopicsPy : List PyStr → Except Err Bytes
  | [] => .ok []
  | t :: rest => do
    let e ← t.encode
    let r ← encTopicsPy rest
    pure (e ++ r)

/-- SUBSCRIBE.encode / UNSUBSCRIBE.encode on an already encoded payload -/
def encodeWithId (hdr : Nat) (msgId : Nat) (payload : Except Err Bytes) : Except Err Bytes := do
  let varHeader ← encode16Int msgId
  let pl ← payload
  pure ([hdr] ++ encodeLength (varHeader.length + pl.length) ++ varHeader ++ pl)

def registerSubUnsub (p : Nat) (isSub : Bool) (i : Nat) (bs : Bytes) : Step :=
  Step.read fun w =>
    let pr := w.proto p
    let rid := w.nextReq
    newDfd fun d =>
      Step.mod (fun w => { w with
        reqs := w.reqs.set rid { kind := if isSub then .subscribe else .unsubscribe, msgId := i, qos := 1, encoded := bs,
                                 dfd := some d, alarm := none, initial := pr.initialT, ivValue := pr.initialT,
                                 ivK := 1, bandwith := 1, factor := 1, seq := 0 },
        nextReq := rid + 1 }) ;;
      setEnts (fun es => Ents.insert es (w.paddr p) (if isSub then .sub else .unsub) i rid) ;;
      retrySubUnsub p rid false isSub ;;
      emit (.retPending d (some i))

/-- MQTTProtocol.subscribe → state.subscribe → doSubscribe -/
def apiSubscribe (p : Nat) (arg : SubArg) (qos : Int) : Step :=
  Step.read fun w =>
    if !allowed w p 2 then emit (.retFail .state)
    else
      let topics : Option (List (PyStr × Int)) := match arg with
        | .str s => some [(.str s, qos)]
        | .tuple t q => some [(t, q)]
        | .list l => some l
        | .other => none
      -- _checkSubscribe
      if Ents.count w.ents (w.paddr p) .sub ≥ (w.proto p).window then emit (.retFail .window)
      else match topics with
        | none => emit (.retFail .type)
        | some ts =>
          if ts.isEmpty then emit (.retFail .value)             -- a SUBSCRIBE must name at least one topic [MQTT-3.8.3-3]
          else if ts.any (fun tq => ¬ (0 ≤ tq.2 ∧ tq.2 < 3)) then emit (.retFail .value)
          else makeId fun i =>
            match encodeWithId 0x82 i (encTopicsQPy ts) with
            | .error e => emit (.retFail e)
            | .ok bs => registerSubUnsub p true i bs

/-- MQTTProtocol.unsubscribe → state.unsubscribe → doUnsubscribe (which calls makeId twice) -/
def apiUnsubscribe (p : Nat) (arg : UnsubArg) : Step :=
  Step.read fun w =>
    if !allowed w p 3 then emit (.retFail .state)
    else makeId fun _ =>
      Step.read fun w =>
      let topics : Option (List PyStr) := match arg with
        | .str s => some [.str s]
        | .list l => some l
        | .other => none
      if Ents.count w.ents (w.paddr p) .unsub ≥ (w.proto p).window then emit (.retFail .window)
      else match topics with
        | none => emit (.retFail .type)
        | some ts =>
          if ts.isEmpty then emit (.retFail .value)             -- an UNSUBSCRIBE must name at least one topic [MQTT-3.10.3-2]
          else
          makeId fun i =>
            match encodeWithId 0xA2 i (encTopicsPy ts) with
            | .error e => emit (.retFail e)
            | .ok bs => registerSubUnsub p false i bs

/-! ### setters -/

/-- MQTTBaseProtocol.setWindowSize -/
def apiSetWindow (p : Nat) (n : PyNum) : Step :=
  match n with
  | .none => Step.raise .type
  | .int n =>
    if ¬ (0 < n ∧ n ≤ Config.maxWindow) then Step.raise .value
    else setProto p (fun pr => { pr with window := min n.toNat Config.maxWindow }) ;; emit .retNone

/-- MQTTBaseProtocol.setTimeout -/
def apiSetTimeout (p : Nat) (n : PyNum) : Step :=
  match n with
  | .none => Step.raise .type
  | .int n =>
    if ¬ (1 ≤ n ∧ n ≤ Config.timeoutMaxInitial) then Step.raise .value
    else setProto p (fun pr => { pr with initialT := n.toNat }) ;; emit .retNone

/-- MQTTProtocol.setBandwith -/
def apiSetBandwith (p : Nat) (bw factor : Rat) : Step :=
  if bw ≤ 0 then Step.raise .value
  else if factor ≤ 0 then Step.raise .value
  else setProto p (fun pr => { pr with bandwith := bw, factor := factor }) ;; emit .retNone

def apiSetHandlers (p : Nat) (mask : Nat) : Step :=
  setProto p fun pr => { pr with onPublish := mask % 2 = 1, onDisc := (mask / 2) % 2 = 1, onConn := (mask / 4) % 2 = 1 }

/-! ### the step function -/

/-- reactor runs pending DelayedCall `t` now (virtual time jumps to its due time) -/
def fireTimer (t : Nat) : Step :=
  Step.read fun w =>
    match w.timers.get? t with
    | none => emit .nofire
    | some tm =>
      if tm.status = .pending then
        Step.mod (fun w => { w with now := max w.now tm.due, timers := w.timers.set t { tm with status := .called } }) ;;
        runTimer tm.kind
      else emit .nofire

def Op.handler : Op → Step
  | .build a => buildProtocol a
  | .sethandlers p m => apiSetHandlers p m
  | .connect p a => apiConnect p a
  | .disconnect p => apiDisconnect p
  | .publish p t pl q r => apiPublish p t pl q r
  | .subscribe p a q => apiSubscribe p a q
  | .unsubscribe p a => apiUnsubscribe p a
  | .setwin p n => apiSetWindow p n
  | .settimeout p n => apiSetTimeout p n
  | .setbw p b f => apiSetBandwith p b f
  | .jit v => Step.mod fun w => { w with jitter := v }
  | .setid v => Step.mod fun w => { w with nextId := v }
  | .recv p d => dataReceived p d
  | .lost p r => connectionLost p r
  | .fire t => fireTimer t

/-- entry points driven by the reactor (an escaping exception is logged by Twisted) versus API calls
    (the exception propagates to the caller) -/
def Op.isReactor : Op → Bool
  | .recv .. | .lost .. | .fire .. => true
  | _ => false

/-- one operation: run the handler; an exception that escapes is recorded as an observation -/
def step (w : World) (op : Op) : World :=
  match op.handler w with
  | (w', none) => w'
  | (w', some e) => { w' with log := w'.log ++ [if op.isReactor then .esc e else .raised e] }

def run (w : World) (ops : List Op) : World := ops.foldl step w

def World.init (profile : Nat) : World := { profile := profile }

end Mqtt
