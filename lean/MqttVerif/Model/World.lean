import MqttVerif.Model.Pdu
import MqttVerif.Model.Framing
import MqttVerif.Generated.Config
/-
  State of the operational model: one MQTTFactory, the protocols it has built, the request objects
  they share through the factory's per-address containers, reactor timers, Deferreds, virtual
  time, and the monotone observation log. See DESIGN.md section 3.
-/
namespace Mqtt

/-! ### insertion-ordered dictionaries (Python `dict`), keyed by naturals -/

abbrev Dict (α : Type) := List (Nat × α)

namespace Dict
variable {α : Type}

def get? : Dict α → Nat → Option α
  | [], _ => none
  | (k, v) :: r, key => if k = key then some v else get? r key

/-- `d[key] = v`: overwrite in place (position kept) or append -/
def set : Dict α → Nat → α → Dict α
  | [], key, v => [(key, v)]
  | (k, x) :: r, key, v => if k = key then (k, v) :: r else (k, x) :: set r key v

/-- `del d[key]` -/
def erase : Dict α → Nat → Dict α
  | [], _ => []
  | (k, x) :: r, key => if k = key then r else (k, x) :: erase r key

def contains (d : Dict α) (key : Nat) : Bool := (d.get? key).isSome
def keys (d : Dict α) : List Nat := d.map (·.1)
def values (d : Dict α) : List α := d.map (·.2)
end Dict

/-! ### values -/

inductive PState where
  | idle | connecting | connected
  deriving DecidableEq, Repr, Inhabited

inductive RKind where
  | publish | pubrel | subscribe | unsubscribe
  deriving DecidableEq, Repr, Inhabited

/-- a request object: PUBLISH / PUBREL / SUBSCRIBE / UNSUBSCRIBE with the attributes the session
    layer hangs on it (`deferred`, `alarm`, `interval`, `encoded`) -/
structure Req where
  kind : RKind
  msgId : Nat                  -- 0 stands for `None` (QoS 0 PUBLISH)
  qos : Nat
  encoded : Bytes
  dfd : Option Nat             -- `none`: the already fired Deferred of a QoS 0 publish
  alarm : Option Nat           -- timer id; `none` is Python's `None`
  initial : Nat                -- `_initialT` captured when the interval object was created
  ivValue : Nat                -- Interval._value
  ivK : Rat                    -- IntervalLinear._k
  bandwith : Rat
  factor : Rat
  seq : Nat                    -- ghost: order of acceptance by publish() (C10)
  deriving Repr, Inhabited

/-- a CONNECT request object (`connReq`), also captured by its `connectError` closure -/
structure ConnReq where
  proto : Nat
  keepalive : Nat
  dfd : Option Nat             -- `request.deferred`, set to None by `connectError`
  alarm : Nat
  deriving Repr, Inhabited

/-- a `task.LoopingCall` -/
structure Loop where
  running : Bool
  interval : Nat
  call : Option Nat
  deriving Repr, Inhabited

/-- a QoS 2 PUBLISH received and held until PUBREL -/
structure RxMsg where
  topic : String
  payload : Bytes
  qos : Nat
  dup : Bool
  retain : Bool
  msgId : Option Nat
  deriving Repr, Inhabited, DecidableEq

structure Proto where
  addr : Nat
  state : PState := .idle
  initialT : Nat := Config.timeoutInitial
  version : Version := v311
  buffer : Bytes := []
  window : Nat := 1
  cleanStart : Bool := true
  pingKeepalive : Option Nat := none      -- `_pingReq.keepalive` (attribute may be missing)
  pingTimer : Option Loop := none
  pingAlarm : Option Nat := none
  bandwith : Rat := Config.defaultBandwith
  factor : Rat := Config.defaultFactor
  onPublish : Bool := false
  onDisc : Bool := false
  onConn : Bool := false
  connReq : Option Nat := none
  lost : Bool := false                    -- ghost: `connectionLost` has been delivered
  deriving Repr

/-- what `World.proto` returns for a protocol number that was never built: a freshly constructed object (window 1, default timeouts) -/
instance : Inhabited Proto := ⟨{ addr := 0 }⟩

/-- which of the factory's per-address containers an entry sits in -/
inductive Box where
  | queue      -- queuePublishTx[addr]
  | pub        -- windowPublish[addr]
  | rel        -- windowPubRelease[addr]
  | sub        -- windowSubscribe[addr]
  | unsub      -- windowUnsubscribe[addr]
  deriving DecidableEq, Repr, Inhabited

/-- one entry of one container of one address: `container[addr][key] = request` (for the queue the key
    is unused). All containers of all addresses live in ONE list, in insertion order; a container is
    the sub-list of its entries, so Python's per-dict insertion order (which `_syncSession` and the loss
    handling iterate) is the order of that sub-list. -/
structure Ent where
  addr : Nat
  box : Box
  key : Nat
  rid : Nat
  deriving DecidableEq, Repr, Inhabited

namespace Ents
/-- `container[addr].get(key)` -/
def lookup : List Ent → Nat → Box → Nat → Option Nat
  | [], _, _, _ => none
  | e :: r, a, b, k => if e.addr = a ∧ e.box = b ∧ e.key = k then some e.rid else lookup r a b k

/-- `container[addr][key] = rid`: overwrite in place or append -/
def insert : List Ent → Nat → Box → Nat → Nat → List Ent
  | [], a, b, k, rid => [⟨a, b, k, rid⟩]
  | e :: r, a, b, k, rid => if e.addr = a ∧ e.box = b ∧ e.key = k then ⟨a, b, k, rid⟩ :: r else e :: insert r a b k rid

/-- `del container[addr][key]` -/
def remove : List Ent → Nat → Box → Nat → List Ent
  | [], _, _, _ => []
  | e :: r, a, b, k => if e.addr = a ∧ e.box = b ∧ e.key = k then r else e :: remove r a b k

/-- the entries of one container of one address, in order -/
def items : List Ent → Nat → Box → List Ent
  | [], _, _ => []
  | e :: r, a, b => if e.addr = a ∧ e.box = b then e :: items r a b else items r a b

/-- `len(container[addr])` -/
def count (es : List Ent) (a : Nat) (b : Box) : Nat := (items es a b).length

/-- `queuePublishTx[addr].popleft()`: the list without the first queue entry of the address -/
def dropFirst : List Ent → Nat → Box → List Ent
  | [], _, _ => []
  | e :: r, a, b => if e.addr = a ∧ e.box = b then r else e :: dropFirst r a b
end Ents

/-- one entry of `windowPubRx[addr]` -/
structure RxEnt where
  addr : Nat
  key : Nat
  msg : RxMsg
  deriving Repr, Inhabited

namespace Rx
def lookup : List RxEnt → Nat → Nat → Option RxMsg
  | [], _, _ => none
  | e :: r, a, k => if e.addr = a ∧ e.key = k then some e.msg else lookup r a k

def insert : List RxEnt → Nat → Nat → RxMsg → List RxEnt
  | [], a, k, m => [⟨a, k, m⟩]
  | e :: r, a, k, m => if e.addr = a ∧ e.key = k then ⟨a, k, m⟩ :: r else e :: insert r a k m

def remove : List RxEnt → Nat → Nat → List RxEnt
  | [], _, _ => []
  | e :: r, a, k => if e.addr = a ∧ e.key = k then r else e :: remove r a k
end Rx

inductive TKind where
  | connack (cr : Nat)                    -- `connectError` closure of CONNECT request `cr`
  | pingLoop (p : Nat)                    -- the LoopingCall of protocol `p`
  | pingAlarm (p : Nat)                   -- `doPingError`
  | retry (p : Nat) (rid : Nat)           -- `_publishError/_pubrelError/_subscribeError/_unsubscribeError(request)`
  | onDisc (p : Nat) (reason : Err)       -- `onDisconnection(reason)`
  deriving Repr, Inhabited, DecidableEq

inductive TStatus where
  | pending | called | cancelled
  deriving DecidableEq, Repr, Inhabited

structure Timer where
  due : Nat
  kind : TKind
  status : TStatus
  deriving Repr, Inhabited

/-- results carried by Deferreds -/
inductive Val where
  | none
  | bool (b : Bool)
  | int (n : Nat)
  | granted (g : List (Nat × Bool))
  deriving Repr, DecidableEq, Inhabited

inductive Outcome where
  | ok (v : Val)
  | fail (e : Err)
  deriving Repr, DecidableEq, Inhabited

/-- observations (the alphabet shared with the harness) -/
inductive Obs where
  | write (p : Nat) (bs : Bytes)
  | close (p : Nat)
  | abort (p : Nat)
  | retPending (d : Nat) (msgId : Option Nat)
  | retOk (v : Val)
  | retFail (e : Err)
  | retNone
  | raised (e : Err)
  | fired (d : Nat) (o : Outcome)
  | pub (p : Nat) (m : RxMsg)
  | onDisc (p : Nat) (reason : Err)
  | onConn (p : Nat)
  | esc (e : Err)
  | nofire
  deriving Repr, DecidableEq, Inhabited

structure World where
  profile : Nat := 3
  nextId : Nat := 0                -- factory.id
  ents : List Ent := []             -- queuePublishTx / windowPublish / windowPubRelease / windowSubscribe / windowUnsubscribe
  rx : List RxEnt := []             -- windowPubRx
  protos : Dict Proto := []
  nextProto : Nat := 0
  reqs : Dict Req := []
  nextReq : Nat := 0
  connReqs : Dict ConnReq := []
  nextCR : Nat := 0
  timers : Dict Timer := []
  nextTimer : Nat := 0
  nextDfd : Nat := 0
  fired : List Nat := []
  now : Nat := 0                   -- virtual time in ticks of 2^-20 s
  jitter : Rat := 0                -- what `random.random()` currently returns
  log : List Obs := []
  nextSeq : Nat := 0               -- ghost: publish() acceptance counter
  idAllocs : Nat := 0              -- ghost: number of makeId() calls
  deriving Repr, Inhabited

/-- ticks per second -/
def tickRate : Nat := 1048576

/-- `callLater` delay in seconds → ticks, rounded to the nearest tick (the virtual reactor's grid) -/
def ticks (d : Rat) : Nat := (d * tickRate + 1 / 2).floor.toNat

end Mqtt
