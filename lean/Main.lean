import MqttVerif.Model.Step
import MqttVerif.Spec.Wire
import MqttVerif.Driver.Codec
/-
  Line-protocol driver of the executable model (see harness/realworld.py for the same protocol
  spoken by the real code). One operation per input line; the observation lines of that step,
  then a line holding a single dot.
-/
open Mqtt Mqtt.Driver

def parseInt (s : String) : Option Int := s.toInt?

def parseRat (s : String) : Option Rat :=
  match s.splitOn "/" with
  | [n] => (fun (i : Int) => (i : Rat)) <$> n.toInt?
  | [n, d] => do
    let n ← n.toInt?
    let d ← d.toNat?
    if d = 0 then none else some ((n : Rat) / (d : Rat))
  | _ => none

def parsePyNum (tok : String) : PyNum :=
  match tok.toInt? with
  | some i => .int i
  | none => .none

def parsePair (item : String) : Option (PyStr × Int) :=
  match item.splitOn "," with
  | [a, b] => do
    let q ← b.toInt?
    some (parsePyStr (a.replace "=" ":"), q)
  | _ => none

def parseSubArg (tok : String) : SubArg :=
  if tok.startsWith "s:" then
    match parsePyStr tok with
    | .str s => .str s
    | _ => .other
  else if tok.startsWith "t:" then
    match parsePair (tok.drop 2).toString with
    | some (t, q) => .tuple t q
    | none => .other
  else if tok.startsWith "l:" then
    let body := (tok.drop 2).toString
    if body == "" then .list []
    else match (body.splitOn ";").mapM parsePair with
      | some l => .list l
      | none => .other
  else .other

def parseUnsubArg (tok : String) : UnsubArg :=
  if tok.startsWith "s:" then
    match parsePyStr tok with
    | .str s => .str s
    | _ => .other
  else if tok.startsWith "L:" then
    let body := (tok.drop 2).toString
    if body == "" then .list []
    else .list ((body.splitOn ";").map fun x => parsePyStr (x.replace "=" ":"))
  else .other

def parseReason (s : String) : Err :=
  if s == "lostc" then .connLost else if s == "aborted" then .connAborted else .connDone

def parseOp (toks : List String) : Option Op :=
  match toks with
  | ["build", a] => some (.build (if a == "a0" then 0 else if a == "a1" then 1 else if a == "a2" then 2 else a.toNat?.getD 9))
  | ["sethandlers", p, m] => do some (.sethandlers (← p.toNat?) (← m.toNat?))
  | "connect" :: p :: cid :: ka :: ver :: clean :: rest => do
    let p ← p.toNat?
    let cid ← parseOptStr cid
    let ka ← ka.toInt?
    let ver := if ver == "31" then VerArg.v31 else if ver == "311" then .v311 else .bogus
    let get (i : Nat) (d : String) := rest.getD i d
    some (.connect p { clientId := cid, keepalive := ka, version := ver, cleanStart := clean == "1",
                       willTopic := parseOptStr (get 0 "n"), willMessage := parseOptStr (get 1 "n"),
                       willQoS := (get 2 "0").toInt?.getD 0, willRetain := get 3 "0" == "1",
                       username := parseOptStr (get 4 "n"), password := parseOptStr (get 5 "n") })
  | ["disconnect", p] => do some (.disconnect (← p.toNat?))
  | ["publish", p, t, pl, q, r] => do
    some (.publish (← p.toNat?) (parsePyStr t) (parsePayload pl) (← q.toInt?) (r == "1"))
  | ["subscribe", p, a, q] => do some (.subscribe (← p.toNat?) (parseSubArg a) (← q.toInt?))
  | ["subscribe", p, a] => do some (.subscribe (← p.toNat?) (parseSubArg a) 0)
  | ["unsubscribe", p, a] => do some (.unsubscribe (← p.toNat?) (parseUnsubArg a))
  | ["setwin", p, n] => do some (.setwin (← p.toNat?) (parsePyNum n))
  | ["settimeout", p, n] => do some (.settimeout (← p.toNat?) (parsePyNum n))
  | ["setbw", p, b, f] => do some (.setbw (← p.toNat?) (← parseRat b) (← parseRat f))
  | ["setbw", p, b] => do some (.setbw (← p.toNat?) (← parseRat b) 2)
  | ["jit", v] => do some (.jit (← parseRat v))
  | ["setid", v] => do some (.setid (← v.toNat?))
  | ["recv", p, d] => do some (.recv (← p.toNat?) (← unhex d))
  | ["lost", p, r] => do some (.lost (← p.toNat?) (parseReason r))
  | ["lost", p] => do some (.lost (← p.toNat?) .connDone)
  | ["fire", t] => do some (.fire (← t.toNat?))
  | _ => none

def fmtVal : Val → String
  | .none => "none"
  | .bool b => if b then "b1" else "b0"
  | .int n => s!"i{n}"
  | .granted g => "g" ++ ",".intercalate (g.map fun (q, f) => s!"{q}:{if f then 1 else 0}")

def fmtOptNat : Option Nat → String
  | none => "-"
  | some n => toString n

def fmtObs : Obs → String
  | .write p bs => s!"w {p} {hex bs}"
  | .close p => s!"close {p}"
  | .abort p => s!"abort {p}"
  | .retPending d m => s!"ret pending {d} {fmtOptNat m}"
  | .retOk v => s!"ret ok {fmtVal v}"
  | .retFail e => s!"ret fail {e.name}"
  | .retNone => "ret none"
  | .raised e => s!"raised {e.name}"
  | .fired d (.ok v) => s!"fired {d} ok {fmtVal v}"
  | .fired d (.fail e) => s!"fired {d} fail {e.name}"
  | .pub p m => s!"pub {p} {hex (utf8 m.topic)} {hex m.payload} {m.qos} {b2n m.dup} {b2n m.retain} {fmtOptNat m.msgId}"
  | .onDisc p r => s!"ondisc {p} {r.name}"
  | .onConn p => s!"onconn {p}"
  | .esc e => s!"esc {e.name}"
  | .nofire => "nofire"

def fmtTimer (w : World) (tid : Nat) (t : Timer) : String :=
  let desc := match t.kind with
    | .connack cr => s!"connack:{((w.connReqs.get? cr).map ConnReq.proto).getD 0}"
    | .pingLoop p => s!"pingloop:{p}"
    | .pingAlarm p => s!"pingalarm:{p}"
    | .retry p rid =>
      let r := w.req rid
      let k := match r.kind with
        | .publish => "rpub" | .pubrel => "rrel" | .subscribe => "rsub" | .unsubscribe => "runsub"
      s!"{k}:{p}:{r.msgId}"
    | .onDisc p _ => s!"ondisc:{p}"
  s!"t{tid}@{t.due}:{desc}"

def stateLetter : PState → String
  | .idle => "I" | .connecting => "G" | .connected => "C"

/-- the factory's containers, address by address, in container order: what `queuePublishTx`, `windowPublish`, `windowPubRelease`,
    `windowSubscribe`, `windowUnsubscribe` and `windowPubRx` hold (identifier / QoS / alarm set), for the state correspondence -/
def fmtStore (w : World) : String :=
  let addrs := ((w.ents.map Ent.addr) ++ (w.rx.map RxEnt.addr)).eraseDups.mergeSort (· ≤ ·)
  let item (full : Bool) (e : Ent) : String :=
    let r := w.req e.rid
    let armed := if r.alarm.isSome then 1 else 0
    if full then s!"{r.msgId}/{r.qos}/{armed}" else s!"{e.key}/{armed}"
  let box (a : Nat) (b : Box) (full : Bool) : String := ",".intercalate ((Ents.items w.ents a b).map (item full))
  "store " ++ " ".intercalate (addrs.map fun a =>
    s!"a{a}:q={box a .queue true};pub={box a .pub true};rel={box a .rel false};sub={box a .sub false};unsub={box a .unsub false};rx=" ++
      ",".intercalate ((w.rx.filter fun x => x.addr == a).map fun x => toString x.key))

def trailer (w : World) : List String :=
  let pend := w.timers.filter fun (_, t) => t.status == .pending
  [s!"now {w.now}",
   "states " ++ String.join (w.protos.map fun (_, p) => stateLetter p.state),
   "timers " ++ " ".intercalate (pend.map fun (tid, t) => fmtTimer w tid t),
   fmtStore w]

partial def loop (h : IO.FS.Stream) (out : IO.FS.Stream) (w : World) : IO Unit := do
  let line ← h.getLine
  if line.isEmpty then return ()
  let toks := (line.trimAscii.toString.splitOn " ").filter (· != "")
  match toks with
  | [] => loop h out w
  | ["factory", p] =>
    out.putStrLn "."
    loop h out (World.init (p.toNat?.getD 3))
  | "codec" :: rest =>
    out.putStrLn (codec rest)
    out.putStrLn "."
    loop h out w
  | _ =>
    match parseOp toks with
    | none =>
      out.putStrLn "bad-op"
      out.putStrLn "."
      loop h out w
    | some op =>
      let n := w.log.length
      let w' := step w op
      for o in w'.log.drop n do
        out.putStrLn (fmtObs o)
      for l in trailer w' do
        out.putStrLn l
      out.putStrLn "."
      loop h out w'

def main : IO Unit := do
  let stdin ← IO.getStdin
  let stdout ← IO.getStdout
  loop stdin stdout (World.init 3)
  stdout.flush
