import MqttVerif.Model.Basic
import MqttVerif.Model.Prim
import MqttVerif.Model.Pdu
import MqttVerif.Spec.Wire
import MqttVerif.Proofs.Prim
import MqttVerif.Proofs.Pdu
