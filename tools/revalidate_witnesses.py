#!/venv/bin/python
# tools/revalidate_witnesses.py : for every `fixed` entry of known_findings.json, revert its fix commit in the /repo working tree
# (reverse patch; undone afterwards), run its witness scenarios on the real code and the model, and report whether the defect
# shows again (a monitor rejects the trace or real code and model diverge). A witness that no longer shows anything has gone stale
# (a later fix changed what it exercises) and must be rewritten.
import sys, json, subprocess
def run(cmd, **kw): return subprocess.run(cmd, capture_output=True, text=True, **kw)
JUDGE = r'''
import sys,json; sys.path.insert(0,"/verif/harness")
import realworld, monitors, corr
out=[]
for wfile in json.loads(sys.argv[1]):
    lines=[l.strip() for l in open("/verif/"+wfile) if l.strip() and not l.startswith("#")]
    if "realonly" in wfile or not lines or not lines[0].startswith("factory"):
        out.append((wfile,"skipped")); continue
    tr=realworld.run_scenario(lines)
    vs=sorted(set(v.prop+":"+v.sig for v in monitors.run_monitors(tr)))
    m=corr.run_model([lines])[0]
    div=None
    for i,((op,obs),mo) in enumerate(zip(tr,m)):
        if [o for o in obs if not o.startswith("now")]!=[o for o in mo if not o.startswith("now")]: div=i; break
    out.append((wfile, vs[:4], "diverges@%s"%div if div is not None else "agrees-with-model"))
print(json.dumps(out))
'''
kf = json.load(open('/verif/known_findings.json'))
for e in kf['fixed']:
    c = e['commit']
    d = run(['git', '-C', '/repo', 'diff', c, c + '~1']).stdout
    open('/tmp/rev.diff', 'w').write(d)
    if run(['git', '-C', '/repo', 'apply', '--check', '/tmp/rev.diff']).returncode != 0:
        print(e['id'], c, 'reverse patch does not apply on HEAD (later fixes touch the same lines)'); continue
    run(['git', '-C', '/repo', 'apply', '/tmp/rev.diff'])
    try:
        r = run(['/venv/bin/python', '-c', JUDGE, json.dumps(e.get('witness', []))])
        print(e['id'], c, r.stdout.strip()[:500] or ('ERR ' + r.stderr.strip()[-300:]))
    finally:
        run(['git', '-C', '/repo', 'checkout', '--', '.'])
