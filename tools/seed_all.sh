#!/bin/bash
# tools/seed_all.sh <srcdir> : for every <srcdir>/<Cxx>/<mN>/ confirm the change in a scratch worktree (verify_mutation.sh),
# then apply it to /repo, run the property's quick check, undo it, and store the change with the outcome under seeded/<Cxx>-<mN>/.
src="$1"; shift
cd /verif
for d in $src/C*/m*; do
  prop=$(basename $(dirname $d)); m=$(basename $d); id="$prop-${SEED_PREFIX:-}$m"
  [ -n "$1" ] && [[ ! " $* " =~ " $id " ]] && continue
  v=$(tools/verify_mutation.sh $d)
  case "$v" in *"demo_clean=0 applies=yes"*"85 passed"*"demo_mut=0"*) echo "$id UNCONFIRMED $v"; continue;; *"demo_clean=0 applies=yes"*"85 passed"*) ;; *) echo "$id UNCONFIRMED $v"; continue;; esac
  git -C /repo apply $d/patch.diff || { echo "$id apply failed"; continue; }
  out=$(VERIF_SEED=1 timeout 1500 ./check $prop --tier quick 2>&1); rc=$?
  git -C /repo checkout -- .
  viol=$(echo "$out" | grep -m1 '^VIOLATION')
  mkdir -p seeded/$id
  cp $d/patch.diff seeded/$id/patch.diff; cp $d/demo.py seeded/$id/demo.py
  /venv/bin/python - "$d/meta.json" "seeded/$id/meta.json" "$prop" "$v" "$rc" "$viol" <<'PY'
import json,sys
src,dst,prop,v,rc,viol=sys.argv[1:7]
m=json.load(open(src))
m.update({"property":prop,"confirmed":{"how":"tools/verify_mutation.sh in a scratch worktree of /repo HEAD","result":v.strip()},
 "check":{"cmd":"VERIF_SEED=1 ./check %s --tier quick (with the change applied to /repo, undone afterwards)"%prop,"exit":int(rc),"violation_line":viol,"caught":int(rc)==1 and bool(viol)}})
json.dump(m,open(dst,"w"),indent=1)
PY
  echo "$id rc=$rc $viol"
done
git -C /repo status --short | head
