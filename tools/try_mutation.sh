#!/bin/bash
# tools/try_mutation.sh <patch.diff> <prop> [<prop> ...] : apply the patch to /repo, run the quick checks, undo.
set -u
patch="$1"; shift
cd /repo || exit 2
git diff --quiet || { echo "/repo not clean"; exit 2; }
git apply "$patch" || { echo "patch does not apply"; exit 2; }
cd /verif
for p in "$@"; do
  out=$(VERIF_SEED=${VERIF_SEED:-1} timeout 1200 ./check "$p" --tier ${TIER:-quick} 2>&1); rc=$?
  echo "[$p] exit=$rc :: $(echo "$out" | grep -m2 'VIOLATION\|KNOWN' | tr '\n' ' ' | cut -c1-300)"
  echo "$out" | grep -A1 VIOLATION | grep -v VIOLATION | head -2 | cut -c1-400
done
git -C /repo checkout -- . 
# bring the generated config back in line with the clean tree
PYTHONDONTWRITEBYTECODE=1 /venv/bin/python /verif/harness/gen_config.py >/dev/null
