#!/bin/bash
# tools/reseed.sh [ids...] : re-confirm every kept change under seeded/<id>/ against the current /repo HEAD (scratch worktree), apply it to
# /repo, run the property's quick check, undo it, and refresh seeded/<id>/meta.json (confirmed, check).
cd /verif
for d in seeded/*/; do
  id=$(basename $d); prop=${id%%-*}
  [ -n "$1" ] && [[ ! " $* " =~ " $id " ]] && continue
  v=$(tools/verify_mutation.sh /verif/$d)
  case "$v" in *"demo_clean=0 applies=yes"*"85 passed"*"demo_mut=0"*) echo "$id UNCONFIRMED $v"; continue;; *"demo_clean=0 applies=yes"*"85 passed"*) ;; *) echo "$id UNCONFIRMED $v"; continue;; esac
  git -C /repo apply /verif/$d/patch.diff || { echo "$id apply failed"; continue; }
  out=$(VERIF_SEED=1 timeout 1500 ./check $prop --tier quick 2>&1); rc=$?
  git -C /repo checkout -- .
  viol=$(echo "$out" | grep -m1 '^VIOLATION')
  /venv/bin/python - "$d/meta.json" "$prop" "$v" "$rc" "$viol" "$(git -C /repo log --format=%h -1)" <<'PY'
import json,sys
dst,prop,v,rc,viol,head=sys.argv[1:7]
m=json.load(open(dst))
m.update({"property":prop,"confirmed":{"how":"tools/verify_mutation.sh in a scratch worktree of /repo HEAD "+head,"result":v.strip()},
 "check":{"cmd":"VERIF_SEED=1 ./check %s --tier quick (with the change applied to /repo, undone afterwards)"%prop,"exit":int(rc),"violation_line":viol,"caught":int(rc)==1 and bool(viol)}})
json.dump(m,open(dst,"w"),indent=1)
PY
  echo "$id rc=$rc $viol"
done
git -C /repo status --short | head
