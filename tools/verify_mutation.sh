#!/bin/bash
# tools/verify_mutation.sh <dir with patch.diff demo.py meta.json> : confirm in a scratch worktree that the change applies,
# the 85 baseline tests still pass, and the demonstration passes without / fails with the change.
set -u
d="$1"
wt=/tmp/vm_$$
git -C /repo worktree add -q --detach $wt HEAD || exit 2
cp /repo/src/mqtt/_version.py $wt/src/mqtt/_version.py 2>/dev/null
res=""
cd $wt
PYTHONPATH=$wt/src timeout 300 /venv/bin/python "$d/demo.py" >/dev/null 2>&1; res="$res demo_clean=$?"
if git apply "$d/patch.diff" 2>/dev/null; then
  res="$res applies=yes"
  n=$(PYTHONPATH=$wt/src timeout 600 /venv/bin/python -m pytest -q -p no:cacheprovider --timeout=900 --continue-on-collection-errors 2>&1 | tail -1)
  res="$res tests='$n'"
  PYTHONPATH=$wt/src timeout 300 /venv/bin/python "$d/demo.py" >/dev/null 2>&1; res="$res demo_mut=$?"
else
  res="$res applies=NO"
fi
cd /
git -C /repo worktree remove --force $wt
echo "$res"
