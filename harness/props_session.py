# Campaigns of the history-quantified properties C04..C19: generated scenarios are run on the
# real code (trace judged by the property's monitor) and on the compiled Lean model (observations
# compared step by step, projected on the property's alphabet).
import os, glob, hashlib, json
import realworld, corr, walker, monitors, mqttparse
from checklib import Result, ROOT
from walker import s_tok, hx, connack, ack, suback, publish_pkt, pkt

TICK = 1 << 20

# ---------------------------------------------------------------------------------------------
# projection of observation lines on a property's alphabet
# ---------------------------------------------------------------------------------------------
ALL_W = ('CONNECT', 'PUBLISH', 'PUBACK', 'PUBREC', 'PUBREL', 'PUBCOMP', 'SUBSCRIBE', 'UNSUBSCRIBE', 'PINGREQ', 'DISCONNECT',
         'CONNACK', 'SUBACK', 'UNSUBACK', 'PINGRESP', '?')
KINDS = ('connect', 'publish', 'subscribe', 'unsubscribe')
TK = ('connack', 'pingloop', 'pingalarm', 'rpub', 'rrel', 'rsub', 'runsub', 'ondisc')

def A(w=(), ret=(), fired=(), timers=(), other=()):
    return set(['w:' + x for x in w] + ['ret:' + x for x in ret] + ['fired:' + x for x in fired] + ['timers:' + x for x in timers] + list(other))

ALPHABET = {
    'C04': A(w=('CONNECT',), ret=('connect',), fired=('connect',), timers=('connack', 'ondisc'), other=('abort', 'ondisc', 'onconn', 'states', 'esc')),
    'C05': A(w=('PUBLISH', 'PUBREL'), ret=('publish',), fired=('publish',), other=('esc',)),
    'C06': A(w=('PUBACK', 'PUBREC', 'PUBCOMP'), other=('pub', 'esc')),
    'C07': A(w=('SUBSCRIBE', 'UNSUBSCRIBE'), ret=('subscribe', 'unsubscribe'), fired=('subscribe', 'unsubscribe'), other=('esc',)),
    'C08': A(w=('PUBLISH', 'PUBREL', 'SUBSCRIBE', 'UNSUBSCRIBE'), timers=('rpub', 'rrel', 'rsub', 'runsub'), other=('now', 'esc')),
    'C09': A(w=('PUBLISH', 'PUBREL'), fired=('publish',)),
    'C10': A(w=('PUBLISH',), ret=('publish',), fired=('publish',)),
    'C11': A(w=ALL_W, ret=KINDS, fired=KINDS, other=('esc',)),
    'C12': A(w=ALL_W, ret=KINDS, fired=KINDS, other=('esc',)),
    'C13': A(w=ALL_W, timers=TK, other=('esc',)),
    'C14': A(w=ALL_W, ret=KINDS + ('other',), fired=KINDS, timers=TK, other=('raised', 'abort', 'close', 'pub', 'ondisc', 'onconn', 'esc', 'states')),
    'C15': A(w=('PINGREQ',), timers=('pingloop', 'pingalarm'), other=('abort', 'now', 'esc')),
    'C16': A(fired=KINDS, other=('esc', 'pub', 'abort')),
    'C17': A(w=('PUBLISH', 'PUBREL', 'SUBSCRIBE', 'UNSUBSCRIBE'), ret=KINDS),
    'C18': A(w=ALL_W, other=('close', 'abort')),
    'C19': A(w=ALL_W, ret=KINDS + ('other',), fired=KINDS, timers=TK, other=('raised', 'abort', 'close', 'pub', 'ondisc', 'onconn', 'esc', 'states', 'now')),
    'C20': A(w=ALL_W, ret=KINDS + ('other',), fired=KINDS, timers=TK, other=('raised', 'abort', 'close', 'pub', 'ondisc', 'onconn', 'esc', 'states')),
}

API_KIND = {'connect': 'connect', 'publish': 'publish', 'subscribe': 'subscribe', 'unsubscribe': 'unsubscribe'}

FAR = 1 << 44      # ~6 months of virtual time in ticks: beyond this, float rounding of the real clock exceeds one tick

def _far(tok):
    a, rest = tok.split('@')
    due, tail = rest.split(':', 1)
    return tok if int(due) < FAR else '%s@far:%s' % (a, tail)


def project(op, lines, alpha, dkind):
    """keep the lines of `lines` that lie in the alphabet; dkind: deferred id -> kind (updated from `ret pending`)"""
    out = []
    opk = op.split()[0] if op else ''
    kind = API_KIND.get(opk, 'other')
    for l in lines:
        t = l.split()
        k = t[0]
        if k == 'w':
            b = bytes.fromhex(t[2]) if t[2] != '-' else b''
            typ = mqttparse.TYPES.get(b[0] >> 4, '?') if b else '?'
            if 'w:' + typ in alpha:
                out.append(l)
        elif k == 'ret':
            if t[1] == 'pending':
                dkind[int(t[2])] = kind
            if 'ret:' + kind in alpha:
                out.append(l)
        elif k == 'fired':
            if 'fired:' + dkind.get(int(t[1]), 'other') in alpha:
                out.append(l)
        elif k == 'timers':
            keep = [_far(x) for x in t[1:] if 'timers:' + x.split('@')[1].split(':')[1] in alpha]
            if any(a.startswith('timers:') for a in alpha):
                out.append('timers ' + ' '.join(keep))
        elif k == 'now':
            if k in alpha:
                out.append(l if int(t[1]) < FAR else 'now far')
        else:
            if k in alpha:
                out.append(l)
    return out


def first_divergence(lines, real, model, alpha):
    dk1, dk2 = {}, {}
    for i, (op, a, b) in enumerate(zip(lines, real, model)):
        pa, pb = project(op, a, alpha, dk1), project(op, b, alpha, dk2)
        if pa != pb:
            return i, pa, pb
    return None


# ---------------------------------------------------------------------------------------------
# generic campaign
# ---------------------------------------------------------------------------------------------
def _digest(x):
    return hashlib.sha1(repr(x).encode()).hexdigest()[:16]


def nontrivial(trace, alpha):
    """a trace is non-trivial if it contains an observation in the property's alphabet beyond the CONNECT handshake"""
    dk = {}
    n = 0
    for op, obs in trace[1:]:
        t = op.split()[0]
        pl = project(op, [o for o in obs if not o.startswith(('now', 'states', 'timers'))], alpha, dk)
        pl = [l for l in pl if not (l.startswith('w ') and l.split()[2][:2] == '10')]
        if t not in ('connect', 'build', 'sethandlers') and pl:
            n += 1
    return n >= 2


def corpus_scenarios(prop):
    out = []
    for path in sorted(glob.glob(os.path.join(ROOT, 'corpus', 'findings', '*.txt')) + glob.glob(os.path.join(ROOT, 'corpus', 'known', '*.txt')) + glob.glob(os.path.join(ROOT, 'corpus', prop, '*.txt'))):
        lines = [l.strip() for l in open(path).read().splitlines() if l.strip() and not l.startswith('#')]
        if lines and lines[0].startswith('factory'):
            out.append((os.path.relpath(path, ROOT), lines))
    return out


def env_ok(lines):
    """the environment assumptions every generated scenario satisfies (kept by the shrinker)"""
    addr, lost, connected = {}, set(), set()
    n = 0
    for l in lines[1:]:
        t = l.split()
        if t[0] == 'build':
            if any(a == t[1] and p not in lost for p, a in addr.items()):
                return False
            addr[n] = t[1]; n += 1
        elif t[0] in ('recv', 'lost', 'connect', 'publish', 'subscribe', 'unsubscribe', 'disconnect', 'setwin', 'settimeout', 'setbw', 'sethandlers'):
            p = int(t[1])
            if p >= n:
                return False
            if t[0] == 'recv' and p in lost:
                return False
            if t[0] == 'lost':
                if p in lost or p not in connected:
                    return False
                lost.add(p)
            if t[0] == 'connect':
                connected.add(p)
    return True


def shrink(lines, pred0, budget=400):
    """greedy delta debugging: drop ops while the violation persists and the scenario stays inside Env"""
    pred = lambda ls: env_ok(ls) and pred0(ls)
    cur = list(lines)
    n = 2
    tries = 0
    while len(cur) > 2 and tries < budget:
        chunk = max(1, (len(cur) - 1) // n)
        removed = False
        i = 1
        while i < len(cur) and tries < budget:
            cand = cur[:i] + cur[i + chunk:]
            tries += 1
            if len(cand) >= 2 and pred(cand):
                cur = cand; removed = True
            else:
                i += chunk
        if not removed:
            if chunk == 1:
                break
            n = min(len(cur) - 1, n * 2)
    return cur


def judge(prop, lines):
    tr = realworld.run_scenario(lines)
    return [v for v in monitors.run_monitors(tr, want={prop}) if v.prop == prop], tr


def run_scenarios(prop, ctx, scenarios, res, compare_model=True, label='walk'):
    """scenarios: list of (name, lines[, trace]) ; real traces are judged by the property's monitor and compared with the model"""
    alpha = ALPHABET[prop]
    traces = []
    for item in scenarios:
        name, lines = item[0], item[1]
        tr = item[2] if len(item) > 2 and item[2] is not None else realworld.run_scenario(lines)
        traces.append(tr)
        res.programs += 1
        res.evaluations += 1
        if nontrivial(tr, alpha):
            res.distinct.add(_digest([(op, project(op, obs, alpha, {})) for op, obs in tr]))
        vs = [v for v in monitors.run_monitors(tr, want={prop}) if v.prop == prop]
        seen = set()
        for v in vs:
            if v.sig in seen:
                continue
            seen.add(v.sig)
            cut = lines[:v.step + 1] if v.step >= 0 else lines
            if len(res.violations) < 40:
                def pred(ls, sig=v.sig):
                    try:
                        return any(x.sig == sig for x in judge(prop, ls)[0])
                    except Exception:
                        return False
                small = shrink(cut, pred) if len(res.violations) < 6 and not ctx.get('noshrink') else cut
                res.violations.append(dict(signature=v.sig, what='%s (%s %s, step %d)' % (v.msg, label, name, v.step), scenario=small, original_length=len(lines)))
    if compare_model and ctx['model_ok'] and scenarios:
        models = corr.run_model([it[1] for it in scenarios])
        ndiv = 0
        for (item, tr, m) in zip(scenarios, traces, models):
            d = first_divergence(item[1], [o for (_, o) in tr], m, alpha)
            if d:
                ndiv += 1
                if len(res.divergences) < 6:
                    res.divergences.append(dict(what='correspondence (%s alphabet) breaks at step %d `%s`: real %s | model %s'
                                                % (prop, d[0], item[1][d[0]][:50], d[1][:6], d[2][:6]), scenario=item[1][:d[0] + 1], name=item[0]))
        res.extra['model_scenarios_compared'] = res.extra.get('model_scenarios_compared', 0) + len(scenarios)
        res.extra['model_divergences'] = res.extra.get('model_divergences', 0) + ndiv
    return traces


def walks(ctx, n, steps, base_seed, **kw):
    out = []
    for i in range(n):
        seed = ctx['seed'] * 100003 + base_seed + i
        prof = kw.pop('profiles', None) or (3, 3, 1, 2)
        profile = prof[i % len(prof)]
        kw['profiles'] = prof
        k2 = {k: v for k, v in kw.items() if k != 'profiles'}
        k2.setdefault('allow_api_after_lost', False)
        w = walker.Walker(seed, profile=profile, **k2)
        w.run(steps)
        out.append(('seed%d' % seed, w.lines, w.trace))
    return out


def op_histogram(scenarios):
    h = {}
    for it in scenarios:
        for l in it[1][1:]:
            k = l.split()[0]
            h[k] = h.get(k, 0) + 1
    return h


def generic(prop, ctx, nq, nt, steps, rule, weights=None, extra=None, **kw):
    """corpus first, then seeded walks with the property's weights; `extra(ctx)` adds enumerated scenarios"""
    res = Result()
    res.rule = rule
    if ctx.get('replay'):
        rp = ctx['replay']
        lines = rp.get('scenario')
        if lines:
            run_scenarios(prop, dict(ctx, noshrink=True), [('replay', lines)], res, label='replay')
        return res
    corpus = corpus_scenarios(prop)
    run_scenarios(prop, ctx, corpus, res, label='corpus')
    res.extra['corpus_scenarios'] = len(corpus)
    n = nq if ctx['tier'] == 'quick' else nt
    ws = walks(ctx, n, steps, 0, weights=weights, **kw)
    run_scenarios(prop, ctx, ws, res)
    res.extra['op_histogram'] = op_histogram(ws)
    if extra is not None:
        ex = extra(ctx)
        run_scenarios(prop, ctx, ex, res, label='enumerated')
        res.extra['enumerated_scenarios'] = len(ex)
    if ws:
        res.sample(ws[0][1][:14])
    res.assumptions = ['Env: operations name existing protocols/timers; `lost p` at most once per protocol and no dataReceived after it; at most one '
                       'not-yet-lost protocol per address; jitter in [0,1); timers fire at their due time, earliest first, ties in either order; '
                       'application callbacks do not re-enter the API']
    return res


# ---------------------------------------------------------------------------------------------
# per-property configuration
# ---------------------------------------------------------------------------------------------
QUIET = dict(garbage=0, badcall=0, connect_bad=0, disconnect=0)          # keep known-finding triggers and noise out

def c04(ctx):
    def extra(ctx):
        out = []
        # all 256 return codes x both session flags, in every profile (thorough) / profile 3 (quick), both keepalive classes
        for prof in ((3,) if ctx['tier'] == 'quick' else (1, 2, 3)):
            for ka in (0, 7):
                for rc in range(256):
                    for sp in (0, 1):
                        if ctx['tier'] == 'quick' and ka == 7 and rc > 8 and rc % 16:
                            continue
                        base = ['factory %d' % prof, 'build a0', 'sethandlers 0 7', 'connect 0 %s %d 311 1' % (s_tok('c'), ka)]
                        out.append(('rc%d-%d-%d-%d' % (prof, ka, rc, sp), base + ['recv 0 %s' % hx(connack(rc, sp)), 'recv 0 %s' % hx(connack(0, 0)), 'fire 0', 'lost 0 done', 'fire 1', 'fire 2']))
        # orderings of CONNACK / timeout / loss / duplicate CONNACK
        for prof in (1, 2, 3):
            for ka in (0, 3):
                b = ['factory %d' % prof, 'build a0', 'sethandlers 0 7', 'connect 0 %s %d 31 0' % (s_tok('c'), ka)]
                C = 'recv 0 %s' % hx(connack(0, 1)); T = 'fire 0'; L = 'lost 0 lostc'
                for seq in ([C, T, L], [T, C, L], [L, T, C], [L, C, T], [C, C, L, T], [T, L], [C, L, 'fire 1', 'fire 2', 'fire 3'], ['recv 0 2002', T, 'recv 0 0000', L]):
                    out.append(('ord', b + seq + ['fire 1', 'fire 2', 'fire 3', 'fire 4']))
        return out
    return generic('C04', ctx, 250, 6000, 45,
                   'corpus of past witnesses; seeded state-aware walks biased to the handshake (connect in all profiles/versions/keepalives/session modes, CONNACK with '
                   'any code, duplicates, timer expiry, loss at every point, handler masks); enumerated: all 256 CONNACK return codes x both session-present values and '
                   'the orderings of CONNACK/timeout/loss; non-trivial = at least two observations in the property alphabet beyond the CONNECT write; distinct by hash of the projected trace',
                   weights=dict(QUIET, connect=12, connack=10, connack_bad=6, lost=8, fire=14, sethandlers=3, publish=4, subscribe=2, connect_bad=2), extra=extra)


def c05(ctx):
    def extra(ctx):
        if ctx['tier'] == 'quick':
            depth, alph_w = 4, (1,)
        else:
            depth, alph_w = 5, (1, 2)
        import itertools
        out = []
        for win in alph_w:
            base = ['factory 3', 'build a0', 'connect 0 %s 0 311 1' % s_tok('c'), 'recv 0 20020000', 'setwin 0 %d' % win]
            ops = ['publish 0 %s b:41 1 0' % s_tok('t'), 'publish 0 %s b:42 2 0' % s_tok('u')] + \
                  ['recv 0 %s' % hx(ack(f, i)) for f in (0x40, 0x50, 0x70) for i in (1, 2, 9)]
            for seq in itertools.product(range(len(ops)), repeat=depth):
                if seq[0] > 1:
                    continue
                out.append(('ex', base + [ops[i] for i in seq]))
        return out
    return generic('C05', ctx, 300, 8000, 60,
                   'corpus; seeded walks of publishes at mixed QoS with window 1..16, acknowledgements in any order / repeated / for foreign ids, timer expiries; '
                   'bounded-exhaustive: all sequences of length 4 (quick) / 5 (thorough) over {publish q1, publish q2, PUBACK/PUBREC/PUBCOMP x ids {1,2,9}} with window 1 (and 2)',
                   weights=dict(QUIET, publish=20, puback=12, pubrec=10, pubcomp=10, dupack=5, setwin=4, fire=10, lost=1, subscribe=1, unsubscribe=1, inpub=1, pubrel=1),
                   extra=extra, profiles=(3, 2, 3, 2))


def c06(ctx):
    return generic('C06', ctx, 300, 8000, 60,
                   'corpus; seeded walks of inbound PUBLISH (QoS x DUP x RETAIN, reused and distinct ids, payload 0..300 B, non-ASCII topics), PUBREL known/unknown/repeated, '
                   'interleaved exchanges, loss + rebuild (clean and persistent) at every point of an exchange',
                   weights=dict(QUIET, inpub=25, pubrel=14, lost=5, publish=3, fire=4, sethandlers=2, chunked=3), profiles=(3, 1, 3, 1, 2))


def c07(ctx):
    return generic('C07', ctx, 300, 8000, 60,
                   'corpus; seeded walks over the three argument shapes of subscribe()/two of unsubscribe(), window 1..16 changed mid-flight, SUBACK/UNSUBACK in any order/duplicated/foreign, '
                   'granted lists of length 0..3 over {0,1,2,0x80}, expiries, loss + reconnect in both session modes',
                   weights=dict(QUIET, subscribe=16, unsubscribe=14, suback=12, unsuback=10, setwin=5, fire=8, lost=4, publish=2, badcall=1), profiles=(3, 1, 3, 1))


def c08(ctx):
    def extra(ctx):
        out = []
        # k consecutive expiries of each retransmittable kind, both versions, several timeouts/bandwidths
        kmax = 12 if ctx['tier'] != 'quick' else 11
        for ver in ('311', '31'):
            for it in (1, 2, 7) if ctx['tier'] == 'quick' else (1, 2, 4, 7, 1024):
                for bw, fac in (('10000', '2'), ('8', '1'), ('3', '3/2')) if ctx['tier'] != 'quick' else (('10000', '2'), ('3', '3/2')):
                    b = ['factory 3', 'build a0', 'connect 0 %s 0 %s 1' % (s_tok('c'), ver), 'recv 0 20020000', 'setwin 0 4', 'settimeout 0 %d' % it,
                         'setbw 0 %s %s' % (bw, fac), 'jit 37/1024',
                         'publish 0 %s b:%s 1 0' % (s_tok('t'), '55' * 40), 'publish 0 %s b:42 2 0' % s_tok('u'), 'recv 0 50020002',
                         'subscribe 0 %s 1' % s_tok('s'), 'unsubscribe 0 %s' % s_tok('x')]
                    # timers are created in order: fire each chain in turn
                    sc = list(b)
                    w = realworld.RealWorld(3)
                    for l in b[1:]:
                        w.step(l)
                    for k in range(kmax):
                        for dc in sorted(w.pending_timers(), key=lambda d: (d.getTime(), d._vid)):
                            pass
                        e = w.earliest_timers()
                        if not e:
                            break
                        l = 'fire %d' % e[0]._vid
                        sc.append(l); w.step(l)
                        if k % 4 == 3:
                            l = 'jit %d/1024' % ((k * 311) % 1024)
                            sc.append(l); w.step(l)
                    out.append(('expiries-%s-%d-%s' % (ver, it, bw), sc))
        return out
    return generic('C08', ctx, 250, 6000, 70,
                   'corpus; seeded walks with frequent timer expiries over the four retransmittable kinds, both versions, initial timeouts {1,2,4,7,1024}, bandwidth/factor settings, '
                   'payload sizes, jitter changes, interleaved acknowledgements and window changes; enumerated: chains of up to 12 consecutive expiries per kind',
                   weights=dict(QUIET, fire=30, publish=12, subscribe=5, unsubscribe=5, pubrec=6, puback=3, pubcomp=3, settimeout=4, setbw=3, jit=4, setwin=2, lost=2, suback=2, unsuback=2),
                   extra=extra, keepalives=(0, 0, 0, 0, 60))


def c09(ctx):
    return generic('C09', ctx, 300, 8000, 60,
                   'corpus; seeded walks of QoS 2 publishes with PUBREC/PUBCOMP in order, out of order, duplicated; expiries of both timers; loss + persistent reconnect at each point of the exchange',
                   weights=dict(QUIET, publish=16, pubrec=14, pubcomp=12, puback=2, dupack=4, fire=14, lost=6, setwin=3, subscribe=0, unsubscribe=0, inpub=0, pubrel=0),
                   profiles=(3, 2), clean=0)


def c10(ctx):
    return generic('C10', ctx, 300, 8000, 70,
                   'corpus; seeded walks with window 1..16 changed at any time, mixes of QoS 0/1/2, deep queues, acknowledgements in any order, resumed sessions inheriting in-flight packets; '
                   'the monitor runs after every step',
                   weights=dict(QUIET, publish=26, puback=12, pubrec=8, pubcomp=8, setwin=7, fire=5, lost=4, dupack=2, subscribe=0, unsubscribe=0, inpub=0, pubrel=0),
                   profiles=(3, 2))


def _crash_points(ctx, clean, nbase, steps, seed0, weights):
    """every prefix of a base history cut by a connection loss, followed by a rebuilt protocol and further traffic"""
    out = []
    for i in range(nbase):
        seed = ctx['seed'] * 100003 + seed0 + i
        w = walker.Walker(seed, profile=(3, 2, 1)[i % 3], weights=dict(weights, lost=0, build=0), clean=clean, allow_api_after_lost=False)
        w.run(steps)
        base = w.lines
        first_conn = next((j for j, l in enumerate(base) if l.startswith('connect 0 ')), None)
        if first_conn is None:
            continue
        for cut in range(first_conn + 1, len(base), 1 if ctx['tier'] != 'quick' else 2):
            reason = ('done', 'lostc', 'aborted')[cut % 3]
            nxt_clean = clean if (cut // 3) % 2 == 0 else 1 - clean
            tail = ['lost 0 %s' % reason, 'build a0', 'sethandlers 1 7', 'publish 1 %s b:5a 1 0' % s_tok('early'),
                    'connect 1 %s 0 311 %d' % (s_tok('again'), nxt_clean), 'publish 1 %s b:5b 1 0' % s_tok('pre'), 'recv 1 20020000',
                    'publish 1 %s b:5c 2 0' % s_tok('post'), 'recv 1 %s' % hx(ack(0x40, 1)), 'recv 1 %s' % hx(ack(0x50, 2))]
            if any(l.startswith('lost') or l.startswith('build a0') and j > 1 for j, l in enumerate(base[:cut])):
                continue
            out.append(('cut%d-%d' % (seed, cut), base[:cut] + tail))
    return out


def c11(ctx):
    W = dict(QUIET, publish=18, subscribe=6, unsubscribe=5, puback=5, pubrec=7, pubcomp=3, fire=8, setwin=3, suback=2)
    def extra(ctx):
        return _crash_points(ctx, 1, 12 if ctx['tier'] == 'quick' else 150, 30, 5000, W)
    return generic('C11', ctx, 150, 4000, 60,
                   'corpus; seeded clean-session walks with losses of every reason and rebuilt protocols; crash-point sweep: every (quick: every second) prefix of base histories '
                   'cut by a loss, then a fresh protocol for the same address and further traffic',
                   weights=dict(W, lost=7), extra=extra, clean=1)


def c12(ctx):
    W = dict(QUIET, publish=18, puback=5, pubrec=8, pubcomp=3, fire=8, setwin=3, subscribe=1, unsubscribe=1)
    def extra(ctx):
        out = _crash_points(ctx, 0, 12 if ctx['tier'] == 'quick' else 150, 30, 7000, W)
        # in-flight publishes whose identifiers straddle the 65535 -> 1 wrap, lost and resumed
        for i in range(10 if ctx['tier'] == 'quick' else 100):
            seed = ctx['seed'] * 100003 + 7500 + i
            w = walker.Walker(seed, profile=(3, 2)[i % 2], weights=dict(W, lost=6, publish=24), clean=0, allow_api_after_lost=False)
            w.do('build a0'); w.addr_of[0] = 0; w.nprotos = 1
            w.do('connect 0 %s 0 311 0' % s_tok('c')); w.ever_connected.add(0); w.do('recv 0 20020000'); w.do('setwin 0 8'); w.do('setid %d' % (65531 + i % 5))
            w.run(45)
            out.append(('wrap%d' % seed, w.lines, w.trace))
        return out
    return generic('C12', ctx, 150, 4000, 70,
                   'corpus; seeded persistent-session walks with repeated losses, reconnects with cleanStart False or True, publishes before and after CONNACK; crash-point sweep over persistent histories',
                   weights=dict(W, lost=8), extra=extra, profiles=(3, 2, 3))


def c13(ctx):
    def drained(ctx):
        """settle everything, then let a long stretch of virtual time pass: silence is required"""
        out = []
        n = 40 if ctx['tier'] == 'quick' else 800
        for i in range(n):
            seed = ctx['seed'] * 100003 + 9000 + i
            w = walker.Walker(seed, profile=(3, 2, 1)[i % 3], weights=dict(QUIET), keepalives=(0,), allow_api_after_lost=False)
            w.run(45)
            # the broker answers everything it has been sent
            for p in w.live():
                for mid in list(dict.fromkeys(w.out_pub.get(p, []))):
                    w.do('recv %d %s' % (p, hx(ack(0x40, mid)))); w.do('recv %d %s' % (p, hx(ack(0x50, mid))))
                for mid in list(dict.fromkeys(w.out_pub.get(p, []) + w.out_rel.get(p, []))):
                    w.do('recv %d %s' % (p, hx(ack(0x70, mid))))
                for mid in list(dict.fromkeys(w.out_sub.get(p, []))):
                    w.do('recv %d %s' % (p, hx(suback(mid, [0]))))
                for mid in list(dict.fromkeys(w.out_unsub.get(p, []))):
                    w.do('recv %d %s' % (p, hx(ack(0xB0, mid))))
            for _ in range(40):
                e = w.world.earliest_timers()
                if not e:
                    break
                w.do('fire %d' % e[0]._vid)
            out.append(('drain%d' % seed, w.lines, w.trace))
        return out
    return generic('C13', ctx, 250, 6000, 60,
                   'corpus; seeded walks over all profiles and both session modes with the pending-timer snapshot judged after every step; drained walks: everything acknowledged, then up to 40 further '
                   'timer expiries (virtual time runs on) during which settled requests must stay silent',
                   weights=dict(garbage=0, badcall=0, connect_bad=0, disconnect=0, fire=14, lost=5), extra=drained, allow_api_after_lost=True)


def c15(ctx):
    def extra(ctx):
        out = []
        ks = (1, 2, 5) if ctx['tier'] == 'quick' else (1, 2, 5, 60, 65535)
        for k in ks:
            base = ['factory 3', 'build a0', 'sethandlers 0 7', 'connect 0 %s %d 311 1' % (s_tok('c'), k), 'recv 0 20020000']
            # timers after CONNACK: t1 ping deadline, t2 loop. Patterns of PINGRESP timing.
            for pattern in ('answer', 'never', 'late', 'twice', 'tie-alarm-first', 'tie-loop-first', 'unsolicited'):
                w = realworld.RealWorld(3)
                sc = list(base)
                for l in base[1:]:
                    w.step(l)
                def do(l):
                    sc.append(l); w.step(l)
                for period in range(20 if pattern == 'answer' else 3):
                    if pattern in ('answer', 'twice', 'unsolicited'):
                        do('recv 0 d000')
                        if pattern == 'twice':
                            do('recv 0 d000')
                    e = w.earliest_timers()
                    if not e:
                        break
                    loops = [d for d in e if 'LoopingCall' in type(d.func).__name__]
                    alarms = [d for d in e if d not in loops]
                    order = (alarms + loops) if pattern != 'tie-loop-first' else (loops + alarms)
                    if pattern == 'late' and alarms:
                        do('fire %d' % alarms[0]._vid); do('recv 0 d000')
                        for d in loops:
                            do('fire %d' % d._vid)
                    else:
                        for d in order:
                            if d in w.pending_timers():
                                do('fire %d' % d._vid)
                    if pattern == 'unsolicited':
                        do('recv 0 d000')
                do('lost 0 aborted')
                for d in w.pending_timers():
                    do('fire %d' % d._vid)
                out.append(('ka%d-%s' % (k, pattern), sc))
        return out
    return generic('C15', ctx, 200, 5000, 60,
                   'corpus; seeded walks with keepalive in {0,1,2,5,60} and PINGRESP at random points, other traffic, loss and reconnect; enumerated: per keepalive value, runs of up to 20 '
                   'periods with PINGRESP answered / never / late / twice / unsolicited and both orders of the same-instant deadline and loop timers',
                   weights=dict(QUIET, pingresp=14, fire=26, lost=3, publish=4, connack=8, puback=2), extra=extra, keepalives=(0, 1, 2, 5, 60, 2, 5), naddr=2)


def c17(ctx):
    def extra(ctx):
        out = []
        n = 20 if ctx['tier'] == 'quick' else 300
        for i in range(n):
            seed = ctx['seed'] * 100003 + 12000 + i
            start = 65530 + (i % 6)
            w = walker.Walker(seed, profile=3, weights=dict(QUIET, publish=20, subscribe=8, unsubscribe=8, puback=3, fire=2, lost=1, setwin=4), allow_api_after_lost=False)
            w.do('build a0'); w.addr_of[0] = 0; w.nprotos = 1
            w.do('connect 0 %s 0 311 0' % s_tok('c')); w.do('recv 0 20020000'); w.do('setwin 0 16'); w.do('setid %d' % start)
            w.run(40)
            out.append(('wrap%d' % seed, w.lines, w.trace))
        return out
    return generic('C17', ctx, 250, 6000, 60,
                   'corpus; seeded walks issuing requests of every kind; additionally walks started with the identifier counter placed at 65530..65535 while requests are unfinished',
                   weights=dict(QUIET, publish=16, subscribe=8, unsubscribe=8, puback=6, pubrec=4, pubcomp=4, suback=4, unsuback=4, setwin=4, lost=3, fire=4), extra=extra, naddr=2)


def c18(ctx):
    res = generic('C18', ctx, 250, 6000, 60,
                  'corpus; seeded walks in all profiles including API calls and timer expiries between disconnect()/abort and the loss report, and connect() on idle-again protocols; every write is '
                  'judged by the monitor and the complete byte stream of every transport is parsed by the strict reference decoder (Lean driver)',
                  weights=dict(garbage=1, badcall=1, connect_bad=1, disconnect=3, fire=12, lost=4, connack_bad=3), allow_api_after_lost=True, reconnect_idle_again=True)
    return res


def c16(ctx):
    def extra(ctx):
        out = []
        # every first byte with short bodies over a reduced alphabet, in each state of each profile with requests pending
        alph = [0x00, 0x01, 0x02, 0x05, 0x7f, 0x80, 0xff]
        import itertools
        bodies = [()] + [(a,) for a in alph] + [(a, b) for a in (0, 2, 0x80, 0xff) for b in (0, 1, 0x7f)]
        if ctx['tier'] != 'quick':
            bodies += list(itertools.product(alph, repeat=3)) + list(itertools.product((0, 1, 2, 0x80, 0xff), repeat=4))
        for prof in (3, 1, 2):
            for stage in ('idle', 'connecting', 'connected'):
                pre = ['factory %d' % prof, 'build a0', 'sethandlers 0 7']
                if stage != 'idle':
                    pre.append('connect 0 %s 0 311 0' % s_tok('c'))
                if stage == 'connected':
                    pre += ['recv 0 20020000', 'setwin 0 4']
                    if prof in (2, 3):
                        pre += ['publish 0 %s b:41 1 0' % s_tok('t'), 'publish 0 %s b:42 2 0' % s_tok('u')]
                    if prof in (1, 3):
                        pre += ['subscribe 0 %s 1' % s_tok('s')]
                firsts = range(256) if (ctx['tier'] != 'quick' or (prof == 3 and stage == 'connected')) else range(0, 256, 16)
                sc = list(pre)
                for fb in firsts:
                    for body in bodies:
                        sc.append('recv 0 %s' % hx(bytes((fb,) + body)))
                        if len(sc) > 400:
                            out.append(('mal', sc + ['lost 0 done'])); sc = list(pre)
                out.append(('mal', sc + ['lost 0 done']))
        for prof in (3, 1):
            pre = ['factory %d' % prof, 'build a0', 'sethandlers 0 7', 'connect 0 %s 0 311 0' % s_tok('c'), 'recv 0 20020000']
            for fb in (0x36, 0x37, 0x3E, 0x3F):
                body = b'\x00\x01t' + b'\x00\x21' + b'zz'
                out.append(('qos3', pre + ['recv 0 %s' % hx(pkt(fb, body)), 'recv 0 %s' % hx(ack(0x62, 0x21)), 'recv 0 %s' % hx(ack(0x62, 0x21)), 'lost 0 done']))
        # every valid broker packet with each single byte mutated, truncated or extended
        valid = [connack(0, 0), ack(0x40, 1), ack(0x50, 2), ack(0x70, 2), ack(0x62, 7), suback(3, [1]), ack(0xB0, 3), pkt(0xD0),
                 publish_pkt('a/ñ', b'xy', 0), publish_pkt('t', b'z', 1, mid=9), publish_pkt('t', b'z', 2, mid=7)]
        for prof in (3,) if ctx['tier'] == 'quick' else (3, 1, 2):
            pre = ['factory %d' % prof, 'build a0', 'sethandlers 0 7', 'connect 0 %s 0 311 0' % s_tok('c'), 'recv 0 20020000', 'setwin 0 4',
                   'publish 0 %s b:41 1 0' % s_tok('t'), 'publish 0 %s b:42 2 0' % s_tok('u'), 'subscribe 0 %s 1' % s_tok('s')]
            for v in valid:
                muts = [v[:k] for k in range(1, len(v))] + [v + b'\x00', v + b'\xff\xff']
                for i in range(len(v)):
                    for x in (0x00, 0x01, 0x7f, 0x80, 0xff, v[i] ^ 0x08, v[i] ^ 0x01):
                        if x != v[i]:
                            muts.append(v[:i] + bytes([x]) + v[i + 1:])
                sc = list(pre)
                for m in muts:
                    sc.append('recv 0 %s' % hx(m))
                    if len(sc) > 120:
                        out.append(('mut', sc + ['lost 0 done'])); sc = list(pre)
                out.append(('mut', sc + ['lost 0 done']))
        return out
    return generic('C16', ctx, 200, 5000, 60,
                   'corpus; seeded walks with random garbage, wrong calls and refused/reserved CONNACK codes; enumerated malformed stream: every first byte 0..255 (quick: full only for profile 3 '
                   'connected, every 16th elsewhere) x short bodies over {00,01,02,05,7f,80,ff}, and every valid broker packet with each single byte mutated, truncated or extended, '
                   'each injected in a session with requests pending',
                   weights=dict(garbage=12, badcall=3, connect_bad=2, connack_bad=5, disconnect=0, dupack=4, pingresp=4), extra=extra)


def c14(ctx):
    def extra(ctx):
        out = []
        apis = ['connect {p} %s 0 311 1' % s_tok('c'), 'disconnect {p}', 'publish {p} %s b:41 0 0' % s_tok('t'), 'publish {p} %s b:41 1 0' % s_tok('t'),
                'publish {p} %s s:41 2 1' % s_tok('t'), 'subscribe {p} %s 1' % s_tok('s'), 'subscribe {p} t:%s,2 0' % s_tok('s').replace(':', '='),
                'subscribe {p} l:%s,0 0' % s_tok('s').replace(':', '='), 'unsubscribe {p} %s' % s_tok('s'), 'unsubscribe {p} L:%s' % s_tok('s').replace(':', '=')]
        pkts = [connack(0, 0), connack(5, 0), pkt(0xD0), suback(1, [0]), ack(0xB0, 1), publish_pkt('t', b'x', 0), publish_pkt('t', b'x', 1, mid=4),
                publish_pkt('t', b'x', 2, mid=4), ack(0x62, 4), ack(0x40, 1), ack(0x50, 1), ack(0x70, 1),
                pkt(0x10, b'\x00\x04MQTT\x04\x02\x00\x00\x00\x01c'), pkt(0x82, b'\x00\x01\x00\x01a\x00'), pkt(0xA2, b'\x00\x01\x00\x01a'), pkt(0xC0), pkt(0xE0)]
        for prof in (1, 2, 3):
            situations = {
                'idle': ['factory %d' % prof, 'build a0', 'sethandlers 0 7'],
                'connecting': ['factory %d' % prof, 'build a0', 'sethandlers 0 7', 'connect 0 %s 0 311 1' % s_tok('c')],
                'connected': ['factory %d' % prof, 'build a0', 'sethandlers 0 7', 'connect 0 %s 0 311 1' % s_tok('c'), 'recv 0 20020000'],
                'idle-after-refusal': ['factory %d' % prof, 'build a0', 'sethandlers 0 7', 'connect 0 %s 0 311 1' % s_tok('c'), 'recv 0 20020005'],
                'idle-after-loss': ['factory %d' % prof, 'build a0', 'sethandlers 0 5', 'connect 0 %s 0 311 1' % s_tok('c'), 'recv 0 20020000', 'lost 0 done'],
            }
            for name, pre in situations.items():
                for a in apis:
                    out.append(('%d-%s-api' % (prof, name), pre + [a.format(p=0)]))
                if name != 'idle-after-loss':
                    for b in pkts:
                        out.append(('%d-%s-pkt' % (prof, name), pre + ['recv 0 %s' % hx(b)]))
        return out
    return generic('C14', ctx, 200, 5000, 60,
                   'enumerated exhaustively: 3 profiles x 5 situations (idle, connecting, connected, idle again after a refused CONNACK, idle again after a loss) x 10 API calls (all argument shapes) '
                   'and x 17 packet types (all 14 plus variants); plus the same probes at random points of seeded walks (wrong-state calls and packets are a standing part of every walk)',
                   weights=dict(garbage=0, connect_bad=0, disconnect=2, badcall=0), extra=extra, allow_api_after_lost=True)
