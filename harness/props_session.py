# Campaigns of the history-quantified properties C04..C19: generated scenarios are run on the
# real code (trace judged by the property's monitor) and on the compiled Lean model (observations
# compared step by step, projected on the property's alphabet).
import os, glob, hashlib, json
import realworld, corr, walker, monitors, mqttparse, longrun
from checklib import Result, ROOT
from walker import s_tok, hx, connack, ack, suback, publish_pkt, pkt

TICK = 1 << 20

# ---------------------------------------------------------------------------------------------
# projection of observation lines on a property's alphabet
# ---------------------------------------------------------------------------------------------
ALL_W = ('CONNECT', 'PUBLISH', 'PUBACK', 'PUBREC', 'PUBREL', 'PUBCOMP', 'SUBSCRIBE', 'UNSUBSCRIBE', 'PINGREQ', 'DISCONNECT',
         'CONNACK', 'SUBACK', 'UNSUBACK', 'PINGRESP', '?')
KINDS = ('connect', 'publish', 'subscribe', 'unsubscribe')
TK = ('connack', 'pingloop', 'pingalarm', 'rpub', 'rrel', 'rsub', 'runsub', 'ondisc')

def A(w=(), ret=(), fired=(), timers=(), other=()):
    return set(['w:' + x for x in w] + ['ret:' + x for x in ret] + ['fired:' + x for x in fired] + ['timers:' + x for x in timers] + list(other))

ALPHABET = {
    'C02': A(w=ALL_W),
    'C04': A(w=('CONNECT',), ret=('connect',), fired=('connect',), timers=('connack', 'ondisc'), other=('abort', 'ondisc', 'onconn', 'states', 'esc')),
    'C05': A(w=('PUBLISH', 'PUBREL'), ret=('publish',), fired=('publish',), other=('esc',)),
    'C06': A(w=('PUBACK', 'PUBREC', 'PUBCOMP'), other=('pub', 'esc')),
    'C07': A(w=('SUBSCRIBE', 'UNSUBSCRIBE'), ret=('subscribe', 'unsubscribe'), fired=('subscribe', 'unsubscribe'), other=('esc',)),
    'C08': A(w=('PUBLISH', 'PUBREL', 'SUBSCRIBE', 'UNSUBSCRIBE'), timers=('rpub', 'rrel', 'rsub', 'runsub'), other=('now', 'esc')),
    'C09': A(w=('PUBLISH', 'PUBREL'), fired=('publish',)),
    'C10': A(w=('PUBLISH',), ret=('publish',), fired=('publish',)),
    'C11': A(w=ALL_W, ret=KINDS, fired=KINDS, other=('esc',)),
    'C12': A(w=ALL_W, ret=KINDS, fired=KINDS, other=('esc',)),
    'C13': A(w=ALL_W, timers=TK, other=('esc',)),
    'C14': A(w=ALL_W, ret=KINDS + ('other',), fired=KINDS, timers=TK, other=('raised', 'abort', 'close', 'pub', 'ondisc', 'onconn', 'esc', 'states')),
    'C15': A(w=('PINGREQ',), timers=('pingloop', 'pingalarm'), other=('abort', 'now', 'esc')),
    'C16': A(fired=KINDS, other=('esc', 'pub', 'abort')),
    'C17': A(w=('PUBLISH', 'PUBREL', 'SUBSCRIBE', 'UNSUBSCRIBE'), ret=KINDS),
    'C18': A(w=ALL_W, other=('close', 'abort')),
    'C19': A(w=ALL_W, ret=KINDS + ('other',), fired=KINDS, timers=TK, other=('raised', 'abort', 'close', 'pub', 'ondisc', 'onconn', 'esc', 'states', 'now')),
    'C20': A(w=ALL_W, ret=KINDS + ('other',), fired=KINDS, timers=TK, other=('raised', 'abort', 'close', 'pub', 'ondisc', 'onconn', 'esc', 'states')),
}

API_KIND = {'connect': 'connect', 'publish': 'publish', 'subscribe': 'subscribe', 'unsubscribe': 'unsubscribe'}

FAR = 1 << 44      # ~6 months of virtual time in ticks: beyond this, float rounding of the real clock exceeds one tick

def _far(tok):
    a, rest = tok.split('@')
    due, tail = rest.split(':', 1)
    return tok if int(due) < FAR else '%s@far:%s' % (a, tail)


def project(op, lines, alpha, dkind):
    """keep the lines of `lines` that lie in the alphabet; dkind: deferred id -> kind (updated from `ret pending`)"""
    out = []
    opk = op.split()[0] if op else ''
    kind = API_KIND.get(opk, 'other')
    for l in lines:
        t = l.split()
        k = t[0]
        if k == 'w':
            b = bytes.fromhex(t[2]) if t[2] != '-' else b''
            typ = mqttparse.TYPES.get(b[0] >> 4, '?') if b else '?'
            if 'w:' + typ in alpha:
                out.append(l)
        elif k == 'ret':
            if t[1] == 'pending':
                dkind[int(t[2])] = kind
            if 'ret:' + kind in alpha:
                out.append(l)
        elif k == 'fired':
            if 'fired:' + dkind.get(int(t[1]), 'other') in alpha:
                out.append(l)
        elif k == 'timers':
            keep = [_far(x) for x in t[1:] if 'timers:' + x.split('@')[1].split(':')[1] in alpha]
            if any(a.startswith('timers:') for a in alpha):
                out.append('timers ' + ' '.join(keep))
        elif k == 'store':
            out.append(l)         # the containers themselves: compared under every property's alphabet (state correspondence)
        elif k == 'now':
            if k in alpha:
                out.append(l if int(t[1]) < FAR else 'now far')
        else:
            if k in alpha:
                out.append(l)
    return out


def first_divergence(lines, real, model, alpha):
    dk1, dk2 = {}, {}
    for i, (op, a, b) in enumerate(zip(lines, real, model)):
        pa, pb = project(op, a, alpha, dk1), project(op, b, alpha, dk2)
        if pa != pb:
            return i, pa, pb
    return None


# ---------------------------------------------------------------------------------------------
# generic campaign
# ---------------------------------------------------------------------------------------------
def _digest(x):
    return hashlib.sha1(repr(x).encode()).hexdigest()[:16]


def nontrivial(trace, alpha):
    """a trace is non-trivial if it contains an observation in the property's alphabet beyond the CONNECT handshake"""
    dk = {}
    n = 0
    for op, obs in trace[1:]:
        t = op.split()[0]
        pl = project(op, [o for o in obs if not o.startswith(('now', 'states', 'timers', 'store'))], alpha, dk)
        pl = [l for l in pl if not (l.startswith('w ') and l.split()[2][:2] == '10')]
        if t not in ('connect', 'build', 'sethandlers') and pl:
            n += 1
    return n >= 2


def corpus_scenarios(prop):
    out = []
    for path in sorted(glob.glob(os.path.join(ROOT, 'corpus', 'findings', '*.txt')) + glob.glob(os.path.join(ROOT, 'corpus', 'known', '*.txt')) + glob.glob(os.path.join(ROOT, 'corpus', prop, '*.txt'))):
        lines = [l.strip() for l in open(path).read().splitlines() if l.strip() and not l.startswith('#')]
        if lines and lines[0].startswith('factory'):
            out.append((os.path.relpath(path, ROOT), lines))
    return out


def env_ok(lines):
    """the environment assumptions every generated scenario satisfies (kept by the shrinker)"""
    addr, lost, connected = {}, set(), set()
    n = 0
    for l in lines[1:]:
        t = l.split()
        if t[0] == 'build':
            if any(a == t[1] and p not in lost for p, a in addr.items()):
                return False
            addr[n] = t[1]; n += 1
        elif t[0] in ('recv', 'lost', 'connect', 'publish', 'subscribe', 'unsubscribe', 'disconnect', 'setwin', 'settimeout', 'setbw', 'sethandlers'):
            p = int(t[1])
            if p >= n:
                return False
            if t[0] == 'recv' and p in lost:
                return False
            if t[0] == 'lost':
                if p in lost or p not in connected:
                    return False
                lost.add(p)
            if t[0] == 'connect':
                connected.add(p)
    return True


def shrink(lines, pred0, budget=400):
    """greedy delta debugging: drop ops while the violation persists and the scenario stays inside Env"""
    pred = lambda ls: env_ok(ls) and pred0(ls)
    cur = list(lines)
    n = 2
    tries = 0
    while len(cur) > 2 and tries < budget:
        chunk = max(1, (len(cur) - 1) // n)
        removed = False
        i = 1
        while i < len(cur) and tries < budget:
            cand = cur[:i] + cur[i + chunk:]
            tries += 1
            if len(cand) >= 2 and pred(cand):
                cur = cand; removed = True
            else:
                i += chunk
        if not removed:
            if chunk == 1:
                break
            n = min(len(cur) - 1, n * 2)
    return cur


BORROWED = {'C02': {('C08', 'dup-flag'), ('C08', 'first-dup'), ('C12', 'resume-dup'), ('C08', 'content'), ('C12', 'resume-content')},
            'C07': {('C08', 'content'), ('C08', 'dup-flag'), ('C08', 'first-dup')},
            # C04: "... onDisconnection ... after pending requests have been failed or preserved as the session mode demands"
            'C04': {('C11', 'not-failed'), ('C12', 'publish-failed-on-loss'), ('C13', 'timer-of-lost-connection')},
            # C16: "Pending requests are afterwards settled by the ordinary connection-loss handling, so none is left hanging"
            'C16': {('C07', 'orphan'), ('C11', 'not-failed')},
            # C15: "No keepalive activity outlives its connection."
            'C15': {('C13', 'keepalive-after-lost')}}


def judge(prop, lines):
    tr = realworld.run_scenario(lines)
    vs = [v for v in monitors.run_monitors(tr, want={prop}) if v.prop == prop]
    if prop in BORROWED:
        vs += [v for v in monitors.run_monitors(tr, want={q for q, _ in BORROWED[prop]}) if (v.prop, v.sig) in BORROWED[prop]]
    return vs, tr


def run_scenarios(prop, ctx, scenarios, res, compare_model=True, label='walk'):
    """scenarios: list of (name, lines[, trace]) ; real traces are judged by the property's monitor and compared with the model"""
    alpha = ALPHABET[prop]
    traces = []
    for item in scenarios:
        name, lines = item[0], item[1]
        tr = item[2] if len(item) > 2 and item[2] is not None else realworld.run_scenario(lines)
        traces.append(tr)
        res.programs += 1
        res.evaluations += 1
        if nontrivial(tr, alpha):
            res.distinct.add(_digest([(op, project(op, obs, alpha, {})) for op, obs in tr]))
        vs = [v for v in monitors.run_monitors(tr, want={prop}) if v.prop == prop]
        if prop in BORROWED:
            # rules of other properties' monitors that also state this property (C02: "mandatory flag bits in the first byte" includes the DUP bit
            # the version prescribes for a packet sent again)
            vs += [v for v in monitors.run_monitors(tr, want={q for q, _ in BORROWED[prop]}) if (v.prop, v.sig) in BORROWED[prop]]
        seen = set()
        for v in vs:
            if v.sig in seen:
                continue
            seen.add(v.sig)
            cut = lines[:v.step + 1] if v.step >= 0 else lines
            # at most eight witnesses per signature (so that the many instances of a known finding do not crowd out a new kind of violation)
            if sum(1 for x in res.violations if x.get('signature') == v.sig) < 8 and len(res.violations) < 200:
                def pred(ls, sig=v.sig):
                    try:
                        return any(x.sig == sig for x in judge(prop, ls)[0])
                    except Exception:
                        return False
                small = shrink(cut, pred) if sum(1 for x in res.violations if x.get('shrunk')) < 6 and not any(x.get('signature') == v.sig for x in res.violations) and not ctx.get('noshrink') else cut
                res.violations.append(dict(signature=v.sig, what='%s (%s %s, step %d)' % (v.msg, label, name, v.step), scenario=small, original_length=len(lines), shrunk=(small is not cut)))
    if compare_model and ctx['model_ok'] and scenarios:
        models = corr.run_model([it[1] for it in scenarios])
        ndiv = 0
        for (item, tr, m) in zip(scenarios, traces, models):
            d = first_divergence(item[1], [o for (_, o) in tr], m, alpha)
            if d:
                ndiv += 1
                if len(res.divergences) < 6:
                    res.divergences.append(dict(what='correspondence (%s alphabet) breaks at step %d `%s`: real %s | model %s'
                                                % (prop, d[0], item[1][d[0]][:50], d[1][:6], d[2][:6]), scenario=item[1][:d[0] + 1], name=item[0]))
        res.extra['model_scenarios_compared'] = res.extra.get('model_scenarios_compared', 0) + len(scenarios)
        res.extra['model_divergences'] = res.extra.get('model_divergences', 0) + ndiv
    return traces


def walks(ctx, n, steps, base_seed, **kw):
    out = []
    for i in range(n):
        seed = ctx['seed'] * 100003 + base_seed + i
        prof = kw.pop('profiles', None) or (3, 3, 1, 2)
        profile = prof[i % len(prof)]
        kw['profiles'] = prof
        k2 = {k: v for k, v in kw.items() if k != 'profiles'}
        k2.setdefault('allow_api_after_lost', False)
        if 'naddr' not in k2 and i % 4 == 3:
            k2['naddr'] = 2          # every fourth walk serves two broker addresses through the one factory
        w = walker.Walker(seed, profile=profile, **k2)
        w.run(steps)
        out.append(('seed%d' % seed, w.lines, w.trace))
    return out


def op_histogram(scenarios):
    h = {}
    for it in scenarios:
        for l in it[1][1:]:
            k = l.split()[0]
            h[k] = h.get(k, 0) + 1
    return h


def extend_search(prop, ctx, res, limit=6):
    """The correspondence broke but no monitor objected to any scenario as far as it went: the broken step is often only the seed of a
    violation that shows later (an orphaned timer that fires after the acknowledgement or after the loss, an entry that blocks the next
    connection). From each diverging prefix the REAL client is driven on -- timers left to expire, everything outstanding acknowledged,
    the connection lost, the address rebuilt with a clean / a persistent session -- and the property's monitor judges the longer trace.
    Real code and monitor only: no model, no verdict by comparison."""
    import checklib
    kf = checklib.known_findings()
    known = [sg for e in kf.get('open', []) if prop in e.get('properties', []) for sg in e.get('signatures', {}).get(prop, [])]
    is_known = lambda sig: any(str(sig).startswith(k) for k in known)
    if any(not is_known(v.get('signature', '')) for v in res.violations) or not res.divergences:
        return
    done = 0
    for d in res.divergences[:limit]:
        prefix = d.get('scenario')
        if not prefix or not prefix[0].startswith('factory'):
            continue
        for cont in ('drain', 'ack', 'pubrec', 'one+pubrec', 'lose', 'resume', 'fresh'):
            try:
                sc = longrun.Script(int(prefix[0].split()[1]))
                for l in prefix[1:]:
                    sc.do(l)
                w = sc.w
                gone = {int(l.split()[1]) for l in prefix if l.startswith('lost ')}
                tried = {int(l.split()[1]) for l in prefix if l.startswith('connect ')}
                live = [i for i in range(len(w.protos)) if i not in gone and i in tried]
                f = w.factory
                if cont == 'drain':
                    sc.fire_all(12)
                if cont in ('pubrec', 'one+pubrec'):
                    # only the first half of every QoS 2 exchange is acknowledged, then time passes: an orphaned PUBLISH timer shows as a
                    # PUBLISH after its PUBREL
                    if cont == 'one+pubrec':
                        sc.fire_all(1)
                    for i in live:
                        a = w.protos[i].addr
                        for r in list(f.windowPublish.get(a, {}).values()):
                            if r.qos == 2:
                                sc.do('recv %d %s' % (i, hx(ack(0x50, r.msgId))))
                    sc.fire_all(12)
                if cont == 'ack':
                    for i in live:
                        a = w.protos[i].addr
                        for r in list(f.windowPublish.get(a, {}).values()):
                            sc.do('recv %d %s' % (i, hx(ack(0x40 if r.qos == 1 else 0x50, r.msgId))))
                        for k in list(f.windowPubRelease.get(a, {}).keys()):
                            sc.do('recv %d %s' % (i, hx(ack(0x70, k))))
                        for k in list(f.windowSubscribe.get(a, {}).keys()):
                            sc.do('recv %d %s' % (i, hx(suback(k, [0]))))
                        for k in list(f.windowUnsubscribe.get(a, {}).keys()):
                            sc.do('recv %d %s' % (i, hx(ack(0xB0, k))))
                        for k in list(f.windowPubRx.get(a, {}).keys()):
                            sc.do('recv %d %s' % (i, hx(ack(0x62, k))))
                    sc.fire_all(10)
                if cont in ('lose', 'resume', 'fresh'):
                    addrs = [str(pr.addr) for pr in w.protos]      # every address served so far, also those whose protocol is already lost
                    for i in range(len(w.protos)):
                        if i not in gone and i not in tried:
                            sc.do('connect %d %s 0 311 1' % (i, s_tok('late')))      # (Env: the loss of a transport is reported after connect())
                            live.append(i)
                    for i in live:
                        sc.do('lost %d lostc' % i)
                    sc.fire_all(6)
                    if cont != 'lose':
                        for a in dict.fromkeys(addrs):
                            sc.do('build %s' % a); q = len(w.protos) - 1
                            sc.do('sethandlers %d 7' % q); sc.do('setwin %d 4' % q)
                            sc.do('connect %d %s 0 311 %d' % (q, s_tok('again'), 1 if cont == 'fresh' else 0))
                            sc.do('recv %d %s' % (q, hx(connack(0, 0 if cont == 'fresh' else 1))))
                        sc.fire_all(8)
                lines = sc.lines
            except Exception:
                lines = list(longrun.CURRENT[0].lines) if longrun.CURRENT else None
            if not lines or len(lines) <= len(prefix) or not env_ok(lines):
                continue
            try:
                vs, tr = judge(prop, lines)
            except Exception:
                continue
            done += 1
            vs = [v for v in vs if not is_known(v.sig)]
            if vs:
                v = vs[0]
                res.violations.append(dict(signature=v.sig, what='%s (continuation `%s` of the scenario on which model and code part, step %d)' % (v.msg, cont, v.step),
                                           scenario=lines[:v.step + 1] if v.step >= 0 else lines, original_length=len(lines)))
                res.extra['extension_search'] = done
                return
    res.extra['extension_search'] = done


def generic(prop, ctx, nq, nt, steps, rule, weights=None, extra=None, **kw):
    """corpus first, then seeded walks with the property's weights; `extra(ctx)` adds enumerated scenarios"""
    res = Result()
    res.rule = rule
    if ctx.get('replay'):
        rp = ctx['replay']
        lines = rp.get('scenario')
        if lines and not rp.get('realonly'):
            run_scenarios(prop, dict(ctx, noshrink=True), [('replay', lines)], res, label='replay')
        return res
    corpus = corpus_scenarios(prop)
    t0 = run_scenarios(prop, ctx, corpus, res, label='corpus')
    res.extra['corpus_scenarios'] = len(corpus)
    n = nq if ctx['tier'] == 'quick' else nt
    ws = walks(ctx, n, steps, 0, weights=weights, **kw)
    t1 = run_scenarios(prop, ctx, ws, res)
    res.extra['op_histogram'] = op_histogram(ws)
    res.all_traces = [(c[0], c[1], t) for c, t in zip(corpus, t0)] + [(w[0], w[1], t) for w, t in zip(ws, t1)]
    if extra is not None:
        ex = extra(ctx)
        t2 = run_scenarios(prop, ctx, ex, res, label='enumerated')
        res.extra['enumerated_scenarios'] = len(ex)
        res.all_traces += [(e[0], e[1], t) for e, t in zip(ex, t2)]
    lr = longrun.for_prop(prop, ctx)
    if lr:
        t3 = run_scenarios(prop, ctx, lr, res, label='long')
        res.extra['long_scenarios'] = {n: len(l) for n, l in lr}
        res.all_traces += [(e[0], e[1], t) for e, t in zip(lr, t3)]
    if ws:
        res.sample(ws[0][1][:14])
    res.assumptions = ['Env: operations name existing protocols/timers; `lost p` at most once per protocol and no dataReceived after it; at most one '
                       'not-yet-lost protocol per address; jitter in [0,1); timers fire at their due time, earliest first, ties in either order; '
                       'application callbacks do not re-enter the API']
    return res



def wrapold_walks(ctx, n, seed0, profiles=(3,), naddr=2, w1=None, w2=None, first=45, second=30):
    """the identifier counter's wrap with old requests still unfinished: requests of every kind (awaiting PUBACK, PUBREC, PUBCOMP,
    SUBACK, UNSUBACK, held back, preserved by a persistent session) are created under low identifiers, then the counter is placed
    just before the wrap (what ~65535 finished allocations would do) and new requests of every kind follow"""
    out = []
    for i in range(n):
        seed = ctx['seed'] * 100003 + seed0 + i
        W1 = dict(QUIET, build=6, connect=8, connack=10, publish=22, subscribe=8, unsubscribe=8, puback=2, pubrec=8, pubcomp=1,
                  suback=1, unsuback=1, fire=2, lost=(2 if i % 2 else 0), setwin=3, inpub=0, pubrel=0, pingresp=0, jit=0)
        W1.update(w1 or {})
        w = walker.Walker(seed, profile=profiles[i % len(profiles)], naddr=naddr, clean=(i % 3 == 0), allow_api_after_lost=False, weights=W1)
        w.run(first)
        w.do('setid %d' % (65531 + i % 5))
        W2 = dict(publish=30, subscribe=12, unsubscribe=12, puback=1, pubrec=1, pubcomp=0, suback=0, unsuback=0, lost=0, fire=1)
        W2.update(w2 or {})
        w.weights.update(W2)
        w.run(second)
        if i % 2:
            # a second lap: the requests issued around the first wrap are themselves old now (identifiers straddling 65535 -> 1 in the queue)
            w.do('setid %d' % (65529 + i % 6))
            w.run(second // 2)
        out.append(('wrapold%d' % seed, w.lines, w.trace))
    return out

# ---------------------------------------------------------------------------------------------
# per-property configuration
# ---------------------------------------------------------------------------------------------
QUIET = dict(garbage=0, badcall=0, connect_bad=0, disconnect=0)          # keep known-finding triggers and noise out

def c04(ctx):
    def extra(ctx):
        out = []
        # all 256 return codes x both session flags, in every profile (thorough) / profile 3 (quick), both keepalive classes
        for prof in ((3,) if ctx['tier'] == 'quick' else (1, 2, 3)):
            for ka in (0, 7):
                for rc in range(256):
                    for sp in (0, 1):
                        if ctx['tier'] == 'quick' and ka == 7 and rc > 8 and rc % 16:
                            continue
                        base = ['factory %d' % prof, 'build a0', 'sethandlers 0 7', 'connect 0 %s %d 311 1' % (s_tok('c'), ka)]
                        out.append(('rc%d-%d-%d-%d' % (prof, ka, rc, sp), base + ['recv 0 %s' % hx(connack(rc, sp)), 'recv 0 %s' % hx(connack(0, 0)), 'fire 0', 'lost 0 done', 'fire 1', 'fire 2']))
        # orderings of CONNACK / timeout / loss / duplicate CONNACK
        for prof in (1, 2, 3):
            for ka in (0, 3):
                b = ['factory %d' % prof, 'build a0', 'sethandlers 0 7', 'connect 0 %s %d 31 0' % (s_tok('c'), ka)]
                C = 'recv 0 %s' % hx(connack(0, 1)); T = 'fire 0'; L = 'lost 0 lostc'
                for seq in ([C, T, L], [T, C, L], [L, T, C], [L, C, T], [C, C, L, T], [T, L], [C, L, 'fire 1', 'fire 2', 'fire 3'], ['recv 0 2002', T, 'recv 0 0000', L]):
                    out.append(('ord', b + seq + ['fire 1', 'fire 2', 'fire 3', 'fire 4']))
        # one protocol object, several handshakes in a row with different keepalives: each is judged on its own (deadline = its own keepalive, or
        # 10 s for keepalive 0; a refusal or a timeout of an earlier one leaves nothing behind)
        for prof in ((3,) if ctx['tier'] == 'quick' else (1, 2, 3)):
            for ver in ('311', '31'):
                for k1 in (0, 2, 30):
                    for k2 in (0, 2, 30):
                        for k3 in ((0, 5) if ctx['tier'] != 'quick' or k1 != k2 else (0,)):
                            b = ['factory %d' % prof, 'build a0', 'sethandlers 0 7']
                            # (the retransmission timeout set by setTimeout() is another quantity: it does not move the handshake deadline)
                            b += ['settimeout 0 %d' % (1, 11, 30, 1024)[(k1 + k2 // 2 + k3) % 4]]
                            b += ['connect 0 %s %d %s 1' % (s_tok('c'), k1, ver), 'recv 0 %s' % hx(connack(5, 0))]
                            b += ['connect 0 %s %d %s 0' % (s_tok('c'), k2, ver), 'fire 1', 'fire 0', 'recv 0 %s' % hx(connack(0, 0))]
                            b += ['connect 0 %s %d %s 1' % (s_tok('c'), k3, ver), 'recv 0 %s' % hx(connack(0, 0)), 'fire 2', 'fire 3', 'lost 0 done', 'fire 4', 'fire 5']
                            out.append(('again-%d-%d-%d' % (k1, k2, k3), b))
        return out
    return generic('C04', ctx, 250, 6000, 45,
                   'corpus of past witnesses; seeded state-aware walks biased to the handshake (connect in all profiles/versions/keepalives/session modes, CONNACK with '
                   'any code, duplicates, timer expiry, loss at every point, handler masks); enumerated: all 256 CONNACK return codes x both session-present values and '
                   'the orderings of CONNACK/timeout/loss; non-trivial = at least two observations in the property alphabet beyond the CONNECT write; distinct by hash of the projected trace',
                   weights=dict(QUIET, connect=12, connack=10, connack_bad=6, lost=8, fire=14, sethandlers=3, publish=4, subscribe=2, connect_bad=2), extra=extra)


def c05(ctx):
    res = _c05(ctx)
    if not ctx.get('replay'):
        id_sweep(ctx, res, 'C05')
    return res


def _c05(ctx):
    def extra(ctx):
        if ctx['tier'] == 'quick':
            depth, alph_w = 4, (1,)
        else:
            depth, alph_w = 5, (1, 2)
        import itertools
        out = []
        for win in alph_w:
            base = ['factory 3', 'build a0', 'connect 0 %s 0 311 1' % s_tok('c'), 'recv 0 20020000', 'setwin 0 %d' % win]
            ops = ['publish 0 %s b:41 1 0' % s_tok('t'), 'publish 0 %s b:42 2 0' % s_tok('u')] + \
                  ['recv 0 %s' % hx(ack(f, i)) for f in (0x40, 0x50, 0x70) for i in (1, 2, 9)]
            for seq in itertools.product(range(len(ops)), repeat=depth):
                if seq[0] > 1:
                    continue
                out.append(('ex', base + [ops[i] for i in seq]))
        return out
    return generic('C05', ctx, 300, 8000, 60,
                   'corpus; seeded walks of publishes at mixed QoS with window 1..16, acknowledgements in any order / repeated / for foreign ids, timer expiries; '
                   'bounded-exhaustive: all sequences of length 4 (quick) / 5 (thorough) over {publish q1, publish q2, PUBACK/PUBREC/PUBCOMP x ids {1,2,9}} with window 1 (and 2)',
                   weights=dict(QUIET, publish=20, puback=12, pubrec=10, pubcomp=10, dupack=5, setwin=4, fire=10, lost=1, subscribe=1, unsubscribe=1, inpub=1, pubrel=1),
                   extra=extra, profiles=(3, 2, 3, 2))


def id_sweep(ctx, res, prop):
    """every packet identifier, 1..65535, in one segment per packet kind (real code only -- the model's receive loop is quadratic in the
    segment length -- against expectations computed here from the property text): inbound PUBLISH at QoS 1 is acknowledged with PUBACK under
    the identifier it carries and delivered once; at QoS 2 it is answered with PUBREC, and the PUBREL releases exactly that message once and
    is answered with PUBCOMP; an acknowledgement settles the request that carries its identifier and no other, whatever the other 65534 are"""
    ids = list(range(1, 65536))
    H = lambda i: '%04x' % i
    for ver in (('311',) if ctx['tier'] == 'quick' else ('311', '31')):
        pre = ['factory 3', 'build a0', 'sethandlers 0 7', 'connect 0 %s 0 %s 1' % (s_tok('c'), ver), 'recv 0 20020000', 'setwin 0 16']
        if prop == 'C06':
            steps = [('recv 0 ' + hx(b''.join(publish_pkt('t', b'', 1, mid=i) for i in ids)),
                      [x for i in ids for x in ('w 0 4002' + H(i), 'pub 0 74 - 1 0 0 %d' % i)]),
                     ('recv 0 ' + hx(b''.join(publish_pkt('u', b'\x07', 2, mid=i) for i in ids)), ['w 0 5002' + H(i) for i in ids]),
                     ('recv 0 ' + hx(b''.join(ack(0x62, i) for i in reversed(ids))),
                      [x for i in reversed(ids) for x in ('pub 0 75 07 2 0 0 %d' % i, 'w 0 7002' + H(i))]),
                     ('recv 0 ' + hx(b''.join(ack(0x62, i) for i in ids)), ['w 0 7002' + H(i) for i in ids])]
        else:
            pre += ['publish 0 %s b:41 1 0' % s_tok('a'), 'publish 0 %s b:42 2 0' % s_tok('b'), 'publish 0 %s b:43 2 0' % s_tok('c'), 'recv 0 50020003',
                    'subscribe 0 %s 1' % s_tok('s'), 'unsubscribe 0 %s' % s_tok('u')]
            # identifiers: publishes 1, 2, 3 (3 in the release phase), subscribe 4, unsubscribe 6 (it draws two)
            rel = '62' if ver == '311' else '62'
            steps = [('recv 0 ' + hx(b''.join(ack(0x40, i) for i in ids)), ['fired 1 ok i1']),
                     ('recv 0 ' + hx(b''.join(ack(0x50, i) for i in ids)), ['w 0 %s020002' % rel]),
                     ('recv 0 ' + hx(b''.join(ack(0x70, i) for i in ids)), ['fired 2 ok i2', 'fired 3 ok i3']),
                     ('recv 0 ' + hx(b''.join(ack(0xB0, i) for i in ids)), ['fired 5 ok i6']),
                     ('recv 0 ' + hx(b''.join(suback(i, [1]) for i in ids)), ['fired 4 ok g1'])]
        tr = realworld.run_scenario(pre + [l for l, _ in steps])
        for (line, want), (op, obs) in zip(steps, tr[len(pre):]):
            got = [o for o in obs if o.split()[0] in ('w', 'pub', 'fired', 'esc', 'abort')]
            res.evaluations += 1; res.programs += 1
            if prop != 'C06' and want and want[0].startswith('fired') and got and got[0].startswith('fired'):
                # the value a SUBACK Deferred carries is printed by the harness in its own format: compare outcome and Deferred only
                got = [' '.join(g.split()[:3]) for g in got]; want = [' '.join(g.split()[:3]) for g in want]
            if got != want:
                k = next((j for j, (a, b) in enumerate(zip(got, want)) if a != b), min(len(got), len(want)))
                res.violations.append(dict(signature='%s id-sweep' % prop, scenario=pre + [l[:60] + '...' for l, _ in steps],
                                           what='%s: with every identifier 1..65535 in one segment (%s..., version %s) the client did %d things, expected %d; first difference at %d: got %s, expected %s'
                                                % (prop, line[:16], ver, len(got), len(want), k, got[k:k + 2], want[k:k + 2])))
                break
    res.extra['identifier_sweeps'] = True


def c06(ctx):
    res = _c06(ctx)
    if not ctx.get('replay'):
        id_sweep(ctx, res, 'C06')
    return res


def _c06(ctx):
    return generic('C06', ctx, 300, 8000, 60,
                   'corpus; seeded walks of inbound PUBLISH (QoS x DUP x RETAIN, reused and distinct ids, payload 0..300 B, non-ASCII topics), PUBREL known/unknown/repeated, '
                   'interleaved exchanges, loss + rebuild (clean and persistent) at every point of an exchange',
                   weights=dict(QUIET, inpub=25, pubrel=14, lost=5, publish=3, fire=4, sethandlers=2, chunked=3), profiles=(3, 1, 3, 1, 2))


def _c07(ctx):
    def extra(ctx):
        # calls that pass the argument checks but cannot be encoded (a topic of 65536 UTF-8 bytes) are not accepted calls: they must leave
        # nothing behind - the window still admits `win` real requests, loss settles the real ones, the next connection starts clean
        out = []
        long_s = s_tok('é' * 32768)
        long_l = 'l:%s,1;%s,0' % (s_tok('ok').replace(':', '='), long_s.replace(':', '='))
        long_u = 'L:%s;%s' % (s_tok('ok').replace(':', '='), long_s.replace(':', '='))
        for prof in (3, 1):
            for win in (1, 2):
                for clean in (0, 1):
                    for shape in (0, 1):
                        b = ['factory %d' % prof, 'build a0', 'sethandlers 0 7', 'connect 0 %s 0 311 %d' % (s_tok('c'), clean), 'recv 0 20020000', 'setwin 0 %d' % win]
                        badsub = 'subscribe 0 %s 1' % long_s if shape == 0 else 'subscribe 0 %s 0' % long_l
                        badun = 'unsubscribe 0 %s' % (long_s if shape == 0 else long_u)
                        sc = b + [badsub, badun]
                        sc += ['subscribe 0 %s 1' % s_tok('a/%d' % k) for k in range(win + 1)]
                        sc += ['unsubscribe 0 %s' % s_tok('b/%d' % k) for k in range(win + 1)]
                        sc += [badsub, badun, 'lost 0 lostc', 'build a0', 'sethandlers 1 7', 'connect 1 %s 0 311 %d' % (s_tok('c'), clean), 'recv 1 20020000', 'setwin 1 %d' % win]
                        sc += ['subscribe 1 %s 2' % s_tok('z/%d' % k) for k in range(win + 1)]
                        sc += ['unsubscribe 1 %s' % s_tok('y/%d' % k) for k in range(win + 1)]
                        sc += ['lost 1 done']
                        out.append(('unencodable-%d-%d-%d-%d' % (prof, win, clean, shape), sc))
        return out
    return generic('C07', ctx, 300, 8000, 60,
                   'corpus; seeded walks over the three argument shapes of subscribe()/two of unsubscribe(), window 1..16 changed mid-flight, SUBACK/UNSUBACK in any order/duplicated/foreign, '
                   'granted lists of length 0..3 over {0,1,2,0x80}, expiries, loss + reconnect in both session modes; enumerated: calls whose topics cannot be encoded (65536 UTF-8 bytes, plain and in '
                   'a list) before and between window-filling real calls, then loss and a second connection', extra=extra,
                   weights=dict(QUIET, subscribe=16, unsubscribe=14, suback=12, unsuback=10, setwin=5, fire=8, lost=4, publish=2, badcall=1), profiles=(3, 1, 3, 1))


def c08(ctx):
    res = _c08(ctx)
    if not ctx.get('replay'):
        # setTimeout() takes any number between 1 and 1024, not only integers (the model's timeouts are integers: real code and monitor only):
        # no repeat of a packet comes earlier than the timeout in force when it was first sent
        scen = []
        for ver in ('311', '31'):
            for t in ('11/4', '3/2', '1023/2', '5/4'):
                L = longrun.Script(3)
                try:
                    L.do('build a0'); L.do('sethandlers 0 7'); L.do('connect 0 %s 0 %s 1' % (s_tok('c'), ver)); L.do('recv 0 20020000'); L.do('setwin 0 8')
                    L.do('settimeout 0 %s' % t); L.do('jit 3/64')
                    for i in range(4):
                        L.do('publish 0 %s b:4%d %d 0' % (s_tok('f%d' % i), i, 1 + i % 2))
                    L.do('subscribe 0 %s 1' % s_tok('s')); L.do('unsubscribe 0 %s' % s_tok('u'))
                    L.do('recv 0 %s' % hx(ack(0x50, 2)))
                    for k in range(14):
                        L.fire_all(1)
                        if k == 6:
                            L.do('jit 61/64')
                except Exception:
                    pass
                scen.append(('fractional-timeout-%s-%s' % (ver, t), list(L.lines)))
        run_scenarios('C08', ctx, scen, res, compare_model=False, label='fractional timeout (python-only oracle)')
        res.extra['fractional_timeout_scenarios'] = len(scen)
    return res


def _c08(ctx):
    def extra(ctx):
        out = []
        # k consecutive expiries of each retransmittable kind, both versions, several timeouts/bandwidths
        kmax = 12 if ctx['tier'] != 'quick' else 11
        for ver in ('311', '31'):
            for it in (1, 2, 7) if ctx['tier'] == 'quick' else (1, 2, 4, 7, 1024):
                for bw, fac in (('10000', '2'), ('8', '1'), ('3', '3/2')) if ctx['tier'] != 'quick' else (('10000', '2'), ('3', '3/2')):
                    b = ['factory 3', 'build a0', 'connect 0 %s 0 %s 1' % (s_tok('c'), ver), 'recv 0 20020000', 'setwin 0 4', 'settimeout 0 %d' % it,
                         'setbw 0 %s %s' % (bw, fac), 'jit 37/1024',
                         'publish 0 %s b:%s 1 0' % (s_tok('t'), '55' * 40), 'publish 0 %s b:42 2 0' % s_tok('u'), 'recv 0 50020002',
                         'subscribe 0 %s 1' % s_tok('s'), 'unsubscribe 0 %s' % s_tok('x')]
                    # timers are created in order: fire each chain in turn
                    sc = list(b)
                    w = realworld.RealWorld(3)
                    for l in b[1:]:
                        w.step(l)
                    for k in range(kmax):
                        for dc in sorted(w.pending_timers(), key=lambda d: (d.getTime(), d._vid)):
                            pass
                        e = w.earliest_timers()
                        if not e:
                            break
                        l = 'fire %d' % e[0]._vid
                        sc.append(l); w.step(l)
                        if k % 4 == 3:
                            l = 'jit %d/1024' % ((k * 311) % 1024)
                            sc.append(l); w.step(l)
                    out.append(('expiries-%s-%d-%s' % (ver, it, bw), sc))
        # setters while a large message is unacknowledged: the estimate in force when the message was accepted keeps governing its repeats
        # (a raised bandwidth, a lowered timeout or a new window must not make the gaps of a message already in flight shrink)
        for ver in ('311', '31'):
            for q in (1, 2):
                for setter in ('setbw 0 1000000 2', 'setbw 0 10000 1/2', 'settimeout 0 1', 'setwin 0 1'):
                    L = longrun.Script(3)
                    try:
                        L.do('build a0'); L.do('sethandlers 0 7'); L.do('connect 0 %s 0 %s 1' % (s_tok('c'), ver)); L.do('recv 0 20020000')
                        L.do('setwin 0 3'); L.do('settimeout 0 4'); L.do('setbw 0 10000 2'); L.do('jit 1/8')
                        L.do('publish 0 %s b:%s %d 0' % (s_tok('big'), '5a' * 30000, q))
                        L.do('publish 0 %s b:41 1 0' % s_tok('small'))
                        L.fire_all(2)
                        L.do(setter)
                        L.do('recv 0 %s' % hx(ack(0x40, 2)))
                        L.fire_all(5)
                        L.do('recv 0 %s' % hx(ack(0x40 if q == 1 else 0x50, 1)))
                        L.fire_all(3)
                    except Exception:
                        pass
                    out.append(('setter-midflight-%s-%d-%s' % (ver, q, setter.split()[0]), list(L.lines)))
        return out
    return generic('C08', ctx, 250, 6000, 70,
                   'corpus; seeded walks with frequent timer expiries over the four retransmittable kinds, both versions, initial timeouts {1,2,4,7,1024}, bandwidth/factor settings, '
                   'payload sizes, jitter changes, interleaved acknowledgements and window changes; enumerated: chains of up to 12 consecutive expiries per kind',
                   weights=dict(QUIET, fire=30, publish=12, subscribe=5, unsubscribe=5, pubrec=6, puback=3, pubcomp=3, settimeout=4, setbw=3, jit=4, setwin=2, lost=2, suback=2, unsuback=2),
                   extra=extra, keepalives=(0, 0, 0, 0, 60))


def c09(ctx):
    def extra(ctx):
        # exchanges left in the PUBREL phase while the identifier counter wraps: the identifier is not free until PUBCOMP
        return wrapold_walks(ctx, 16 if ctx['tier'] == 'quick' else 300, 9000, profiles=(3, 2), naddr=1,
                             w1=dict(subscribe=0, unsubscribe=0, pubrec=14, puback=0, pubcomp=0, fire=4), w2=dict(subscribe=0, unsubscribe=0, publish=40, fire=3))
    return generic('C09', ctx, 300, 8000, 60,
                   'corpus; seeded walks of QoS 2 publishes with PUBREC/PUBCOMP in order, out of order, duplicated; expiries of both timers; loss + persistent reconnect at each point of the exchange; '
                   'walks in which exchanges wait for PUBCOMP while the identifier counter is placed just before its wrap and further publishes follow', extra=extra,
                   weights=dict(QUIET, publish=16, pubrec=14, pubcomp=12, puback=2, dupack=4, fire=14, lost=6, setwin=3, subscribe=0, unsubscribe=0, inpub=0, pubrel=0),
                   profiles=(3, 2), clean=0)


def c10(ctx):
    return generic('C10', ctx, 300, 8000, 70,
                   'corpus; seeded walks with window 1..16 changed at any time, mixes of QoS 0/1/2, deep queues, acknowledgements in any order, resumed sessions inheriting in-flight packets; '
                   'the monitor runs after every step',
                   weights=dict(QUIET, publish=26, puback=12, pubrec=8, pubcomp=8, setwin=7, fire=5, lost=4, dupack=2, subscribe=0, unsubscribe=0, inpub=0, pubrel=0),
                   profiles=(3, 2))


def _crash_points(ctx, clean, nbase, steps, seed0, weights):
    """every prefix of a base history cut by a connection loss, followed by a rebuilt protocol and further traffic"""
    out = []
    for i in range(nbase):
        seed = ctx['seed'] * 100003 + seed0 + i
        w = walker.Walker(seed, profile=(3, 2, 1)[i % 3], weights=dict(weights, lost=0, build=0), clean=clean, allow_api_after_lost=False)
        w.run(steps)
        base = w.lines
        first_conn = next((j for j, l in enumerate(base) if l.startswith('connect 0 ')), None)
        if first_conn is None:
            continue
        for cut in range(first_conn + 1, len(base), 1 if ctx['tier'] != 'quick' else 2):
            reason = ('done', 'lostc', 'aborted')[cut % 3]
            nxt_clean = clean if (cut // 3) % 2 == 0 else 1 - clean
            tail = ['lost 0 %s' % reason, 'build a0', 'sethandlers 1 7', 'publish 1 %s b:5a 1 0' % s_tok('early'),
                    'connect 1 %s 0 311 %d' % (s_tok('again'), nxt_clean), 'publish 1 %s b:5b 1 0' % s_tok('pre'), 'recv 1 20020000',
                    'publish 1 %s b:5c 2 0' % s_tok('post'), 'recv 1 %s' % hx(ack(0x40, 1)), 'recv 1 %s' % hx(ack(0x50, 2))]
            if any(l.startswith('lost') or l.startswith('build a0') and j > 1 for j, l in enumerate(base[:cut])):
                continue
            out.append(('cut%d-%d' % (seed, cut), base[:cut] + tail))
    return out


def c11(ctx):
    W = dict(QUIET, publish=18, subscribe=6, unsubscribe=5, puback=5, pubrec=7, pubcomp=3, fire=8, setwin=3, suback=2)
    def extra(ctx):
        return _crash_points(ctx, 1, 12 if ctx['tier'] == 'quick' else 150, 30, 5000, W)
    return generic('C11', ctx, 150, 4000, 60,
                   'corpus; seeded clean-session walks with losses of every reason and rebuilt protocols; crash-point sweep: every (quick: every second) prefix of base histories '
                   'cut by a loss, then a fresh protocol for the same address and further traffic',
                   weights=dict(W, lost=7), extra=extra, clean=1)


def c12(ctx):
    W = dict(QUIET, publish=18, puback=5, pubrec=8, pubcomp=3, fire=8, setwin=3, subscribe=1, unsubscribe=1)
    def extra(ctx):
        out = _crash_points(ctx, 0, 12 if ctx['tier'] == 'quick' else 150, 30, 7000, W)
        # in-flight publishes whose identifiers straddle the 65535 -> 1 wrap, lost and resumed
        for i in range(10 if ctx['tier'] == 'quick' else 100):
            seed = ctx['seed'] * 100003 + 7500 + i
            w = walker.Walker(seed, profile=(3, 2)[i % 2], weights=dict(W, lost=6, publish=24), clean=0, allow_api_after_lost=False)
            w.do('build a0'); w.addr_of[0] = 0; w.nprotos = 1
            w.do('connect 0 %s 0 311 0' % s_tok('c')); w.ever_connected.add(0); w.do('recv 0 20020000'); w.do('setwin 0 8'); w.do('setid %d' % (65531 + i % 5))
            w.run(45)
            out.append(('wrap%d' % seed, w.lines, w.trace))
        return out
    return generic('C12', ctx, 150, 4000, 70,
                   'corpus; seeded persistent-session walks with repeated losses, reconnects with cleanStart False or True, publishes before and after CONNACK; crash-point sweep over persistent histories',
                   weights=dict(W, lost=8), extra=extra, profiles=(3, 2, 3))


def _c13(ctx):
    def drained(ctx):
        """settle everything, then let a long stretch of virtual time pass: silence is required"""
        out = []
        n = 40 if ctx['tier'] == 'quick' else 800
        for i in range(n):
            seed = ctx['seed'] * 100003 + 9000 + i
            w = walker.Walker(seed, profile=(3, 2, 1)[i % 3], weights=dict(QUIET), keepalives=(0,), allow_api_after_lost=False)
            w.run(45)
            # the broker answers everything it has been sent
            for p in w.live():
                for mid in list(dict.fromkeys(w.out_pub.get(p, []))):
                    w.do('recv %d %s' % (p, hx(ack(0x40, mid)))); w.do('recv %d %s' % (p, hx(ack(0x50, mid))))
                for mid in list(dict.fromkeys(w.out_pub.get(p, []) + w.out_rel.get(p, []))):
                    w.do('recv %d %s' % (p, hx(ack(0x70, mid))))
                for mid in list(dict.fromkeys(w.out_sub.get(p, []))):
                    w.do('recv %d %s' % (p, hx(suback(mid, [0]))))
                for mid in list(dict.fromkeys(w.out_unsub.get(p, []))):
                    w.do('recv %d %s' % (p, hx(ack(0xB0, mid))))
            for _ in range(40):
                e = w.world.earliest_timers()
                if not e:
                    break
                w.do('fire %d' % e[0]._vid)
            out.append(('drain%d' % seed, w.lines, w.trace))
        # identifier reuse overwrites a window entry and orphans its retry timer: walks over the counter's wrap (with a second lap), then drained
        out += wrapold_walks(ctx, 10 if ctx['tier'] == 'quick' else 200, 9700, naddr=1, w1=dict(subscribe=2, unsubscribe=2, setwin=6))
        # several connections alive at once, each with keepalive and requests in flight: when one of them is lost, ITS timers are gone (and
        # only its): two addresses of one factory, the three orders of loss, answered and unanswered PINGREQs
        for prof in (3, 1, 2):
            for order in ((0, 1), (1, 0)):
                for answered in (True, False):
                    L = longrun.Script(prof)
                    try:
                        for a, k in ((0, 4), (1, 6)):
                            L.do('build a%d' % a); L.do('sethandlers %d 7' % a)
                            L.do('connect %d %s %d 311 %d' % (a, s_tok('c%d' % a), k, a)); L.do('recv %d 20020000' % a); L.do('setwin %d 3' % a)
                            if prof != 1:
                                L.do('publish %d %s b:41 1 0' % (a, s_tok('t'))); L.do('publish %d %s b:42 2 0' % (a, s_tok('u')))
                            if prof != 2:
                                L.do('subscribe %d %s 1' % (a, s_tok('s')))
                        L.fire_all(3)
                        if answered:
                            L.do('recv 0 d000'); L.do('recv 1 d000')
                        L.do('lost %d lostc' % order[0]); L.fire_all(6)
                        L.do('lost %d done' % order[1]); L.fire_all(6)
                    except Exception:
                        pass
                    out.append(('two-alive-%d-%d%d-%d' % (prof, order[0], order[1], int(answered)), list(L.lines)))
        return out
    return generic('C13', ctx, 250, 6000, 60,
                   'corpus; seeded walks over all profiles and both session modes with the pending-timer snapshot judged after every step; drained walks: everything acknowledged, then up to 40 further '
                   'timer expiries (virtual time runs on) during which settled requests must stay silent',
                   weights=dict(garbage=0, badcall=0, connect_bad=0, disconnect=0, fire=14, lost=5), extra=drained, allow_api_after_lost=True)


def c15(ctx):
    def extra(ctx):
        out = []
        ks = (1, 2, 5) if ctx['tier'] == 'quick' else (1, 2, 5, 60, 65535)
        for k in ks:
            base = ['factory 3', 'build a0', 'sethandlers 0 7', 'connect 0 %s %d 311 1' % (s_tok('c'), k), 'recv 0 20020000']
            # timers after CONNACK: t1 ping deadline, t2 loop. Patterns of PINGRESP timing.
            for pattern in ('answer', 'never', 'late', 'twice', 'tie-alarm-first', 'tie-loop-first', 'unsolicited'):
                w = realworld.RealWorld(3)
                sc = list(base)
                for l in base[1:]:
                    w.step(l)
                def do(l):
                    sc.append(l); w.step(l)
                for period in range(20 if pattern == 'answer' else 3):
                    if pattern in ('answer', 'twice', 'unsolicited'):
                        do('recv 0 d000')
                        if pattern == 'twice':
                            do('recv 0 d000')
                    e = w.earliest_timers()
                    if not e:
                        break
                    loops = [d for d in e if 'LoopingCall' in type(d.func).__name__]
                    alarms = [d for d in e if d not in loops]
                    order = (alarms + loops) if pattern != 'tie-loop-first' else (loops + alarms)
                    if pattern == 'late' and alarms:
                        do('fire %d' % alarms[0]._vid); do('recv 0 d000')
                        for d in loops:
                            do('fire %d' % d._vid)
                    else:
                        for d in order:
                            if d in w.pending_timers():
                                do('fire %d' % d._vid)
                    if pattern == 'unsolicited':
                        do('recv 0 d000')
                do('lost 0 aborted')
                for d in w.pending_timers():
                    do('fire %d' % d._vid)
                out.append(('ka%d-%s' % (k, pattern), sc))
        # only a PINGRESP answers a PINGREQ: other traffic does not, and neither do bytes that merely look like one -- a segment that is
        # exactly D0 00 in the middle of another packet (payload bytes, an identifier 0xD000), for every profile that receives
        for prof in (3, 1):
            for ver in ('311', '31'):
                for variant in ('payload', 'identifier', 'other-traffic', 'suback-code'):
                    L = longrun.Script(prof)
                    try:
                        L.do('build a0'); L.do('sethandlers 0 7'); L.do('connect 0 %s 10 %s 1' % (s_tok('c'), ver)); L.do('recv 0 20020000')
                        if variant == 'payload':
                            raw = publish_pkt('t', b'ab\xd0\x00cd', 0)
                            cut = raw.index(b'\xd0\x00')
                            chunks = [raw[:cut], raw[cut:cut + 2], raw[cut + 2:]]
                        elif variant == 'identifier':
                            raw = publish_pkt('t', b'xy', 1, mid=0xD000)
                            cut = raw.index(b'\xd0\x00')
                            chunks = [raw[:cut], raw[cut:cut + 2], raw[cut + 2:]]
                        elif variant == 'suback-code':
                            L.do('subscribe 0 %s 1' % s_tok('s'))
                            i = int(next(o for o in L.last if o.startswith('ret pending')).split()[3])
                            raw = ack(0xB0, 0xD000) + suback(i, [0])
                            chunks = [raw[:2], raw[2:4], raw[4:]]
                        else:
                            chunks = [publish_pkt('t', b'x', 0), publish_pkt('t', b'y', 1, mid=7), ack(0x62, 9)]
                        for c in chunks:
                            L.do('recv 0 %s' % hx(c))
                        L.fire_all(4)
                        L.do('lost 0 aborted'); L.fire_all(2)
                    except Exception:
                        pass
                    out.append(('lookalike-%d-%s-%s' % (prof, ver, variant), list(L.lines)))
        return out
    return generic('C15', ctx, 200, 5000, 60,
                   'corpus; seeded walks with keepalive in {0,1,2,5,60} and PINGRESP at random points, other traffic, loss and reconnect; enumerated: per keepalive value, runs of up to 20 '
                   'periods with PINGRESP answered / never / late / twice / unsolicited and both orders of the same-instant deadline and loop timers',
                   weights=dict(QUIET, pingresp=14, fire=26, lost=3, publish=4, connack=8, puback=2), extra=extra, keepalives=(0, 1, 2, 5, 60, 2, 5), naddr=2)


def c17(ctx):
    def extra(ctx):
        out = []
        n = 20 if ctx['tier'] == 'quick' else 300
        for i in range(n):
            seed = ctx['seed'] * 100003 + 12000 + i
            start = 65530 + (i % 6)
            w = walker.Walker(seed, profile=3, weights=dict(QUIET, publish=20, subscribe=8, unsubscribe=8, puback=3, fire=2, lost=1, setwin=4), allow_api_after_lost=False)
            w.do('build a0'); w.addr_of[0] = 0; w.nprotos = 1
            w.do('connect 0 %s 0 311 0' % s_tok('c')); w.do('recv 0 20020000'); w.do('setwin 0 16'); w.do('setid %d' % start)
            w.run(40)
            out.append(('wrap%d' % seed, w.lines, w.trace))
        # the wrap with old requests still unfinished: requests of every kind (awaiting PUBACK, PUBREC, PUBCOMP, SUBACK, UNSUBACK, held
        # back, preserved by a persistent session) are created on two addresses with low identifiers, then the counter is placed just
        # before the wrap (what 65535 finished allocations would do) and new requests of every kind are issued on both addresses
        out += wrapold_walks(ctx, n, 13000)
        # every container configuration around one held-back identifier at the wrap: window 1 or 2, a QoS 2 exchange whose PUBREC empties
        # the publish window while a later message still waits in the queue (its identifier is taken although nothing of the address is in
        # the publish window), the next connection of a persistent session, a second address -- then the counter wraps and requests of
        # every kind are issued: none may be given an identifier still in use
        for prof in ((3,) if ctx['tier'] == 'quick' else (3, 2)):
            for win in (1, 2):
                for variant in ('rec', 'rec-lost', 'plain', 'other-addr'):
                    L = ['factory %d' % prof, 'build a0', 'sethandlers 0 7', 'connect 0 %s 0 311 0' % s_tok('c'), 'recv 0 20020000', 'setwin 0 %d' % win]
                    L += ['publish 0 %s b:4%d 2 0' % (s_tok('q%d' % i), i) for i in range(win)]           # ids 1..win in flight
                    L += ['publish 0 %s b:5%d %d 0' % (s_tok('h%d' % i), i, 1 + i % 2) for i in range(3)]  # ids win+1..win+3 held back
                    if variant != 'plain':
                        L += ['recv 0 %s' % hx(ack(0x50, i + 1)) for i in range(win)]                       # window empty, queue not
                    user = 0
                    if variant == 'rec-lost':
                        L += ['lost 0 lostc', 'build a0', 'sethandlers 1 7', 'setwin 1 %d' % win, 'connect 1 %s 0 311 0' % s_tok('c')]
                        user = 1
                    if variant == 'other-addr':
                        L += ['build a1', 'sethandlers 1 7', 'connect 1 %s 0 311 1' % s_tok('d'), 'recv 1 20020000', 'setwin 1 8']
                        user = 1
                    L += ['setid 65534']
                    L += ['publish %d %s b:61 1 0' % (user, s_tok('n1')), 'publish %d %s b:62 2 0' % (user, s_tok('n2'))]
                    if prof == 3:
                        L += ['subscribe %d %s 1' % (user, s_tok('s')), 'unsubscribe %d %s' % (user, s_tok('u')), 'subscribe %d %s 0' % (user, s_tok('s2'))]
                    L += ['publish %d %s b:63 1 0' % (user, s_tok('n3')), 'publish %d %s b:64 1 0' % (user, s_tok('n4'))]
                    out.append(('heldback-%d-%d-%s' % (prof, win, variant), L))
        # a long run of consecutive identifiers all still in use right after the wrap (70, 140 or 300 held-back messages behind window 1, also
        # split over two addresses): the search for a free identifier has to walk past all of them
        for prof in ((3,) if ctx['tier'] == 'quick' else (3, 2)):
            for n, two in ((70, False), (140, True), (300, False)):
                if ctx['tier'] == 'quick' and n == 300:
                    continue
                L = ['factory %d' % prof, 'build a0', 'sethandlers 0 7', 'connect 0 %s 0 311 0' % s_tok('c'), 'recv 0 20020000', 'setwin 0 1']
                if two:
                    L += ['build a1', 'sethandlers 1 7', 'connect 1 %s 0 31 1' % s_tok('d'), 'recv 1 20020000', 'setwin 1 1']
                for i in range(n):
                    L.append('publish %d %s b:%02x %d 0' % (i % 2 if two else 0, s_tok('r%d' % i), i % 256, 1 + i % 2))
                L += ['setid 65533', 'publish 0 %s b:61 1 0' % s_tok('n1'), 'publish 0 %s b:62 2 0' % s_tok('n2')]
                if prof == 3:
                    L += ['subscribe 0 %s 1' % s_tok('s'), 'unsubscribe 0 %s' % s_tok('u')]
                L += ['publish 0 %s b:63 1 0' % s_tok('n3'), 'recv 0 %s' % hx(ack(0x40, 1)), 'publish 0 %s b:64 2 0' % s_tok('n4')]
                out.append(('busy-run-%d-%d-%d' % (prof, n, int(two)), L))
        return out
    return generic('C17', ctx, 250, 6000, 60,
                   'corpus; seeded walks issuing requests of every kind; additionally walks started with the identifier counter placed at 65530..65535, and two-address walks in which requests of every kind are left unfinished under low identifiers before the counter is placed at 65531..65535 and new requests of every kind follow',
                   weights=dict(QUIET, publish=16, subscribe=8, unsubscribe=8, puback=6, pubrec=4, pubcomp=4, suback=4, unsuback=4, setwin=4, lost=3, fire=4), extra=extra, naddr=2)


# ---------------------------------------------------------------------------------------------
# application callbacks that call the API again (real code only: the model has no application code)
# ---------------------------------------------------------------------------------------------
def reentry_scenarios(ctx):
    out = []
    calls = {'subscribe': 'subscribe {p} %s 1' % s_tok('again'), 'unsubscribe': 'unsubscribe {p} %s' % s_tok('again'),
             'publish1': 'publish {p} %s b:41 1 0' % s_tok('again'), 'publish2': 'publish {p} %s b:41 2 0' % s_tok('again'),
             'publish0': 'publish {p} %s b:41 0 0' % s_tok('again')}
    for prof in (3, 1, 2):
        mine = [k for k in calls if (k.startswith('publish') and prof in (2, 3)) or (not k.startswith('publish') and prof in (1, 3))]
        for clean in (1, 0):
            for ver in ('311',) if ctx['tier'] == 'quick' else ('311', '31'):
                pre = ['factory %d' % prof, 'build a0', 'sethandlers 0 7', 'connect 0 %s 0 %s %d' % (s_tok('c'), ver, clean), 'recv 0 20020000', 'setwin 0 2']
                pend = []
                if prof in (1, 3):
                    pend += ['subscribe 0 %s 1' % s_tok('s'), 'unsubscribe 0 %s' % s_tok('u')]
                if prof in (2, 3) and clean:
                    pend += ['publish 0 %s b:42 1 0' % s_tok('t')]
                if not pend:
                    continue
                for k in mine:
                    for reason in ('lostc', 'done', 'aborted'):
                        sc = pre + pend + ['reenter ' + calls[k].format(p=0), 'lost 0 %s' % reason]
                        sc += ['fireall', 'build a0', 'sethandlers 1 7', 'connect 1 %s 0 %s %d' % (s_tok('c'), ver, clean), 'recv 1 20020000', 'setwin 1 2', 'fireall']
                        if prof in (1, 3):
                            sc += ['subscribe 1 %s 0' % s_tok('n1'), 'subscribe 1 %s 0' % s_tok('n2')]
                        out.append(('loss-%d-%d-%s-%s' % (prof, clean, k, reason), 'loss', sc))
        # the errback of a refused connect() calls the API
        for k in mine:
            sc = ['factory %d' % prof, 'build a0', 'sethandlers 0 7', 'connect 0 %s 0 311 1' % s_tok('c'), 'reenter ' + calls[k].format(p=0),
                  'recv 0 %s' % hx(connack(5, 0)), 'fireall', 'lost 0 done', 'fireall']
            out.append(('refused-%d-%s' % (prof, k), 'refused', sc))
    return out


def reentry_check(ctx, res, prop):
    """an application errback that calls subscribe()/unsubscribe()/publish() again -- during the report of a connection loss, or on a refused
    connect() -- finds a protocol that no longer serves requests: the call fails with MQTTStateError, nothing is written to the lost transport then
    or later, no retry timer of the old connection is left, and the next connection's window is free"""
    if ctx.get('replay'):
        rp = ctx['replay']
        if not rp.get('realonly'):
            return
        todo = [('replay', 'refused' if 'refused' in rp.get('signature', '') else 'loss', rp['scenario'])]
    else:
        todo = reentry_scenarios(ctx)
    n = 0
    for name, kind, sc in todo:
        w = realworld.RealWorld(int(sc[0].split()[1]))
        trace = []
        lost_at = None
        for line in sc[1:]:
            if line == 'fireall':
                for _ in range(12):
                    e = w.earliest_timers()
                    if not e:
                        break
                    l2 = 'fire %d' % e[0]._vid
                    trace.append((l2, w.step(l2)))
                continue
            if line.startswith('lost 0') and lost_at is None:
                lost_at = len(trace)
            trace.append((line, w.step(line)))
        n += 1
        bad = None
        nested = []
        for i, (op, obs) in enumerate(trace):
            inside = False
            for o in obs:
                if o == 'reenter-begin':
                    inside = True; continue
                if o == 'reenter-end':
                    inside = False; continue
                if inside:
                    nested.append(o)
                if kind == 'loss' and lost_at is not None and i >= lost_at and o.startswith('w 0 '):
                    bad = bad or 'a packet (%s) is written to transport 0 at/after the report of its loss (step `%s`)' % (o.split()[2][:16], op[:40])
                if kind == 'refused' and inside and o.startswith('w 0 '):
                    bad = bad or 'a request made from the errback of the refused connect() was written (%s)' % o.split()[2][:16]
                if o.startswith(('esc', 'raised')):
                    bad = bad or 'exception: %s in `%s`' % (o, op[:40])
        rets = [o for o in nested if o.startswith('ret')]
        if not bad and rets != ['ret fail MQTTStateError']:
            bad = 'the call made from the errback returned %s, not a Deferred failed with MQTTStateError' % (rets or nested[:3])
        last_timers = [o for o in trace[-1][1] if o.startswith('timers')][0].split()[1:] if trace else []
        stale = [t for t in last_timers if t.split(':')[1] in ('rpub', 'rrel', 'rsub', 'runsub') and t.split(':')[2] == '0']
        if not bad and stale:
            bad = 'retry timer(s) of the lost connection still pending at the end: %s' % stale[:3]
        if not bad and kind == 'loss':
            subs = [(op, obs) for op, obs in trace if op.startswith('subscribe 1 ')]
            for op, obs in subs:
                if not any(o.startswith('ret pending') for o in obs):
                    bad = 'subscribe() on the next connection is kept out of the window: %s' % [o for o in obs if o.startswith('ret')]
                    break
        if bad:
            res.violations.append(dict(signature='%s re-entrant %s' % (prop, kind), what='%s: %s (re-entrant scenario %s)' % (prop, bad, name),
                                       scenario=[l for l in sc], realonly=True))
    res.programs += n; res.evaluations += n
    res.extra['reentrant_scenarios'] = n


def c07(ctx):
    res = _c07(ctx)
    reentry_check(ctx, res, 'C07')
    return res


def c13(ctx):
    res = _c13(ctx)
    reentry_check(ctx, res, 'C13')
    return res


def mistyped_connects(p):
    """connect() calls whose arguments have the right values but a wrong Python type somewhere (bytes, int, float, None, list where a str
    is expected; a str where a number is): outside the model's argument types, judged on the real code only"""
    C, U, W, M = s_tok('c'), s_tok('user'), s_tok('w'), s_tok('m')
    out = []
    for cid in ('n', 'i:5', 'y:636c69', 'f:1.5', 'l:'):
        out.append('connect %d %s 0 311 1' % (p, cid))
    for pw in ('y:736563726574', 'i:7', 'b:7365', 'l:'):
        out.append('connect %d %s 0 311 1 n n 0 0 %s %s' % (p, C, U, pw))
    for us in ('y:75', 'i:7'):
        out.append('connect %d %s 0 311 1 n n 0 0 %s %s' % (p, C, us, s_tok('pw')))
    for wt, wm in (('y:77', M), (W, 'y:6d'), ('i:3', M), (W, 'i:3'), (W, 'b:6d')):
        out.append('connect %d %s 0 311 1 %s %s 1 0' % (p, C, wt, wm))
    return out


def c14(ctx):
    res = _c14(ctx)
    if not ctx.get('replay'):
        # after a connect() that raised for a wrongly typed argument the protocol is idle as before: every operation is refused or honoured
        # as in IDLE, and a corrected connect() is honoured (real code only: the model's connect() has typed arguments)
        scen = []
        for prof in (1, 2, 3):
            pre = ['factory %d' % prof, 'build a0', 'sethandlers 0 7']
            for c in mistyped_connects(0):
                scen.append(('%d-mistyped' % prof, pre + [c, 'publish 0 %s b:41 0 0' % s_tok('t'), 'subscribe 0 %s 1' % s_tok('s'),
                                                         'connect 0 %s 0 311 1' % s_tok('c'), 'recv 0 20020000', 'publish 0 %s b:41 1 0' % s_tok('t'), 'subscribe 0 %s 1' % s_tok('s')]))
        run_scenarios('C14', dict(ctx, noshrink=True), scen, res, compare_model=False, label='mistyped connect (python-only oracle)')
        res.extra['mistyped_connect_scenarios'] = len(scen)
    reentry_check(ctx, res, 'C14')
    return res


def strict_decode_writes(ctx, res, prop):
    """every packet written during the campaign's scenarios must parse with the strict reference decoder (Spec.decode, written from
    the OASIS text and run in the Lean driver) as a client-to-broker packet of the connection's protocol version"""
    import codec_check as cc
    if not ctx['model_ok']:
        return
    lines, meta = [], []
    for name, scen, tr in getattr(res, 'all_traces', []):
        if tr is None:
            continue
        ver = {}
        for i, (op, obs) in enumerate(tr):
            t = op.split()
            if t and t[0] == 'connect' and len(t) > 4 and any(o.startswith('ret pending') for o in obs):
                ver[int(t[1])] = t[4]          # the version of the accepted connect() call
            for o in obs:
                if o.startswith('w '):
                    _, p, h = o.split()
                    lines.append('codec specdec %s %s' % ('31' if ver.get(int(p)) == '31' else '311', h))
                    meta.append((name, scen[:i + 1], o))
    outs = cc.run_lines(lines) if lines else []
    nbad = 0
    for (name, scen, o), r in zip(meta, outs):
        h = o.split()[2]
        b0 = int(h[:2], 16) if len(h) >= 2 else 0
        if r != 'none' and b0 >> 4 == 3 and (b0 >> 1) & 3 == 0 and b0 & 8:
            r = 'none'           # "The DUP flag MUST be set to 0 for all QoS 0 messages" [MQTT-3.3.1-2]
        if r == 'none' and b0 in (0x40, 0x50, 0x70) and h[2:] == '020000':
            # PUBACK / PUBREC / PUBCOMP carrying identifier 0: the reference decoder refuses identifier 0 everywhere, but the standard states the
            # non-zero rule for the packets that ALLOCATE an identifier (SUBSCRIBE, UNSUBSCRIBE, PUBLISH with QoS > 0 [MQTT-2.3.1-1]); an
            # acknowledgement "MUST contain the same Packet Identifier" as the packet it answers [MQTT-2.3.1-6], also when a broker sent 0.
            # Whether the identifier echoed is the one received is C06's rule, judged by its monitor.
            r = 'ack-of-identifier-0'
        if r == 'none':
            nbad += 1
            if nbad <= 5:
                res.violations.append(dict(what='%s: a packet written to the transport is not a well-formed client packet per the reference decoder: %s (%s)' % (prop, o[:80], name),
                                           signature='%s strict-decode' % prop, scenario=scen))
    res.extra['writes_strictly_decoded'] = len(lines)


def c18(ctx):
    res = _c18(ctx)
    if not ctx.get('replay'):
        # the public ping() is not an operation of the model: real code only, judged by the stream monitor -- before connect(), during the
        # handshake, while connected (with and without keepalive) and after the loss report
        scen = []
        for prof in (1, 2, 3):
            for ka in (0, 5):
                scen.append(('manual-ping-%d-%d' % (prof, ka), ['factory %d' % prof, 'build a0', 'sethandlers 0 7', 'ping 0', 'connect 0 %s %d 311 1' % (s_tok('c'), ka), 'ping 0',
                                                                'recv 0 20020000'] + (['ping 0', 'recv 0 d000'] if ka else []) + ['lost 0 lostc', 'ping 0', 'fire 0', 'fire 1', 'fire 2', 'ping 0']))
        run_scenarios('C18', dict(ctx, noshrink=True), scen, res, compare_model=False, label='manual ping() (python-only oracle)')
        strict_decode_writes(ctx, res, 'C18')
    reentry_check(ctx, res, 'C18')
    return res


def _c18(ctx):
    def extra(ctx):
        # argument shapes at the edge of what the API accepts, on every profile and version: whatever is written for them must be a
        # well-formed packet (empty topic lists, empty strings, the longest strings, every optional CONNECT field empty)
        out = []
        E = s_tok('')
        L = s_tok('x' * 65535)
        for prof in (3, 1, 2):
            for ver in ('311', '31'):
                for cid, rest in ((s_tok('c'), ''), (E, ''), (s_tok('c'), ' %s %s 1 0 %s %s' % (E, E, E, E)), (s_tok('c'), ' %s %s 2 1 %s n' % (s_tok('w'), E, s_tok('u')))):
                    pre = ['factory %d' % prof, 'build a0', 'sethandlers 0 7', 'connect 0 %s 0 %s 0%s' % (cid, ver, rest), 'recv 0 20020000', 'setwin 0 8']
                    sc = pre + ['subscribe 0 l: 0', 'unsubscribe 0 L:', 'subscribe 0 %s 0' % E, 'unsubscribe 0 %s' % E, 'subscribe 0 %s 2' % L,
                                'publish 0 %s b: 0 0' % E, 'publish 0 %s b: 1 1' % E, 'publish 0 %s s: 2 0' % L, 'fire 0', 'fire 1', 'fire 2', 'lost 0 done']
                    out.append(('edge-%d-%s' % (prof, ver), sc))
        # packets whose remaining length sits exactly on and next to the boundaries of the variable-length field (127/128, 16383/16384,
        # thorough: 2097151/2097152), as PUBLISH at QoS 0 and 1 and as SUBSCRIBE / UNSUBSCRIBE
        rems = [126, 127, 128, 129, 16382, 16383, 16384, 16385] + ([2097150, 2097151, 2097152, 2097153] if ctx['tier'] != 'quick' else [])
        for ver in ('311', '31'):
            sc = ['factory 3', 'build a0', 'sethandlers 0 7', 'connect 0 %s 0 %s 1' % (s_tok('c'), ver), 'recv 0 20020000', 'setwin 0 16']
            for rem in rems:
                sc.append('publish 0 %s b:%s 0 0' % (s_tok('t'), '5a' * (rem - 3)))
                sc.append('publish 0 %s b:%s 1 0' % (s_tok('t'), '5a' * (rem - 5)))
            for rem in rems[:8]:
                if rem - 5 <= 65535:
                    sc.append('subscribe 0 %s 1' % s_tok('s' * (rem - 5)))            # 2 (id) + 2 + len + 1 (qos)
                    sc.append('unsubscribe 0 %s' % s_tok('u' * (rem - 4)))            # 2 (id) + 2 + len
            out.append(('remaining-length-boundaries-%s' % ver, sc))
        return out
    res = generic('C18', ctx, 250, 6000, 60,
                  'corpus; seeded walks in all profiles including API calls and timer expiries between disconnect()/abort and the loss report, and connect() on idle-again protocols; every write is '
                  'judged by the monitor and every packet written is parsed by the strict reference decoder (Spec.decode in the Lean driver) under the connection\'s protocol version; '
                  'enumerated: edge argument shapes (empty topic lists, empty and longest strings, empty optional CONNECT fields) on every profile and version',
                  weights=dict(garbage=1, badcall=1, connect_bad=1, disconnect=3, fire=12, lost=4, connack_bad=3), allow_api_after_lost=True, reconnect_idle_again=True, extra=extra)
    return res


def c16(ctx):
    def extra(ctx):
        out = []
        # every first byte with short bodies over a reduced alphabet, in each state of each profile with requests pending
        alph = [0x00, 0x01, 0x02, 0x05, 0x7f, 0x80, 0xff]
        import itertools
        bodies = [()] + [(a,) for a in alph] + [(a, b) for a in (0, 2, 0x80, 0xff) for b in (0, 1, 0x7f)]
        if ctx['tier'] != 'quick':
            bodies += list(itertools.product(alph, repeat=3)) + list(itertools.product((0, 1, 2, 0x80, 0xff), repeat=4))
        for prof in (3, 1, 2):
            for stage in ('idle', 'connecting', 'connected'):
                pre = ['factory %d' % prof, 'build a0', 'sethandlers 0 7']
                if stage != 'idle':
                    pre.append('connect 0 %s 0 311 0' % s_tok('c'))
                if stage == 'connected':
                    pre += ['recv 0 20020000', 'setwin 0 4']
                    if prof in (2, 3):
                        pre += ['publish 0 %s b:41 1 0' % s_tok('t'), 'publish 0 %s b:42 2 0' % s_tok('u')]
                    if prof in (1, 3):
                        pre += ['subscribe 0 %s 1' % s_tok('s')]
                firsts = range(256) if (ctx['tier'] != 'quick' or (prof == 3 and stage == 'connected')) else range(0, 256, 16)
                sc = list(pre)
                for fb in firsts:
                    for body in bodies:
                        sc.append('recv 0 %s' % hx(bytes((fb,) + body)))
                        if len(sc) > 400:
                            out.append(('mal', sc + ['lost 0 done'])); sc = list(pre)
                out.append(('mal', sc + ['lost 0 done']))
        # complete PUBLISH packets whose topic length prefix promises k bytes more (or fewer) than the packet holds, at every QoS
        for prof in (3, 1, 2):
            pre = ['factory %d' % prof, 'build a0', 'sethandlers 0 7', 'connect 0 %s 0 311 0' % s_tok('c'), 'recv 0 20020000']
            sc = list(pre)
            for L in (0, 1, 4, 127, 300):
                for k in (1, 2, 3, 255, 65535 - L):
                    for fb, tail in ((0x30, b''), (0x31, b''), (0x32, b''), (0x34, b''), (0x30, None)):
                        topic = b'a' * L
                        if tail is None:       # no variable header at all beyond the prefix bytes available
                            body = bytes([(L + k) >> 8, (L + k) & 255])[:1 + (L % 2)]
                        else:
                            body = bytes([(L + k) >> 8, (L + k) & 255]) + topic
                        if L and tail is not None:
                            sc.append('recv 0 %s' % hx(publish_pkt('a' * L, b'', 0)))       # the same topic bytes, well-formed, just before
                        sc.append('recv 0 %s' % hx(pkt(fb, body)))
                        sc.append('recv 0 %s' % hx(publish_pkt('ok', b'1', 0)))
                        if len(sc) > 80:
                            out.append(('shortstr', sc + ['lost 0 done'])); sc = list(pre)
            out.append(('shortstr', sc + ['lost 0 done']))
        # the same on a clean receive buffer: one short byte string per connection (in the chained form above whatever follows a partial
        # packet is framed as its continuation), followed by a valid PUBLISH that must still be framed correctly or be preceded by an abort
        iso_bodies = [(), (0x00,), (0x02, 0x00), (0xff,)] if ctx['tier'] == 'quick' else bodies[:20]
        for prof in ((3,) if ctx['tier'] == 'quick' else (3, 1, 2)):
            pre = ['factory %d' % prof, 'build a0', 'sethandlers 0 7', 'connect 0 %s 0 311 0' % s_tok('c'), 'recv 0 20020000', 'setwin 0 4']
            if prof in (2, 3):
                pre += ['publish 0 %s b:41 1 0' % s_tok('t'), 'publish 0 %s b:42 2 0' % s_tok('u')]
            if prof in (1, 3):
                pre += ['subscribe 0 %s 1' % s_tok('s')]
            for fb in range(256):
                for body in iso_bodies:
                    out.append(('iso', pre + ['recv 0 %s' % hx(bytes((fb,) + body)), 'recv 0 %s' % hx(publish_pkt('ok', b'1', 0)), 'lost 0 done']))
        for prof in (3, 1):
            pre = ['factory %d' % prof, 'build a0', 'sethandlers 0 7', 'connect 0 %s 0 311 0' % s_tok('c'), 'recv 0 20020000']
            for fb in (0x36, 0x37, 0x3E, 0x3F):
                body = b'\x00\x01t' + b'\x00\x21' + b'zz'
                out.append(('qos3', pre + ['recv 0 %s' % hx(pkt(fb, body)), 'recv 0 %s' % hx(ack(0x62, 0x21)), 'recv 0 %s' % hx(ack(0x62, 0x21)), 'lost 0 done']))
        # every valid broker packet with each single byte mutated, truncated or extended
        valid = [connack(0, 0), ack(0x40, 1), ack(0x50, 2), ack(0x70, 2), ack(0x62, 7), suback(3, [1]), ack(0xB0, 3), pkt(0xD0),
                 publish_pkt('a/ñ', b'xy', 0), publish_pkt('t', b'z', 1, mid=9), publish_pkt('t', b'z', 2, mid=7)]
        for prof in (3,) if ctx['tier'] == 'quick' else (3, 1, 2):
            pre = ['factory %d' % prof, 'build a0', 'sethandlers 0 7', 'connect 0 %s 0 311 0' % s_tok('c'), 'recv 0 20020000', 'setwin 0 4',
                   'publish 0 %s b:41 1 0' % s_tok('t'), 'publish 0 %s b:42 2 0' % s_tok('u'), 'subscribe 0 %s 1' % s_tok('s')]
            for v in valid:
                muts = [v[:k] for k in range(1, len(v))] + [v + b'\x00', v + b'\xff\xff']
                for i in range(len(v)):
                    for x in (0x00, 0x01, 0x7f, 0x80, 0xff, v[i] ^ 0x08, v[i] ^ 0x01):
                        if x != v[i]:
                            muts.append(v[:i] + bytes([x]) + v[i + 1:])
                # one mutant per connection: a truncated or over-long packet leaves bytes in the receive buffer, and everything delivered
                # after it on the same connection would be framed differently (the first version of this family chained them)
                for m in muts:
                    out.append(('mut', pre + ['recv 0 %s' % hx(m), 'recv 0 %s' % hx(publish_pkt('ok', b'1', 0)), 'lost 0 done']))
        return out
    return generic('C16', ctx, 200, 5000, 60,
                   'corpus; seeded walks with random garbage, wrong calls and refused/reserved CONNACK codes; enumerated malformed stream: every first byte 0..255 (quick: full only for profile 3 '
                   'connected, every 16th elsewhere) x short bodies over {00,01,02,05,7f,80,ff}, and every valid broker packet with each single byte mutated, truncated or extended, '
                   'each injected in a session with requests pending',
                   weights=dict(garbage=12, badcall=3, connect_bad=2, connack_bad=5, disconnect=0, dupack=4, pingresp=4), extra=extra)


def _c14(ctx):
    def extra(ctx):
        out = []
        apis = ['connect {p} %s 0 311 1' % s_tok('c'), 'disconnect {p}', 'publish {p} %s b:41 0 0' % s_tok('t'), 'publish {p} %s b:41 1 0' % s_tok('t'),
                'publish {p} %s s:41 2 1' % s_tok('t'), 'subscribe {p} %s 1' % s_tok('s'), 'subscribe {p} t:%s,2 0' % s_tok('s').replace(':', '='),
                'subscribe {p} l:%s,0 0' % s_tok('s').replace(':', '='), 'unsubscribe {p} %s' % s_tok('s'), 'unsubscribe {p} L:%s' % s_tok('s').replace(':', '=')]
        pkts = [connack(0, 0), connack(5, 0), pkt(0xD0), suback(1, [0]), ack(0xB0, 1), publish_pkt('t', b'x', 0), publish_pkt('t', b'x', 1, mid=4),
                publish_pkt('t', b'x', 2, mid=4), ack(0x62, 4), ack(0x40, 1), ack(0x50, 1), ack(0x70, 1),
                pkt(0x10, b'\x00\x04MQTT\x04\x02\x00\x00\x00\x01c'), pkt(0x82, b'\x00\x01\x00\x01a\x00'), pkt(0xA2, b'\x00\x01\x00\x01a'), pkt(0xC0), pkt(0xE0)]
        for prof in (1, 2, 3):
            situations = {
                'idle': ['factory %d' % prof, 'build a0', 'sethandlers 0 7'],
                'connecting': ['factory %d' % prof, 'build a0', 'sethandlers 0 7', 'connect 0 %s 0 311 1' % s_tok('c')],
                'connected': ['factory %d' % prof, 'build a0', 'sethandlers 0 7', 'connect 0 %s 0 311 1' % s_tok('c'), 'recv 0 20020000'],
                'idle-after-refusal': ['factory %d' % prof, 'build a0', 'sethandlers 0 7', 'connect 0 %s 0 311 1' % s_tok('c'), 'recv 0 20020005'],
                'idle-after-loss': ['factory %d' % prof, 'build a0', 'sethandlers 0 5', 'connect 0 %s 0 311 1' % s_tok('c'), 'recv 0 20020000', 'lost 0 done'],
            }
            M = 's:' + 'c3b1' * 40000       # 40000 characters, 80000 bytes: cannot be encoded
            situations['idle-after-unencodable-connect'] = ['factory %d' % prof, 'build a0', 'sethandlers 0 7', 'connect 0 %s 0 311 1 %s %s 1 0' % (s_tok('c'), s_tok('w'), M)]
            situations['idle-after-invalid-connect'] = ['factory %d' % prof, 'build a0', 'sethandlers 0 7', 'connect 0 %s 65536 311 1' % s_tok('c')]
            for name, pre in situations.items():
                for a in apis:
                    out.append(('%d-%s-api' % (prof, name), pre + [a.format(p=0)]))
                if name != 'idle-after-loss':
                    for b in pkts:
                        out.append(('%d-%s-pkt' % (prof, name), pre + ['recv 0 %s' % hx(b)]))
        return out
    return generic('C14', ctx, 200, 5000, 60,
                   'enumerated exhaustively: 3 profiles x 5 situations (idle, connecting, connected, idle again after a refused CONNACK, idle again after a loss) x 10 API calls (all argument shapes) '
                   'and x 17 packet types (all 14 plus variants); plus the same probes at random points of seeded walks (wrong-state calls and packets are a standing part of every walk)',
                   weights=dict(garbage=0, connect_bad=0, disconnect=2, badcall=0), extra=extra, allow_api_after_lost=True)


# ---------------------------------------------------------------------------------------------
# C20: boundary table, enumerated
# ---------------------------------------------------------------------------------------------
def c20(ctx):
    S65535 = 's:' + '61' * 65535
    S65536 = 's:' + '61' * 65536
    M65536 = 's:' + 'c3b1' * 32768          # 32768 characters, 65536 bytes
    def calls(p):
        out = []
        for v in ('0', '1', '2', '8', '16', '17', '-1', '100', 'n'):
            out.append(('setwin %d %s' % (p, v), True))
        for v in ('0', '1', '2', '512', '1024', '1025', '-3', 'n'):
            out.append(('settimeout %d %s' % (p, v), True))
        for bw in ('0', '-1', '1', '1/2', '10000'):
            for f in ('0', '-1', '1/2', '1', '3'):
                out.append(('setbw %d %s %s' % (p, bw, f), True))
        # publish
        for q in ('-1', '0', '1', '2', '3', '7'):
            out.append(('publish %d %s b:41 %s 0' % (p, s_tok('t'), q), True))
        for pl in ('s:', 's:41', 'b:', 'b:00ff', 'i:5', 'n', 'y:4142', 'f:1.5', 'l:', 'o:'):
            for q in ('0', '1'):
                out.append(('publish %d %s %s %s 0' % (p, s_tok('t'), pl, q), True))
        for t in (S65535, S65536, M65536, 'n', 'i:3'):
            out.append(('publish %d %s b:41 1 0' % (p, t), True))
        out.append(('publish %d u:61eda08062 b:41 1 0' % p, False))     # lone surrogate: Python-only oracle
        # subscribe / unsubscribe
        tk = s_tok('t').replace(':', '=')
        for q in ('-1', '0', '2', '3'):
            out.append(('subscribe %d %s %s' % (p, s_tok('t'), q), True))
            out.append(('subscribe %d t:%s,%s 0' % (p, tk, q), True))
            out.append(('subscribe %d l:%s,0;%s,%s 0' % (p, tk, tk, q), True))
        for a in ('i:5', 'n', 'f:1.5', 'l:i=5,0', 'l:n,1', 't:n,0', S65536, 'l:%s,1' % S65536.replace(':', '='), S65535, 'l:'):
            out.append(('subscribe %d %s 0' % (p, a), True))
        for a in ('i:5', 'n', 't:%s,0' % tk, 'L:i=5', 'L:n', S65536, 'L:%s;%s' % (tk, S65536.replace(':', '=')), S65535, s_tok('t'), 'L:%s;%s' % (tk, tk), 'L:'):
            out.append(('unsubscribe %d %s' % (p, a), True))
        return out

    def connects(p):
        out = []
        C = s_tok('c')
        for wq in ('-1', '0', '2', '3'):
            out.append('connect %d %s 0 311 1 %s %s %s 0' % (p, C, s_tok('w'), s_tok('m'), wq))
        for ka in ('-1', '0', '1', '65535', '65536'):
            out.append('connect %d %s %s 311 1' % (p, C, ka))
        out.append('connect %d %s 0 31 1' % (p, s_tok('c' * 23)))
        out.append('connect %d %s 0 31 1' % (p, s_tok('c' * 24)))
        out.append('connect %d %s 0 311 1' % (p, s_tok('c' * 24)))
        out.append('connect %d %s 0 31 1' % (p, s_tok('ñ' * 23)))
        out.append('connect %d %s 0 x 1' % (p, C))
        out.append('connect %d %s 0 311 1 %s n 0 0' % (p, C, s_tok('w')))
        out.append('connect %d %s 0 311 1 n %s 0 0' % (p, C, s_tok('m')))
        out.append('connect %d %s 0 311 1 n n 0 0 n %s' % (p, C, s_tok('pw')))
        out.append('connect %d %s 0 311 1 n n 0 0 %s %s' % (p, C, s_tok('u'), s_tok('pw')))
        for pos in range(5):
            for big in (S65535, S65536, M65536, 's:' + 'e282ac' * 21846):      # ASCII at/over the limit; fewer than 65536 characters but more bytes
                args = ['n', 'n', '0', '0', 'n', 'n']
                cid = C
                if pos == 0: cid = big
                elif pos == 1: args[0] = big; args[1] = s_tok('m')
                elif pos == 2: args[0] = s_tok('w'); args[1] = big
                elif pos == 3: args[4] = big
                else: args[4] = s_tok('u'); args[5] = big
                out.append('connect %d %s 0 311 1 %s' % (p, cid, ' '.join(args)))
        return out

    res = Result()
    res.rule = ('enumerated exhaustively: each argument of setWindowSize/setTimeout/setBandwith/connect/publish/subscribe/unsubscribe at lowest/highest accepted, first rejected on both sides, '
                'interior values, wrong types and None, in every profile and state in which the call is otherwise allowed (with requests pending, so that "nothing changes" is observable); '
                'judged by the C20 monitor (rejected with ValueError/TypeError, no write, no timer, same state; valid accepted) and compared with the Lean model')
    res.exhaustive = True
    if ctx.get('replay'):
        run_scenarios('C20', dict(ctx, noshrink=True), [('replay', ctx['replay']['scenario'])], res, label='replay')
        return res
    scen, scen_nomodel = [], []
    for prof in (1, 2, 3):
        stages = {
            'idle': ['factory %d' % prof, 'build a0', 'sethandlers 0 7'],
            'connecting': ['factory %d' % prof, 'build a0', 'sethandlers 0 7', 'connect 0 %s 0 311 0' % s_tok('c')],
            'connected': ['factory %d' % prof, 'build a0', 'sethandlers 0 7', 'connect 0 %s 5 31 0' % s_tok('c'), 'recv 0 20020000', 'setwin 0 16']
                         + (['publish 0 %s b:41 1 0' % s_tok('t'), 'publish 0 %s b:42 2 0' % s_tok('u')] if prof != 1 else []) + (['subscribe 0 %s 1' % s_tok('s')] if prof != 2 else []),
        }
        if prof != 1:
            # messages held back although the window has room (it was enlarged after they were queued; setWindowSize does not refill): a refused call
            # must not set them moving -- and the same on a persistent session's next connection, still CONNECTING
            stages['queued-with-room'] = ['factory %d' % prof, 'build a0', 'sethandlers 0 7', 'connect 0 %s 0 311 0' % s_tok('c'), 'recv 0 20020000', 'setwin 0 1'] \
                + ['publish 0 %s b:4%d 1 0' % (s_tok('q%d' % i), i) for i in range(4)] + ['setwin 0 3']
            stages['resumed-connecting'] = stages['queued-with-room'] + ['lost 0 lostc', 'build a0', 'sethandlers 1 7', 'setwin 1 4', 'connect 1 %s 0 311 0' % s_tok('c')]
        for name, pre in stages.items():
            for (c, model_ok) in calls(1 if name == 'resumed-connecting' else 0):
                (scen if model_ok else scen_nomodel).append(('%d-%s' % (prof, name), pre + [c]))
            if name == 'idle':
                for c in connects(0):
                    scen.append(('%d-connect' % prof, pre + [c, 'publish 0 %s b:41 0 0' % s_tok('t')]))
                for c in mistyped_connects(0):
                    scen_nomodel.append(('%d-connect-mistyped' % prof, pre + [c, 'publish 0 %s b:41 0 0' % s_tok('t'), 'connect 0 %s 0 311 1' % s_tok('c')]))
    corpus = corpus_scenarios('C20')
    run_scenarios('C20', ctx, corpus, res, label='corpus')
    run_scenarios('C20', dict(ctx, noshrink=True), scen, res, label='enumerated')
    run_scenarios('C20', dict(ctx, noshrink=True), scen_nomodel, res, compare_model=False, label='enumerated (python-only oracle)')
    res.extra['enumerated_calls'] = len(scen) + len(scen_nomodel)
    # metamorphic oracle: a rejected setter leaves nothing behind -- what follows is identical to the run without it
    nmeta = 0
    for prof in (2, 3, 1):
        pre = ['factory %d' % prof, 'build a0', 'sethandlers 0 7', 'connect 0 %s 0 311 0' % s_tok('c'), 'recv 0 20020000', 'setwin 0 3', 'settimeout 0 2', 'setbw 0 1000 3']
        probe = ['jit 100/1024'] + (['publish 0 %s b:%s 1 0' % (s_tok('t'), '5a' * 300), 'publish 0 %s b:%s 2 0' % (s_tok('t'), '5b' * 100), 'publish 0 %s b:41 1 0' % s_tok('u'),
                                     'publish 0 %s b:41 1 0' % s_tok('v')] if prof != 1 else []) + (['subscribe 0 %s 1' % s_tok('s'), 'subscribe 0 %s 1' % s_tok('s2'),
                                     'subscribe 0 %s 1' % s_tok('s3'), 'subscribe 0 %s 1' % s_tok('s4')] if prof != 2 else []) + ['fire 1', 'fire 2']
        ref = [o for (_, o) in realworld.run_scenario(pre + probe)][len(pre):]
        for bad in ['setwin 0 0', 'setwin 0 17', 'setwin 0 n', 'settimeout 0 0', 'settimeout 0 1025', 'settimeout 0 n', 'setbw 0 0 2', 'setbw 0 -1 2', 'setbw 0 5 0', 'setbw 0 7 -1', 'setbw 0 1/2 0']:
            sc = pre + [bad] + probe
            got = [o for (_, o) in realworld.run_scenario(sc)][len(pre) + 1:]
            nmeta += 1; res.evaluations += 1; res.programs += 1
            if got != ref:
                i = next(j for j, (a, b) in enumerate(zip(got, ref)) if a != b)
                res.violations.append(dict(signature='not-atomic-later', scenario=sc,
                                           what='rejected `%s` changed later behaviour: step `%s` gives %s, without the rejected call %s' % (bad, probe[i][:40], got[i][:4], ref[i][:4])))
    res.extra['metamorphic_rejected_setters'] = nmeta
    res.sample(scen[5][1][-3:]); res.sample(scen[-1][1][-3:])
    # the same calls at random points of seeded walks
    ws = walks(ctx, 60 if ctx['tier'] == 'quick' else 2000, 50, 0, weights=dict(badcall=12, connect_bad=5, setwin=5, settimeout=4, setbw=4, garbage=0, disconnect=0))
    run_scenarios('C20', ctx, ws, res)
    return res


# ---------------------------------------------------------------------------------------------
# C19: two addresses through one factory
# ---------------------------------------------------------------------------------------------
def _c19_owner_maps(trace):
    """from a combined trace: protocol -> address, timer id -> owner protocol, deferred id -> protocol"""
    addr_of, timer_owner, dfd_owner = {}, {}, {}
    n = 0
    for op, obs in trace[1:]:
        t = op.split()
        if t[0] == 'build':
            addr_of[n] = t[1]; n += 1
        for o in obs:
            if o.startswith('timers'):
                for tid, info in monitors.parse_timers(o).items():
                    timer_owner[tid] = info['owner']
            if o.startswith('ret pending'):
                dfd_owner[int(o.split()[2])] = int(t[1])
    return addr_of, timer_owner, dfd_owner


def _nm(idmap, i, fresh=False):
    """canonical name of packet identifier i: identifiers are named by allocation order (an identifier handed out again after the
    counter wrapped is a new name)"""
    if fresh or i not in idmap:
        idmap['_n'] = idmap.get('_n', 0) + 1
        idmap[i] = idmap['_n']
    return idmap[i]


def _canon_pkt(b, idmap):
    pk = mqttparse.parse(b)
    if pk is None:
        return ('raw', b.hex())
    d = {k: v for k, v in pk.items() if k not in ('raw',)}
    if d.get('id') is not None and pk['type'] in ('PUBLISH', 'PUBREL', 'SUBSCRIBE', 'UNSUBSCRIBE'):
        d['id'] = _nm(idmap, d['id'])
    return tuple(sorted((k, repr(v)) for k, v in d.items()))


def _c19_view(trace, A, addr_of, timer_owner, dfd_owner):
    """canonical per-step observation log of address A; plus the list of interference events (A-effects in B-steps)"""
    prs = sorted(p for p, a in addr_of.items() if a == A)
    prank = {p: i for i, p in enumerate(prs)}
    trank, drank, idmap = {}, {}, {}
    view, interference = [], []
    prev_timers = {}
    for idx, (op, obs) in enumerate(trace[1:], 1):
        t = op.split()
        mine = False
        if t[0] == 'build':
            mine = t[1] == A
        elif t[0] == 'fire':
            mine = timer_owner.get(int(t[1])) in prank
        elif t[0] in ('jit', 'setid'):
            mine = False
        elif len(t) > 1 and t[1].isdigit():
            mine = int(t[1]) in prank
        ev = []
        now = 0
        for o in obs:
            if o.startswith('now'):
                now = int(o.split()[1])
            if mine and o.startswith('ret pending') and o.split()[3] != '-':
                _nm(idmap, int(o.split()[3]), fresh=True)       # this call allocated the identifier (its write precedes the return)
        for o in obs:
            k = o.split()
            if k[0] == 'w' and int(k[1]) in prank:
                ev.append(('w', prank[int(k[1])], _canon_pkt(bytes.fromhex(k[2]) if k[2] != '-' else b'', idmap)))
            elif k[0] in ('close', 'abort', 'onconn') and int(k[1]) in prank:
                ev.append((k[0], prank[int(k[1])]))
            elif k[0] == 'ondisc' and int(k[1]) in prank:
                ev.append(('ondisc', prank[int(k[1])], k[2]))
            elif k[0] == 'pub' and int(k[1]) in prank:
                ev.append(('pub', prank[int(k[1])]) + tuple(k[2:]))
            elif k[0] == 'fired' and dfd_owner.get(int(k[1])) in prank:
                d = drank.setdefault(int(k[1]), len(drank))
                val = k[3]
                if k[2] == 'ok' and val.startswith('i') and dfd_owner is not None:
                    val = 'i#%d' % _nm(idmap, int(val[1:]))
                ev.append(('fired', d, k[2], val))
            elif k[0] == 'ret' and mine:
                if k[1] == 'pending':
                    d = drank.setdefault(int(k[2]), len(drank))
                    ev.append(('ret', 'pending', d, '-' if k[3] == '-' else '#%d' % _nm(idmap, int(k[3]))))
                else:
                    ev.append(tuple(k))
            elif k[0] in ('raised', 'esc', 'nofire') and mine:
                ev.append(tuple(k))
            elif k[0] == 'states':
                ev.append(('states', ''.join(k[1][p] for p in prs if len(k) > 1 and p < len(k[1]))))
            elif k[0] == 'timers':
                cur = {tid: info for tid, info in monitors.parse_timers(o).items() if info['owner'] in prank}
                for tid in sorted(cur):
                    if tid not in trank:
                        trank[tid] = len(trank)
                        ev.append(('new-timer', trank[tid], cur[tid]['kind'], prank[cur[tid]['owner']], cur[tid]['due']))
                ev.append(('pending', tuple(sorted(trank[tid] for tid in cur))))
                if not mine and set(cur) != set(prev_timers):
                    interference.append((idx, op, 'pending timers of %s changed' % A))
                prev_timers = cur
        if mine:
            view.append((op.split()[0], ev))
        else:
            bad = [e for e in ev if e[0] not in ('states', 'pending')]
            if bad:
                interference.append((idx, op, bad[:3]))
            if view and ev:
                # states/pending of A must not move during a step of the other address
                last = [e for e in view[-1][1] if e[0] in ('states', 'pending')]
                if [e for e in ev if e[0] in ('states', 'pending')] != last:
                    interference.append((idx, op, 'state or timers of %s changed' % A))
    return view, interference, (prank, trank, drank)


def _c19_solo(trace, lines, A, addr_of, timer_owner):
    """replay only A's operations on a fresh factory (protocol/timer indices re-ranked, acknowledgement ids translated)"""
    prs = sorted(p for p, a in addr_of.items() if a == A)
    prank = {p: i for i, p in enumerate(prs)}
    w = realworld.RealWorld(int(lines[0].split()[1]))
    out_lines = [lines[0]]
    out_trace = [(lines[0], [])]
    tmap = {}          # combined timer id -> solo timer id (creation order among A's timers)
    a_timers = sorted(t for t, o in timer_owner.items() if o in prank)
    idmap = {}         # combined msgId -> solo msgId
    seen_solo_timers = 0
    prev_now_next = 0
    for (op, obs) in trace[1:]:
        t = op.split()
        new = None
        prev_now = prev_now_next
        for o in obs:
            if o.startswith('now'):
                prev_now_next = int(o.split()[1])
        if t[0] == 'build':
            if t[1] == A:
                new = op
        elif t[0] == 'jit':
            new = op
        elif t[0] == 'fire':
            if timer_owner.get(int(t[1])) in prank:
                k = a_timers.index(int(t[1]))
                solo_ids = sorted(dc._vid for dc in realworld.CLOCK.allcalls)
                if k >= len(solo_ids):
                    return None
                new = 'fire %d' % solo_ids[k]
        elif len(t) > 1 and t[1].isdigit() and int(t[1]) in prank:
            t2 = list(t); t2[1] = str(prank[int(t[1])])
            if t[0] == 'recv':
                data = bytes.fromhex(t[2]) if t[2] != '-' else b''
                pks, rest = mqttparse.split_stream(data)
                if rest:       # C19 walks deliver whole packets
                    return None
                outb = b''
                for pkb in pks:
                    pk = mqttparse.parse(pkb)
                    if pk and pk['type'] in ('PUBACK', 'PUBREC', 'PUBCOMP', 'SUBACK', 'UNSUBACK'):
                        # identifiers issued to A are translated; any other identifier must stay foreign to A when it runs alone
                        i = idmap.get(pk['id'], 60000 + pk['id'] % 5000)
                        n = 1
                        while pkb[n] & 0x80:
                            n += 1
                        pkb = pkb[:n + 1] + bytes([i >> 8, i & 255]) + pkb[n + 3:]
                    outb += pkb
                t2[2] = hx(outb)
            new = ' '.join(t2)
        if new is None:
            continue
        # the same instant as in the combined run: time that passed through the other address's timers has passed here too
        pre_now = None
        w.step('advance %d' % prev_now)
        sobs = w.step(new)
        out_lines.append(new); out_trace.append((new, sobs))
        for a, b in zip([o for o in obs if o.startswith('ret pending')], [o for o in sobs if o.startswith('ret pending')]):
            ca, cb = a.split()[3], b.split()[3]
            if ca != '-' and cb != '-':
                idmap[int(ca)] = int(cb)
    return out_lines, out_trace


def c19(ctx):
    res = Result()
    res.rule = ('pairs of seeded walks interleaved on two addresses through one factory (loss and clean/persistent reconnect on either side while the other is mid-exchange); for each '
                'address A the combined run, projected on A (identifiers, Deferreds, timers and protocols renamed by order of first appearance, timer delays instead of absolute '
                'times), is compared step by step with the operations of A replayed alone on a fresh factory; steps of the other address must leave the writes, Deferreds of A,, state and '
                'timers untouched; the combined run is also compared with the Lean model; identifiers of unfinished requests must never collide (C17 monitor)')
    n = 120 if ctx['tier'] == 'quick' else 3000
    if ctx.get('replay'):
        scen = [('replay', ctx['replay']['scenario'], None)]
    else:
        W = dict(QUIET, chunked=0, dupack=0, publish=16, puback=7, pubrec=6, pubcomp=5, subscribe=5, unsubscribe=4, suback=4, unsuback=3, inpub=6, pubrel=4, lost=5, fire=10, build=8, pingresp=2)
        scen = walks(ctx, n, 70, 19000, weights=W, naddr=2, profiles=(3, 3, 2, 1), keepalives=(0, 0, 2, 5))
        # unfinished requests on both addresses while the shared identifier counter wraps
        scen = corpus_scenarios('C19') + scen + wrapold_walks(ctx, 16 if ctx['tier'] == 'quick' else 300, 19500, w1=dict(lost=0))
        scen = scen + [('flapping-neighbour', longrun.flapping_neighbour(20 if ctx['tier'] == 'quick' else 60), None),
                       ('flapping-neighbour-idle', longrun.flapping_neighbour(20 if ctx['tier'] == 'quick' else 60, busy=False), None)]
    for item in scen:
        name, lines = item[0], item[1]
        tr = item[2] if len(item) > 2 and item[2] is not None else realworld.run_scenario(lines)
        res.programs += 1; res.evaluations += 1
        addr_of, timer_owner, dfd_owner = _c19_owner_maps(tr)
        addrs = sorted(set(addr_of.values()))
        if len(addrs) >= 2:
            res.distinct.add(_digest(lines))
        for A in addrs:
            view, interference, _ = _c19_view(tr, A, addr_of, timer_owner, dfd_owner)
            for (idx, op, what) in interference[:1]:
                res.violations.append(dict(signature='interference', scenario=lines[:idx + 1],
                                           what='a step of another address (`%s`) had effects on address %s: %s (walk %s)' % (op[:40], A, what, name)))
            solo = _c19_solo(tr, lines, A, addr_of, timer_owner)
            if solo is None:
                continue
            slines, strace = solo
            res.programs += 1
            sa, st_, sd = _c19_owner_maps(strace)
            sview, _, _ = _c19_view(strace, A, sa, st_, sd)
            if view != sview:
                i = next((j for j, (x, y) in enumerate(zip(view, sview)) if x != y), min(len(view), len(sview)))
                a = view[i] if i < len(view) else None
                b = sview[i] if i < len(sview) else None
                da = [e for e in (a[1] if a else []) if b is None or e not in b[1]][:3]
                db = [e for e in (b[1] if b else []) if a is None or e not in a[1]][:3]
                res.violations.append(dict(signature='differs-from-solo', scenario=lines, solo=slines, address=A,
                                           what='address %s behaves differently next to another address than alone: at its step %d (%s): together %s / alone %s (walk %s)'
                                                % (A, i, a[0] if a else '-', da, db, name)))
        # identifiers never collide across addresses
        for v in monitors.run_monitors(tr, want={'C17'}):
            res.violations.append(dict(signature='id-' + v.sig, scenario=lines[:v.step + 1], what='%s (walk %s)' % (v.msg, name)))
    if ctx['model_ok'] and not ctx.get('replay'):
        run = [(it[0], it[1], it[2] if len(it) > 2 else None) for it in scen]
        models = corr.run_model([it[1] for it in run])
        ndiv = 0
        for it, m in zip(run, models):
            tr = it[2] if it[2] is not None else realworld.run_scenario(it[1])
            d = first_divergence(it[1], [o for (_, o) in tr], m, ALPHABET['C19'])
            if d:
                ndiv += 1
                if len(res.divergences) < 5:
                    res.divergences.append(dict(what='correspondence (C19 alphabet) breaks at step %d `%s`: real %s | model %s' % (d[0], it[1][d[0]][:50], d[1][:5], d[2][:5]), scenario=it[1][:d[0] + 1]))
        res.extra['model_scenarios_compared'] = len(run)
    if scen:
        res.sample(scen[-1][1][:16])
    res.assumptions = ['Env as for the other session properties; one not-yet-lost protocol per address; whole packets per dataReceived in these walks (chunking is the subject of C03)']
    return res
