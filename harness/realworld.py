# Runs the REAL twisted-mqtt code in-process under a virtual reactor and a logging
# transport, one operation line in, observation lines out (the same line protocol the
# Lean driver speaks).  See DESIGN.md section 4.2.
#
# Import this module BEFORE anything imports `mqtt`: it installs the virtual reactor
# as twisted.internet.reactor and replaces random.random.
import sys, os, math, random, functools

REPO_SRC = os.environ.get('VERIF_REPO_SRC', '/repo/src')
if REPO_SRC not in sys.path:
    sys.path.insert(0, REPO_SRC)

TICK = 1 << 20          # virtual clock granularity: 2^-20 s

from twisted.internet import task
import twisted.internet


class VClock(task.Clock):
    """task.Clock whose callLater snaps the delay to the 2^-20 s grid and numbers calls."""
    def __init__(self):
        task.Clock.__init__(self)
        self.reset()

    def reset(self):
        self.calls = []
        self.rightNow = 0.0
        self.allcalls = []

    def callLater(self, delay, f, *a, **kw):
        q = math.floor(delay * TICK + 0.5) / TICK
        dc = task.Clock.callLater(self, q, f, *a, **kw)
        dc._vid = len(self.allcalls)
        self.allcalls.append(dc)
        return dc

    def ticks(self):
        return int(round(self.rightNow * TICK))

    def fire(self, dc):
        """run one particular pending call now, advancing virtual time to its due time"""
        self.calls.remove(dc)
        self.rightNow = max(self.rightNow, dc.getTime())
        dc.called = 1
        dc.func(*dc.args, **dc.kw)


CLOCK = VClock()
# a few attributes code may look for on a reactor
CLOCK.running = True
sys.modules['twisted.internet.reactor'] = CLOCK
twisted.internet.reactor = CLOCK


class _Jitter(object):
    value = 0.0
JITTER = _Jitter()
random.random = lambda: JITTER.value

from twisted.internet import defer, error as txerror
from twisted.python import failure

import mqtt
from mqtt import v31, v311
from mqtt.client.factory import MQTTFactory
import mqtt.client.base as mbase
import mqtt.client.pubsubs as mpubsubs
from mqtt.error import MQTTStateError, MQTTWindowError, MQTTTimeoutError

assert mqtt.__file__.startswith(REPO_SRC), (mqtt.__file__, REPO_SRC)
assert mbase.MQTTBaseProtocol.callLater.__self__ is CLOCK


def hexs(b):
    return bytes(b).hex() or '-'

def unhex(s):
    return b'' if s == '-' else bytes.fromhex(s)

def err_name(e):
    """canonical exception class: small enum"""
    if isinstance(e, failure.Failure):
        e = e.value
    if isinstance(e, type):
        cls = e
    else:
        cls = type(e)
    for c in (MQTTStateError, MQTTWindowError, MQTTTimeoutError, mpubsubs.MQTTSessionCleared,
              txerror.ConnectionDone, txerror.ConnectionAborted, txerror.ConnectionLost,
              defer.AlreadyCalledError, txerror.AlreadyCalled, txerror.AlreadyCancelled):
        if issubclass(cls, c):
            return c.__name__
    if issubclass(cls, ValueError):
        return 'ValueError'
    if issubclass(cls, TypeError):
        return 'TypeError'
    return cls.__name__

REASONS = {'done': txerror.ConnectionDone, 'lostc': txerror.ConnectionLost, 'aborted': txerror.ConnectionAborted}


class LogTransport(object):
    def __init__(self, world, p):
        self.world, self.p = world, p
        self.disconnecting = False
    def write(self, data):
        self.world.obs('w %d %s' % (self.p, hexs(data)))
    def writeSequence(self, seq):
        self.write(b''.join(seq))
    def loseConnection(self):
        self.world.obs('close %d' % self.p)
    def abortConnection(self):
        self.world.obs('abort %d' % self.p)
    def getPeer(self):
        return None
    def getHost(self):
        return None


def parse_str(tok):
    """S ::= n | s:<hex utf8> | i:<int> | y:<hex> (bytes) | b:<hex> (bytearray) | f:<float> | l (empty list) | u:<hex utf-16 surrogate escapes>"""
    if tok == 'n':
        return None
    k, _, v = tok.partition(':')
    if k == 's':
        return unhex(v).decode('utf-8')
    if k == 'u':      # str with lone surrogates: hex of utf-8 with surrogatepass
        return unhex(v).decode('utf-8', 'surrogatepass')
    if k == 'i':
        return int(v)
    if k == 'y':
        return unhex(v)
    if k == 'b':
        return bytearray(unhex(v))
    if k == 'f':
        return float(v)
    if k == 'l':
        return []
    if k == 'o':
        return object()
    raise ValueError('bad value token ' + tok)

def parse_num(tok):
    """rational n/d or integer -> python number (int when d == 1)"""
    if tok == 'n':
        return None
    if '/' in tok:
        n, d = tok.split('/')
        n, d = int(n), int(d)
        return n if d == 1 else n / d
    return int(tok)

def parse_subarg(tok):
    """arg ::= s:<hex> | t:<S>,<int> | l:<S>,<int>;... | L:<S>;<S>... (list of bare values) | n | i:<int>"""
    k, _, v = tok.partition(':')
    if k == 't':
        a, b = v.split(',')
        return (parse_str(a.replace('=', ':')), int(b))
    if k == 'l':
        if v == '':
            return []
        out = []
        for item in v.split(';'):
            a, b = item.split(',')
            out.append((parse_str(a.replace('=', ':')), int(b)))
        return out
    if k == 'L':
        if v == '':
            return []
        return [parse_str(x.replace('=', ':')) for x in v.split(';')]
    return parse_str(tok)

def fmt_val(v):
    if v is None:
        return 'none'
    if v is True:
        return 'b1'
    if v is False:
        return 'b0'
    if isinstance(v, int):
        return 'i%d' % v
    if isinstance(v, list):
        return 'g' + ','.join('%d:%d' % (q, 1 if f else 0) for (q, f) in v)
    return 'other'


class RealWorld(object):
    """One factory, its protocols, transports, Deferreds and the virtual clock."""

    def __init__(self, profile, frames=False):
        self.frames = frames      # log every packet handed to _processPacket as `pkt <p> <hex>` (C03)
        CLOCK.reset()
        JITTER.value = 0.0
        self.out = []
        self.factory = MQTTFactory(profile)
        self.protos = []
        self.dfds = 0
        self.addrs = {}

    # ---- observation log -------------------------------------------------------
    def obs(self, line):
        self.out.append(line)

    def pidx(self, proto):
        for i, p in enumerate(self.protos):
            if p is proto:
                return i
        return -1

    # ---- callbacks installed on protocols --------------------------------------
    def on_publish(self, p, topic, payload, qos, dup, retain, msgId):
        self.obs('pub %d %s %s %d %d %d %s' % (p, hexs(topic.encode('utf-8', 'surrogatepass')), hexs(payload), qos,
                                               1 if dup else 0, 1 if retain else 0,
                                               '-' if msgId is None else str(msgId)))
    def on_disc(self, p, reason):
        self.obs('ondisc %d %s' % (p, err_name(reason)))
    def on_conn(self, p):
        self.obs('onconn %d' % p)

    # ---- Deferred tracking -----------------------------------------------------
    def track(self, d):
        if not isinstance(d, defer.Deferred):
            self.obs('ret other')
            return
        mid = getattr(d, 'msgId', None)
        if d.called:
            res = []
            d.addBoth(lambda r: (res.append(r), 'application-result')[1])       # an application callback need not return None
            r = res[0] if res else None
            if isinstance(r, failure.Failure):
                self.obs('ret fail %s' % err_name(r))
            else:
                self.obs('ret ok %s' % fmt_val(r))
            return
        i = self.dfds
        self.dfds += 1
        self.obs('ret pending %d %s' % (i, '-' if mid is None else str(mid)))
        def cb(v, i=i):
            self.obs('fired %d ok %s' % (i, fmt_val(v)))
            return 'application-result'
        def eb(f, i=i):
            self.obs('fired %d fail %s' % (i, err_name(f)))
            self.run_reentrant()
            return 'application-result'
        d.addCallbacks(cb, eb)

    def run_reentrant(self):
        """an application errback that calls the API again (armed by `reenter <op ...>`, one shot): the nested call's observations
        appear between `reenter-begin` and `reenter-end` inside the step whose processing fired the Deferred"""
        tok = getattr(self, 'reenter', None)
        if not tok:
            return
        self.reenter = None
        self.obs('reenter-begin')
        try:
            getattr(self, 'op_' + tok[0])(*tok[1:])
        except Exception as e:
            self.obs('raised %s' % err_name(e))
        self.obs('reenter-end')

    def op_reenter(self, *tok):
        self.reenter = list(tok)

    # ---- timers ----------------------------------------------------------------
    def timer_desc(self, dc):
        f = dc.func
        kind, owner, extra = 'other', -1, ''
        if isinstance(f, task.LoopingCall):
            kind = 'pingloop'
            owner = self.pidx(getattr(f.f, '__self__', None))
        elif isinstance(f, functools.partial) and getattr(f.func, '__func__', None) is RealWorld.on_disc:
            kind, owner = 'ondisc', f.args[0]
        else:
            name = getattr(f, '__name__', '')
            if name == 'connectError' or name == 'doPingError':
                kind = 'connack' if name == 'connectError' else 'pingalarm'
                for c in (f.__closure__ or ()):
                    try:
                        v = c.cell_contents
                    except ValueError:
                        continue
                    if isinstance(v, mbase.MQTTBaseProtocol):
                        owner = self.pidx(v)
            elif name in ('_publishError', '_pubrelError', '_subscribeError', '_unsubscribeError'):
                kind = {'_publishError': 'rpub', '_pubrelError': 'rrel', '_subscribeError': 'rsub', '_unsubscribeError': 'runsub'}[name]
                owner = self.pidx(getattr(f, '__self__', None))
                if dc.args:
                    extra = ':%s' % getattr(dc.args[0], 'msgId', '?')
            else:
                kind = 'other-' + name
        return 't%d@%d:%s:%d%s' % (dc._vid, int(round(dc.getTime() * TICK)), kind, owner, extra)

    def timers_line(self):
        pend = sorted(CLOCK.calls, key=lambda dc: dc._vid)
        return 'timers ' + ' '.join(self.timer_desc(dc) for dc in pend)

    def pending_timers(self):
        return sorted(CLOCK.calls, key=lambda dc: dc._vid)

    # ---- one operation ---------------------------------------------------------
    def step(self, line):
        """execute one op line; returns the list of observation lines of this step"""
        self.out = []
        tok = line.split()
        op = tok[0]
        try:
            getattr(self, 'op_' + op)(*tok[1:])
        except Exception as e:      # an exception escaping an entry point
            if op in ('recv', 'lost', 'fire'):
                self.obs('esc %s' % err_name(e))
            else:
                self.obs('raised %s' % err_name(e))
        out = self.out
        self.out = []
        for i, p in enumerate(self.protos):
            pass
        out.append('now %d' % CLOCK.ticks())
        out.append(self.states_line())
        out.append(self.timers_line())
        out.append(self.store_line())
        return out

    def store_line(self):
        """the factory's containers address by address, in container order (identifier / QoS / alarm set): the state the model's entry
        list is supposed to mirror; compared with the driver's `store` line after every operation"""
        f = self.factory
        tables = (f.queuePublishTx, f.windowPublish, f.windowPubRelease, f.windowSubscribe, f.windowUnsubscribe, f.windowPubRx)
        addrs = set()
        for d in tables:
            for a, c in d.items():
                if len(c):
                    addrs.add(a)
        armed = lambda r: 1 if getattr(r, 'alarm', None) is not None else 0
        parts = []
        for a in sorted(addrs, key=lambda a: int(str(a)[1:]) if str(a)[1:].isdigit() else 0):
            q = ','.join('%d/%d/%d' % (r.msgId or 0, r.qos, armed(r)) for r in f.queuePublishTx.get(a, ()))
            pub = ','.join('%d/%d/%d' % (r.msgId or 0, r.qos, armed(r)) for r in f.windowPublish.get(a, {}).values())
            rel = ','.join('%d/%d' % (k, armed(r)) for k, r in f.windowPubRelease.get(a, {}).items())
            sub = ','.join('%d/%d' % (k, armed(r)) for k, r in f.windowSubscribe.get(a, {}).items())
            uns = ','.join('%d/%d' % (k, armed(r)) for k, r in f.windowUnsubscribe.get(a, {}).items())
            rx = ','.join(str(k) for k in f.windowPubRx.get(a, {}).keys())
            parts.append('%s:q=%s;pub=%s;rel=%s;sub=%s;unsub=%s;rx=%s' % (a, q, pub, rel, sub, uns, rx))
        return 'store ' + ' '.join(parts)

    def states_line(self):
        names = []
        for p in self.protos:
            if p.state is p.IDLE:
                names.append('I')
            elif p.state is p.CONNECTING:
                names.append('G')
            elif p.state is p.CONNECTED:
                names.append('C')
            else:
                names.append('?' + type(p.state).__name__)
        return 'states ' + ''.join(names)

    def op_build(self, addr):
        p = self.factory.buildProtocol(addr)
        i = len(self.protos)
        self.protos.append(p)
        if self.frames:
            orig = p._processPacket
            def wrapped(packet, orig=orig, i=i):
                self.obs('pkt %d %s' % (i, hexs(packet)))
                return orig(packet)
            p._processPacket = wrapped
        p.makeConnection(LogTransport(self, i))

    def op_sethandlers(self, p, mask):
        p, mask = int(p), int(mask)
        proto = self.protos[p]
        proto.onPublish = functools.partial(self.on_publish, p) if mask & 1 else None
        proto.onDisconnection = functools.partial(self.on_disc, p) if mask & 2 else None
        proto.onMqttConnectionMade = functools.partial(self.on_conn, p) if mask & 4 else None

    def op_connect(self, p, clientId, keepalive, version, clean, willTopic='n', willMessage='n', willQoS='0',
                   willRetain='0', username='n', password='n'):
        proto = self.protos[int(p)]
        ver = {'31': v31, '311': v311}.get(version, {'level': 9, 'tag': 'bogus'} if version != 'n' else None)
        d = proto.connect(parse_str(clientId), keepalive=parse_num(keepalive), willTopic=parse_str(willTopic),
                          willMessage=parse_str(willMessage), willQoS=parse_num(willQoS), willRetain=(willRetain == '1'),
                          username=parse_str(username), password=parse_str(password), cleanStart=(clean == '1'),
                          version=ver)
        self.track(d)

    def op_disconnect(self, p):
        self.protos[int(p)].disconnect()
        self.obs('ret none')

    def op_ping(self, p):
        self.protos[int(p)].ping()

    def op_publish(self, p, topic, payload, qos, retain):
        pl = parse_str(payload)
        d = self.protos[int(p)].publish(parse_str(topic), pl, parse_num(qos), retain == '1')
        self.track(d)
        if isinstance(pl, bytearray):
            # the application reuses its buffer once publish() has returned: what was accepted must have been captured by then
            # (retransmissions carry the same bytes as the first transmission -- C08)
            for i in range(len(pl)):
                pl[i] ^= 0xFF
            pl.extend(b'reused')

    def op_subscribe(self, p, arg, qos='0'):
        a = parse_subarg(arg)
        d = self.protos[int(p)].subscribe(a, parse_num(qos))
        self.track(d)
        if isinstance(a, list):
            del a[:]            # likewise: the caller's list is the caller's again

    def op_unsubscribe(self, p, arg):
        a = parse_subarg(arg)
        d = self.protos[int(p)].unsubscribe(a)
        self.track(d)
        if isinstance(a, list):
            del a[:]

    def op_setwin(self, p, n):
        self.protos[int(p)].setWindowSize(parse_num(n))
        self.obs('ret none')

    def op_settimeout(self, p, n):
        self.protos[int(p)].setTimeout(parse_num(n))
        self.obs('ret none')

    def op_setbw(self, p, bw, factor='n'):
        if factor == 'n':
            self.protos[int(p)].setBandwith(parse_num(bw))
        else:
            self.protos[int(p)].setBandwith(parse_num(bw), parse_num(factor))
        self.obs('ret none')

    def op_jit(self, v):
        JITTER.value = float(parse_num(v))

    def op_advance(self, ticks):
        """let virtual time pass without running anything (used by the C19 solo replays)"""
        CLOCK.rightNow = max(CLOCK.rightNow, int(ticks) / TICK)

    def op_setid(self, v):
        self.factory.id = int(v)

    def op_recv(self, p, data):
        self.protos[int(p)].dataReceived(unhex(data))

    def op_lost(self, p, reason='done'):
        self.protos[int(p)].connectionLost(failure.Failure(REASONS[reason]()))

    def op_fire(self, t):
        t = int(t)
        for dc in CLOCK.calls:
            if dc._vid == t:
                CLOCK.fire(dc)
                return
        self.obs('nofire')

    # ---- introspection used by generators (never by oracles) --------------------
    def earliest_timers(self):
        pend = self.pending_timers()
        if not pend:
            return []
        m = min(dc.getTime() for dc in pend)
        return [dc for dc in pend if dc.getTime() == m]


def run_scenario(lines, frames=False, keep_world=False):
    """lines[0] must be 'factory <profile>'. Returns list of (opline, [obs lines])."""
    assert lines[0].startswith('factory ')
    w = RealWorld(int(lines[0].split()[1]), frames=frames)
    res = [(lines[0], [])]
    for ln in lines[1:]:
        ln = ln.strip()
        if not ln or ln.startswith('#'):
            continue
        res.append((ln, w.step(ln)))
    if keep_world:
        return res, w
    return res


if __name__ == '__main__':
    lines = [l for l in sys.stdin.read().splitlines() if l.strip() and not l.startswith('#')]
    for op, obs in run_scenario(lines):
        print('> ' + op)
        for o in obs:
            print(o)
