#!/venv/bin/python
# Translator (small, for tables and constants): reads /repo's CURRENT source and regenerates
# lean/MqttVerif/Generated/Config.lean -- class constants by import-time introspection, the
# state-class dispatch matrix by building a protocol per profile through the real factory and
# asking, for every state object and method name, whether it still resolves to BaseState's.
# Writes the file only if its content changed. Exit 0 on success, 3 if extraction failed
# (no file is written then: the checks treat that as a broken proof obligation).
import sys, os, hashlib, json

HERE = os.path.dirname(os.path.abspath(__file__))
OUT = os.path.join(HERE, '..', 'lean', 'MqttVerif', 'Generated', 'Config.lean')
REPO_SRC = os.environ.get('VERIF_REPO_SRC', '/repo/src')

OPS = ['connect', 'disconnect', 'subscribe', 'unsubscribe', 'publish', 'ping',
       'handleCONNACK', 'handlePINGRESP', 'handleSUBACK', 'handleUNSUBACK', 'handlePUBLISH',
       'handlePUBACK', 'handlePUBREC', 'handlePUBREL', 'handlePUBCOMP']

import ast

CONT = {'queuePublishTx', 'windowPublish', 'windowPubRelease', 'windowSubscribe', 'windowUnsubscribe', 'windowPubRx'}

def parents(tree):
    par = {}
    for n in ast.walk(tree):
        for c in ast.iter_child_nodes(n):
            par[c] = n
    return par

def is_self_attr(n, name):
    return isinstance(n, ast.Attribute) and n.attr == name and isinstance(n.value, ast.Name) and n.value.id == 'self'

def addr_keyed(src_dir):
    """every use of one of the factory's six per-address dictionaries in the protocol classes is `self.factory.<dict>[self.addr]`;
    in the factory itself: created in __init__, indexed by the address argument in buildProtocol, scanned over all addresses only by _idInUse"""
    bad = []
    n_ok = 0
    for fn in ('pubsubs.py', 'base.py', 'publisher.py', 'subscriber.py'):
        try:
            src = open(os.path.join(src_dir, 'mqtt', 'client', fn)).read()
        except IOError:
            continue
        tree = ast.parse(src)
        par = parents(tree)
        # local names bound to self.addr by a plain assignment (`cnx = self.addr`), per function
        alias = {}
        for f in ast.walk(tree):
            if isinstance(f, ast.FunctionDef):
                names = set()
                for a in ast.walk(f):
                    if isinstance(a, ast.Assign) and len(a.targets) == 1 and isinstance(a.targets[0], ast.Name) and is_self_attr(a.value, 'addr'):
                        names.add(a.targets[0].id)
                # a name assigned anything else anywhere in the function is not an alias
                for a in ast.walk(f):
                    if isinstance(a, ast.Assign) and not is_self_attr(a.value, 'addr'):
                        for t in a.targets:
                            for x in ([t] if isinstance(t, ast.Name) else list(t.elts) if isinstance(t, (ast.Tuple, ast.List)) else []):
                                if isinstance(x, ast.Name):
                                    names.discard(x.id)
                for n in ast.walk(f):
                    alias[n] = names
        def key_ok(node, sl):
            return is_self_attr(sl, 'addr') or (isinstance(sl, ast.Name) and sl.id in alias.get(node, ()))
        for n in ast.walk(tree):
            if isinstance(n, ast.Attribute) and n.attr in CONT:
                p = par.get(n)
                ok = is_self_attr(n.value, 'factory') and isinstance(p, ast.Subscript) and p.value is n and key_ok(n, p.slice)
                if ok:
                    n_ok += 1
                else:
                    bad.append('%s:%d' % (fn, n.lineno))
    src = open(os.path.join(src_dir, 'mqtt', 'client', 'factory.py')).read()
    tree = ast.parse(src)
    par = parents(tree)
    func_of = {}
    for f in ast.walk(tree):
        if isinstance(f, ast.FunctionDef):
            for n in ast.walk(f):
                func_of[n] = f.name
    for n in ast.walk(tree):
        if isinstance(n, ast.Attribute) and n.attr in CONT:
            fname = func_of.get(n)
            p = par.get(n)
            if fname == '__init__':
                ok = is_self_attr(n, n.attr) and isinstance(p, ast.Assign)
            elif fname == 'buildProtocol':
                ok = isinstance(p, ast.Subscript) and p.value is n and isinstance(p.slice, ast.Name) and p.slice.id == 'addr'
                if not ok and isinstance(p, ast.Attribute) and p.attr == 'get':
                    c = par.get(p)
                    ok = isinstance(c, ast.Call) and c.func is p and c.args and isinstance(c.args[0], ast.Name) and c.args[0].id == 'addr'
            elif fname == '_idInUse':
                ok = True
            else:
                ok = False
            if ok:
                n_ok += 1
            else:
                bad.append('factory.py:%d' % n.lineno)
    return n_ok, bad


def source_digest():
    h = hashlib.sha256()
    files = []
    for root, _, names in os.walk(os.path.join(REPO_SRC, 'mqtt')):
        if os.sep + 'test' in root:
            continue
        for n in sorted(names):
            if n.endswith('.py') and n != '_version.py':
                files.append(os.path.join(root, n))
    for f in sorted(files):
        h.update(f.encode()); h.update(open(f, 'rb').read())
    return h.hexdigest()

def extract():
    sys.path.insert(0, REPO_SRC)
    import mqtt
    from mqtt.client.factory import MQTTFactory
    from mqtt.client import base, pubsubs, interval
    from mqtt import v31, v311
    import inspect
    cfg = {}
    cfg['maxWindow'] = int(base.MQTTBaseProtocol.MAX_WINDOW)
    cfg['timeoutInitial'] = int(base.MQTTBaseProtocol.TIMEOUT_INITIAL)
    cfg['timeoutMaxInitial'] = int(base.MQTTBaseProtocol.TIMEOUT_MAX_INITIAL)
    cfg['defaultBandwith'] = int(pubsubs.MQTTProtocol.DEFAULT_BANDWITH)
    cfg['defaultFactor'] = int(pubsubs.MQTTProtocol.DEFAULT_FACTOR)
    sig = inspect.signature(interval.Interval.__init__)
    cfg['intervalMaxDelay'] = int(sig.parameters['maxDelay'].default)
    cfg['intervalFactor'] = int(sig.parameters['factor'].default)
    cfg['v31Level'], cfg['v31Tag'] = int(v31['level']), str(v31['tag'])
    cfg['v311Level'], cfg['v311Tag'] = int(v311['level']), str(v311['tag'])
    pt = base.MQTTBaseProtocol.packetTypes
    # which type nibbles have a `_handle<NAME>` decoder on the protocol class
    handled = []
    for t in range(16):
        name = pt.get(t)
        handled.append(bool(name is not None and getattr(pubsubs.MQTTProtocol, '_handle%s' % name, None)))
    cfg['handledTypes'] = handled
    cfg['knownTypes'] = [t in pt for t in range(16)]
    cfg['typeNames'] = [pt.get(t, '') for t in range(16)]
    table = []
    for profile in (1, 2, 3):
        f = MQTTFactory(profile)
        p = f.buildProtocol('cfg')
        rows = []
        for st in (p.IDLE, p.CONNECTING, p.CONNECTED):
            row = []
            for op in OPS:
                impl = getattr(type(st), op, None)
                basei = getattr(base.BaseState, op, None)
                row.append(impl is not None and impl is not basei)
            rows.append(row)
        table.append(rows)
    cfg['dispatch'] = table
    n_ok, bad = addr_keyed(REPO_SRC)
    cfg['addrKeyedAccesses'], cfg['addrUnkeyedAccesses'], cfg['addrUnkeyedAt'] = n_ok, len(bad), bad
    cfg['profiles'] = [int(MQTTFactory.SUBSCRIBER), int(MQTTFactory.PUBLISHER),
                       int(MQTTFactory.SUBSCRIBER | MQTTFactory.PUBLISHER)]
    return cfg

def lean_bool(b):
    return 'true' if b else 'false'

def render(cfg):
    L = []
    L.append('/-  GENERATED by harness/gen_config.py from the current source under %s -- do not edit.' % REPO_SRC)
    L.append('    Class constants and the state-class dispatch matrix of twisted-mqtt. -/')
    L.append('namespace Mqtt.Config')
    L.append('')
    for k in ('maxWindow', 'timeoutInitial', 'timeoutMaxInitial', 'defaultBandwith', 'defaultFactor',
              'intervalMaxDelay', 'intervalFactor', 'v31Level', 'v311Level'):
        L.append('def %s : Nat := %d' % (k, cfg[k]))
    L.append('def v31Tag : String := %s' % json.dumps(cfg['v31Tag']))
    L.append('def v311Tag : String := %s' % json.dumps(cfg['v311Tag']))
    L.append('')
    L.append('/-- profile values of MQTTFactory: SUBSCRIBER, PUBLISHER, SUBSCRIBER|PUBLISHER -/')
    L.append('def profiles : List Nat := [%s]' % ', '.join(str(x) for x in cfg['profiles']))
    L.append('')
    L.append('/-- type nibble ↦ is a key of `packetTypes` -/')
    L.append('def knownTypes : List Bool := [%s]' % ', '.join(lean_bool(b) for b in cfg['knownTypes']))
    L.append('/-- type nibble ↦ the protocol class has a `_handle<NAME>` method for it -/')
    L.append('def handledTypes : List Bool := [%s]' % ', '.join(lean_bool(b) for b in cfg['handledTypes']))
    L.append('def typeNames : List String := [%s]' % ', '.join(json.dumps(s) for s in cfg['typeNames']))
    L.append('')
    L.append('/-- operations, in the column order of `dispatchTable`:')
    L.append('    ' + ' '.join('%d=%s' % (i, o) for i, o in enumerate(OPS)) + ' -/')
    L.append('def nOps : Nat := %d' % len(OPS))
    L.append('')
    L.append('/-- [profile 1,2,3][IDLE,CONNECTING,CONNECTED][op]: the state object overrides BaseState\'s')
    L.append('    refuse/ignore method (for `ping`: has the method at all) -/')
    L.append('def dispatchTable : List (List (List Bool)) := [')
    for pi, rows in enumerate(cfg['dispatch']):
        L.append('  [')
        for ri, row in enumerate(rows):
            L.append('    [%s]%s' % (', '.join(lean_bool(b) for b in row), ',' if ri < 2 else ''))
        L.append('  ]%s' % (',' if pi < 2 else ''))
    L.append(']')
    L.append('')
    L.append('end Mqtt.Config')
    return '\n'.join(L) + '\n'

OUT2 = os.path.join(HERE, '..', 'lean', 'MqttVerif', 'Generated', 'AddrScan.lean')

def render_addr(cfg):
    L = []
    L.append('/-  GENERATED by harness/gen_config.py from the current source under %s -- do not edit.' % REPO_SRC)
    L.append('    (kept apart from Config.lean, which every module imports: these two numbers move with any edit near a dictionary access) -/')
    L.append('namespace Mqtt.Config')
    L.append('')
    L.append('/-- uses of the factory\'s six per-address dictionaries in the client\'s source (AST scan): those of the form')
    L.append('    `self.factory.<dict>[self.addr]` (or through a local alias of `self.addr`; in the factory: created in `__init__`, indexed by the')
    L.append('    address argument in `buildProtocol`, scanned over all addresses only in `_idInUse`), and the others%s -/' % (' (at ' + ', '.join(cfg['addrUnkeyedAt'][:8]) + ')' if cfg['addrUnkeyedAt'] else ''))
    L.append('def addrKeyedAccesses : Nat := %d' % cfg['addrKeyedAccesses'])
    L.append('def addrUnkeyedAccesses : Nat := %d' % cfg['addrUnkeyedAccesses'])
    L.append('')
    L.append('end Mqtt.Config')
    return '\n'.join(L) + '\n'

def main():
    try:
        cfg = extract()
        text = render(cfg)
    except Exception as e:
        sys.stderr.write('gen_config: extraction failed: %r\n' % (e,))
        return 3
    old = open(OUT).read() if os.path.exists(OUT) else None
    if old != text:
        os.makedirs(os.path.dirname(OUT), exist_ok=True)
        open(OUT, 'w').write(text)
    text2 = render_addr(cfg)
    old2 = open(OUT2).read() if os.path.exists(OUT2) else None
    if old2 != text2:
        open(OUT2, 'w').write(text2)
    print(json.dumps({'digest': source_digest(), 'changed': old != text}))
    return 0

if __name__ == '__main__':
    sys.exit(main())
