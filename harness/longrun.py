# Long and large histories: the corners that short seeded walks do not reach -- many reconnections of one address, many
# retransmissions of one packet, deep queues behind the largest window, hundreds of out-of-state packets, another address
# flapping, payloads of 64 KiB / 1 MiB, keepalives above 1024 s. Scripted against a live RealWorld (timer ids are read from it),
# returned as plain scenarios: they are then run on the real code and the model like every other scenario and judged by the
# property's monitor.
import realworld
from walker import s_tok, hx, connack, ack, suback, publish_pkt, pkt


class Script(object):
    def __init__(self, profile):
        self.w = realworld.RealWorld(profile)
        self.lines = ['factory %d' % profile]
        self.last = []
        CURRENT[:] = [self]

    def do(self, line):
        self.lines.append(line)
        self.last = self.w.step(line)
        return self.last

    def timers(self):
        """[(vid, kind, owner, extra)] of the pending timers, earliest first"""
        out = []
        for dc in sorted(self.w.pending_timers(), key=lambda d: (d.getTime(), d._vid)):
            desc = self.w.timer_desc(dc)          # t<vid>@<due>:<kind>:<owner>[:<mid>]
            f = desc.split('@')[1].split(':')
            out.append((dc._vid, f[1], int(f[2]), f[3] if len(f) > 3 else None))
        return out

    def fire(self, kind=None, owner=None, mid=None):
        for vid, k, o, m in self.timers():
            if (kind is None or k == kind) and (owner is None or o == owner) and (mid is None or m == str(mid)):
                self.do('fire %d' % vid)
                return True
        return False

    def fire_all(self, rounds=1, kinds=None):
        for _ in range(rounds):
            ts = [t for t in self.timers() if kinds is None or t[1] in kinds]
            if not ts:
                return
            self.do('fire %d' % ts[0][0])


CURRENT = []      # the Script being filled by the builder that runs now


def robust(f):
    """a builder reads the implementation's observations (timer ids, container contents) to decide what to do next; if the implementation is broken
    that may fail half-way: the scenario scripted so far is still a scenario, and it is what exhibits the failure"""
    def g(*a, **kw):
        del CURRENT[:]
        try:
            return f(*a, **kw)
        except Exception:
            return list(CURRENT[0].lines) if CURRENT else None
    g.__name__ = f.__name__
    return g


@robust
def reconnect_chain(profile, n, versions, with_rx=True):
    """one address, a persistent session kept alive over n reconnections (protocol versions cycling through `versions`) with a QoS 1
    publish never acknowledged, a QoS 2 publish held in the release phase, one awaiting PUBREC, a held-back one (window 3) and an
    inbound QoS 2 message awaiting its PUBREL; every few connections a retry timer expires; at the end everything is acknowledged"""
    s = Script(profile)
    s.do('build a0'); s.do('sethandlers 0 7')
    s.do('connect 0 %s 0 %s 0' % (s_tok('chain'), versions[0])); s.do('recv 0 20020000'); s.do('setwin 0 3')
    s.do('publish 0 %s b:5131 1 0' % s_tok('c/q1'))            # id 1
    s.do('publish 0 %s b:5132 2 1' % s_tok('c/q2a'))           # id 2
    s.do('publish 0 %s b:5133 2 0' % s_tok('c/ñ'))        # id 3
    s.do('publish 0 %s b:5134 1 0' % s_tok('c/held'))          # id 4, held back
    s.do('recv 0 %s' % hx(ack(0x50, 2)))                       # id 2 -> release phase
    if with_rx and profile in (1, 3):
        s.do('recv 0 %s' % hx(publish_pkt('in/q2', b'stored', 2, mid=77)))
    p = 0
    for i in range(1, n + 1):
        s.do('lost %d %s' % (p, ('lostc', 'done', 'aborted')[i % 3]))
        s.do('build a0'); p += 1
        s.do('sethandlers %d 7' % p)
        s.do('connect %d %s 0 %s 0' % (p, s_tok('chain'), versions[i % len(versions)]))
        s.do('recv %d %s' % (p, hx(connack(0, 1)))); s.do('setwin %d 3' % p)
        if i % 4 == 0:
            s.fire('rrel', owner=p)
        if i % 5 == 0:
            s.fire('rpub', owner=p)
        if with_rx and profile in (1, 3) and i % 6 == 0:
            s.do('recv %d %s' % (p, hx(publish_pkt('in/q2', b'stored', 2, mid=77, dup=True))))     # the broker repeats it
    s.do('recv %d %s' % (p, hx(ack(0x40, 1))))
    s.do('recv %d %s' % (p, hx(ack(0x70, 2))))
    s.do('recv %d %s' % (p, hx(ack(0x50, 3)))); s.do('recv %d %s' % (p, hx(ack(0x70, 3))))
    s.do('recv %d %s' % (p, hx(ack(0x40, 4))))
    if with_rx and profile in (1, 3):
        s.do('recv %d %s' % (p, hx(ack(0x62, 77)))); s.do('recv %d %s' % (p, hx(ack(0x62, 77))))
    s.do('lost %d done' % p)
    s.fire_all(4)
    return s.lines


@robust
def expiry_chain(profile, ver, kind, n, ending):
    """n consecutive expiries of the retry timer of ONE request (kind in publish1, publish2, pubrel, subscribe, unsubscribe) while
    requests of the other kinds wait; then `ending`: the fitting acknowledgement(s) arrive late ('ack'), or the connection is lost and
    a clean/persistent successor connects ('loss')"""
    s = Script(profile)
    s.do('build a0'); s.do('sethandlers 0 7')
    s.do('connect 0 %s 0 %s %d' % (s_tok('exp'), ver, 1 if ending == 'loss' else 0)); s.do('recv 0 20020000'); s.do('setwin 0 8')
    ids = {}
    if profile in (2, 3):
        s.do('publish 0 %s b:61 1 0' % s_tok('e/1')); ids['publish1'] = 1
        s.do('publish 0 %s b:62 2 0' % s_tok('e/2')); ids['publish2'] = 2
        s.do('publish 0 %s b:63 2 0' % s_tok('e/3')); ids['pubrel'] = 3
        s.do('recv 0 %s' % hx(ack(0x50, 3)))
    if profile in (1, 3):
        s.do('subscribe 0 %s 1' % s_tok('e/s')); ids['subscribe'] = int(next(o for o in s.last if o.startswith('ret pending')).split()[3])
        s.do('unsubscribe 0 %s' % s_tok('e/u')); ids['unsubscribe'] = int(next(o for o in s.last if o.startswith('ret pending')).split()[3])
    if kind not in ids:
        return None
    tk = {'publish1': 'rpub', 'publish2': 'rpub', 'pubrel': 'rrel', 'subscribe': 'rsub', 'unsubscribe': 'runsub'}[kind]
    for _ in range(n):
        if not s.fire(tk, owner=0, mid=ids[kind]):
            break
    if ending == 'ack':
        m = ids[kind]
        if kind == 'publish1':
            s.do('recv 0 %s' % hx(ack(0x40, m)))
        elif kind == 'publish2':
            s.do('recv 0 %s' % hx(ack(0x50, m))); s.do('recv 0 %s' % hx(ack(0x70, m)))
        elif kind == 'pubrel':
            s.do('recv 0 %s' % hx(ack(0x70, m)))
        elif kind == 'subscribe':
            s.do('recv 0 %s' % hx(suback(m, [1])))
        else:
            s.do('recv 0 %s' % hx(ack(0xB0, m)))
        s.do('recv 0 %s' % hx(ack(0x40, 9)))
        s.do('lost 0 done')
    else:
        s.do('lost 0 lostc')
        s.do('build a0'); s.do('sethandlers 1 7'); s.do('connect 1 %s 0 %s 1' % (s_tok('exp'), ver)); s.do('recv 1 20020000'); s.do('setwin 1 2')
        if profile in (1, 3):
            s.do('subscribe 1 %s 0' % s_tok('n')); s.do('unsubscribe 1 %s' % s_tok('n'))
        if profile in (2, 3):
            s.do('publish 1 %s b:64 1 0' % s_tok('n'))
        s.do('lost 1 done')
    s.fire_all(6)
    return s.lines


@robust
def deep_queue(profile, ver, depth):
    """window 16, `depth` publishes of mixed QoS issued at once, acknowledged newest first; then a clean loss with the rest pending"""
    s = Script(profile)
    s.do('build a0'); s.do('sethandlers 0 7')
    s.do('connect 0 %s 0 %s 1' % (s_tok('deep'), ver)); s.do('recv 0 20020000'); s.do('setwin 0 16')
    mids = []
    for i in range(depth):
        q = (1, 2, 0, 1)[i % 4]
        s.do('publish 0 %s b:%02x 0 0' % (s_tok('d/%05d' % i), i % 256) if q == 0 else 'publish 0 %s b:%02x %d 0' % (s_tok('d/%05d' % i), i % 256, q))
        if q:
            mids.append((int(next(o for o in s.last if o.startswith('ret pending')).split()[3]), q))
    done = 0
    inflight = []
    # acknowledge what is in flight, newest first, until two thirds are done
    import mqttparse
    while done < (2 * len(mids)) // 3:
        store = [o for o in s.last if o.startswith('store')][0]
        pub = store.split('pub=')[1].split(';')[0]
        rel = store.split('rel=')[1].split(';')[0]
        acted = False
        if rel:
            m = int(rel.split(',')[-1].split('/')[0])
            s.do('recv 0 %s' % hx(ack(0x70, m))); done += 1; acted = True
        elif pub:
            m, q = pub.split(',')[-1].split('/')[:2]
            if q == '1':
                s.do('recv 0 %s' % hx(ack(0x40, int(m)))); done += 1
            else:
                s.do('recv 0 %s' % hx(ack(0x50, int(m))))
            acted = True
        if not acted:
            break
    s.do('lost 0 lostc')
    s.do('build a0'); s.do('sethandlers 1 7'); s.do('connect 1 %s 0 %s 1' % (s_tok('deep'), ver)); s.do('recv 1 20020000')
    s.do('publish 1 %s b:00 1 0' % s_tok('d/after')); s.do('lost 1 done')
    return s.lines


@robust
def foreign_flood(profile, stage, n):
    """n packets that do not belong to the state/profile, then ordinary traffic: nothing may have changed"""
    s = Script(profile)
    s.do('build a0'); s.do('sethandlers 0 7')
    s.do('connect 0 %s 0 311 1' % s_tok('flood'))
    if stage == 'connected':
        s.do('recv 0 20020000'); s.do('setwin 0 4')
        if profile in (2, 3):
            s.do('publish 0 %s b:41 1 0' % s_tok('f/p'))
        if profile in (1, 3):
            s.do('subscribe 0 %s 1' % s_tok('f/s'))
    foreign = {1: [ack(0x40, 5), ack(0x50, 5), ack(0x70, 5)], 2: [publish_pkt('x', b'y', 0), publish_pkt('x', b'y', 1, mid=5), ack(0x62, 5), suback(5, [0]), ack(0xB0, 5)],
               3: [connack(0, 0), pkt(0xD0)]}[profile]
    if stage == 'connecting':
        foreign = [ack(0x40, 5), ack(0x50, 5), ack(0x70, 5), publish_pkt('x', b'y', 0), ack(0x62, 5), suback(5, [0]), ack(0xB0, 5), pkt(0xD0)]
    if stage == 'connected':
        foreign = foreign + [connack(0, 0)]
    for i in range(n):
        s.do('recv 0 %s' % hx(foreign[i % len(foreign)]))
    if stage == 'connecting':
        s.do('recv 0 20020000')
    if profile in (2, 3):
        s.do('publish 0 %s b:42 1 0' % s_tok('f/q'))
        if stage == 'connected':
            s.do('recv 0 %s' % hx(ack(0x40, 1)))
    if profile in (1, 3):
        s.do('unsubscribe 0 %s' % s_tok('f/u'))
    s.do('lost 0 done')
    return s.lines


@robust
def flapping_neighbour(n, busy=True):
    """address a0 connected (one publish in flight if `busy`, otherwise nothing at all pending; keepalive running) while address a1 is built,
    connected, used and lost n times; then a0 is used again"""
    s = Script(3)
    s.do('build a0'); s.do('sethandlers 0 7'); s.do('connect 0 %s 60000 311 0' % s_tok('stable')); s.do('recv 0 20020000')
    if busy:
        s.do('publish 0 %s b:41 1 0' % s_tok('a/1'))
    p = 0
    for i in range(n):
        s.do('build a1'); p += 1
        s.do('sethandlers %d 7' % p); s.do('connect %d %s 0 311 %d' % (p, s_tok('flap'), i % 2)); s.do('recv %d 20020000' % p)
        if i % 3 == 0:
            s.do('publish %d %s b:42 1 0' % (p, s_tok('b/%d' % i)))
        s.do('lost %d %s' % (p, ('lostc', 'done')[i % 2]))
    s.do('publish 0 %s b:43 2 0' % s_tok('a/2'))
    if busy:
        s.do('recv 0 %s' % hx(ack(0x40, 1)))
    s.do('subscribe 0 %s 1' % s_tok('a/s'))
    s.do('recv 0 %s' % hx(publish_pkt('a/in', b'z', 2, mid=9))); s.do('recv 0 %s' % hx(ack(0x62, 9)))
    s.do('lost 0 done')
    s.fire_all(3)
    return s.lines


@robust
def large_payloads(profile, ver, size):
    """a QoS 1 and a QoS 2 publish of `size` payload bytes: first transmission, an expiry each (DUP), loss, persistent resumption (DUP), acks"""
    s = Script(profile)
    s.do('build a0'); s.do('sethandlers 0 7'); s.do('connect 0 %s 0 %s 0' % (s_tok('big'), ver)); s.do('recv 0 20020000'); s.do('setwin 0 4')
    s.do('publish 0 %s b:%s 1 0' % (s_tok('big/1'), '5a' * size))
    s.do('publish 0 %s b:%s 2 0' % (s_tok('big/2'), 'a5' * size))
    s.do('publish 0 %s b:31 1 0' % s_tok('small'))
    s.fire('rpub', owner=0, mid=1); s.fire('rpub', owner=0, mid=2)
    s.do('lost 0 lostc'); s.do('build a0'); s.do('sethandlers 1 7'); s.do('connect 1 %s 0 %s 0' % (s_tok('big'), ver)); s.do('recv 1 %s' % hx(connack(0, 1)))
    s.do('recv 1 %s' % hx(ack(0x40, 1))); s.do('recv 1 %s' % hx(ack(0x50, 2))); s.do('recv 1 %s' % hx(ack(0x70, 2))); s.do('recv 1 %s' % hx(ack(0x40, 3)))
    s.do('lost 1 done')
    return s.lines


@robust
def big_keepalive(profile, ver, k, pattern):
    """keepalive k (possibly far above 1024 s): the CONNACK deadline is k seconds ('timeout'), PINGREQ every k seconds with the PINGRESP
    arriving just in time ('answered'), or never ('silent': abort exactly k seconds after the PINGREQ)"""
    s = Script(profile)
    s.do('build a0'); s.do('sethandlers 0 7'); s.do('connect 0 %s %d %s 1' % (s_tok('ka'), k, ver))
    if pattern == 'timeout':
        s.fire('connack')
        s.do('lost 0 aborted'); s.fire_all(3)
        return s.lines
    s.do('recv 0 20020000')
    for period in range(4):
        if pattern == 'answered':
            s.do('recv 0 d000')
        ts = s.timers()
        loops = [t for t in ts if t[1] == 'pingloop']
        alarms = [t for t in ts if t[1] == 'pingalarm']
        if pattern == 'silent' and alarms and period >= 1:
            s.do('fire %d' % alarms[0][0]); break
        if loops:
            s.do('fire %d' % loops[0][0])
    s.do('lost 0 aborted'); s.fire_all(3)
    return s.lines


@robust
def many_topics(profile, ver, n):
    """subscribe()/unsubscribe() naming n topics (SUBACK with n return codes: two-byte remaining length from n = 126)"""
    s = Script(profile)
    s.do('build a0'); s.do('sethandlers 0 7'); s.do('connect 0 %s 0 %s 1' % (s_tok('many'), ver)); s.do('recv 0 20020000'); s.do('setwin 0 2')
    items = ';'.join('%s,%d' % (s_tok('t/%d' % i).replace(':', '='), i % 3) for i in range(n))
    s.do('subscribe 0 l:%s 0' % items)
    m = int(next(o for o in s.last if o.startswith('ret pending')).split()[3])
    s.do('recv 0 %s' % hx(suback(m, [(i % 3) if i % 7 else 0x80 for i in range(n)])))
    s.do('unsubscribe 0 L:%s' % ';'.join(s_tok('t/%d' % i).replace(':', '=') for i in range(n)))
    m = int(next(o for o in s.last if o.startswith('ret pending')).split()[3])
    s.do('recv 0 %s' % hx(ack(0xB0, m)))
    s.do('lost 0 done')
    return s.lines


@robust
def wrap_resume(profile, ver, start, clean_next=0):
    """publishes in flight whose identifiers straddle the 65535 -> 1 wrap (window 6: QoS 1 and 2, one in the release phase, two held back), lost
    and resumed on a persistent session: the re-sent packets keep the order of the original publish() calls, not the order of their identifiers"""
    s = Script(profile)
    s.do('build a0'); s.do('sethandlers 0 7'); s.do('connect 0 %s 0 %s 0' % (s_tok('wrap'), ver)); s.do('recv 0 20020000'); s.do('setwin 0 6')
    s.do('setid %d' % start)
    ids = []
    for i in range(8):
        s.do('publish 0 %s b:%02x %d 0' % (s_tok('w/%d' % i), i, (1, 2)[i % 2]))
        ids.append(int(next(o for o in s.last if o.startswith('ret pending')).split()[3]))
    s.do('recv 0 %s' % hx(ack(0x50, ids[1])))              # a QoS 2 exchange reaches the release phase
    s.do('recv 0 %s' % hx(ack(0x50, ids[5])))
    s.do('lost 0 lostc'); s.do('build a0'); s.do('sethandlers 1 7'); s.do('connect 1 %s 0 %s %d' % (s_tok('wrap'), ver, clean_next)); s.do('recv 1 %s' % hx(connack(0, 1)))
    s.do('setwin 1 6')
    for i in ids:
        s.do('recv 1 %s' % hx(ack(0x40, i))); s.do('recv 1 %s' % hx(ack(0x50, i))); s.do('recv 1 %s' % hx(ack(0x70, i)))
    s.do('lost 1 done'); s.fire_all(3)
    return s.lines


@robust
def resume_other_window(profile, ver, w1, w2, clean_next, when):
    """messages of every QoS accepted behind a full window w1, the connection lost, and the next protocol of the address given a window w2
    (set before connect(), between connect() and CONNACK, or after the CONNACK): what was held back is released as far as w2 allows, first
    transmissions without DUP (a QoS 0 message never carries DUP), re-sent ones with DUP; then everything is acknowledged"""
    s = Script(profile)
    s.do('build a0'); s.do('sethandlers 0 7'); s.do('connect 0 %s 0 %s 0' % (s_tok('rw'), ver)); s.do('recv 0 20020000'); s.do('setwin 0 %d' % w1)
    ids = []
    for i, q in enumerate((1, 0, 2, 0, 1, 2, 1)):
        s.do('publish 0 %s b:%02x %d %d' % (s_tok('rw/%d' % i), 0x60 + i, q, i % 2))
    s.do('lost 0 lostc'); s.do('build a0'); s.do('sethandlers 1 7')
    if when == 'before':
        s.do('setwin 1 %d' % w2)
    s.do('connect 1 %s 0 %s %d' % (s_tok('rw'), ver, clean_next))
    if when == 'connecting':
        s.do('setwin 1 %d' % w2)
    s.do('recv 1 %s' % hx(connack(0, 0 if clean_next else 1)))
    if when == 'after':
        s.do('setwin 1 %d' % w2)
        s.do('publish 1 %s b:7f 0 0' % s_tok('rw/late'))
    f = s.w.factory
    for _ in range(12):
        a = s.w.protos[1].addr
        pend = [(r.msgId, r.qos) for r in f.windowPublish.get(a, {}).values()]
        rel = list(f.windowPubRelease.get(a, {}).keys())
        if not pend and not rel:
            break
        for m, q in pend:
            s.do('recv 1 %s' % hx(ack(0x40 if q == 1 else 0x50, m)))
        for m in rel:
            s.do('recv 1 %s' % hx(ack(0x70, m)))
    s.do('lost 1 done'); s.fire_all(3)
    return s.lines


def pad_len(packet, nbytes):
    """the same packet with its remaining length written on `nbytes` bytes (continuation bytes with zero digits appended): the
    variable-length field does not have to be minimal for a decoder to accept it"""
    i, L, mult = 1, 0, 1
    while True:
        b = packet[i]; L += (b & 0x7F) * mult; mult *= 128; i += 1
        if not b & 0x80:
            break
    digits = []
    v = L
    for _ in range(nbytes):
        digits.append(v % 128); v //= 128
    assert v == 0
    field = bytes([d | 0x80 for d in digits[:-1]] + [digits[-1]])
    return bytes(packet[:1]) + field + bytes(packet[i:])


@robust
def nonminimal_lengths(profile, ver, nbytes, refuse):
    """a session in which every packet of the broker carries its remaining length on `nbytes` bytes: refused and accepted CONNACK, the
    acknowledgements of every kind of request, inbound PUBLISH at every QoS, PUBREL, PINGRESP"""
    s = Script(profile)
    s.do('build a0'); s.do('sethandlers 0 7'); s.do('connect 0 %s 7 %s 1' % (s_tok('nm'), ver))
    if refuse:
        s.do('recv 0 %s' % hx(pad_len(connack(5, 0), nbytes)))
        s.do('publish 0 %s b:41 0 0' % s_tok('t')); s.do('subscribe 0 %s 1' % s_tok('s'))
        s.do('connect 0 %s 7 %s 1' % (s_tok('nm'), ver))
    s.do('recv 0 %s' % hx(pad_len(connack(0, 0), nbytes))); s.do('setwin 0 4')
    ids = {}
    def last_id():
        return int(next(o for o in s.last if o.startswith('ret pending')).split()[3])
    if profile in (2, 3):
        s.do('publish 0 %s b:41 1 0' % s_tok('a')); ids['q1'] = last_id()
        s.do('publish 0 %s b:42 2 0' % s_tok('b')); ids['q2'] = last_id()
    if profile in (1, 3):
        s.do('subscribe 0 %s 1' % s_tok('s/#')); ids['sub'] = last_id()
        s.do('unsubscribe 0 %s' % s_tok('u')); ids['unsub'] = last_id()
    s.fire('pingloop')
    s.do('recv 0 %s' % hx(pad_len(pkt(0xD0), nbytes)))
    if 'q1' in ids:
        s.do('recv 0 %s' % hx(pad_len(ack(0x40, ids['q1']), nbytes)))
        s.do('recv 0 %s' % hx(pad_len(ack(0x50, ids['q2']), nbytes)))
        s.do('recv 0 %s' % hx(pad_len(ack(0x70, ids['q2']), nbytes)))
    if 'sub' in ids:
        s.do('recv 0 %s' % hx(pad_len(suback(ids['sub'], [1]), nbytes)))
        s.do('recv 0 %s' % hx(pad_len(ack(0xB0, ids['unsub']), nbytes)))
        s.do('recv 0 %s' % hx(pad_len(publish_pkt('t', b'x', 0), nbytes)))
        s.do('recv 0 %s' % hx(pad_len(publish_pkt('t', b'xy', 1, mid=10), nbytes)))
        s.do('recv 0 %s' % hx(pad_len(publish_pkt('q/\u00f1', b'z' * 130, 2, mid=11), max(nbytes, 2))))
        s.do('recv 0 %s' % hx(pad_len(ack(0x62, 11), nbytes)))
    s.do('lost 0 done'); s.fire_all(3)
    return s.lines


SPECIAL_TOPICS = ['\ufeffsensors/t', '\ufeff', 'a\ufeff', '\ufffe', '$SYS/broker/x', 'caf\u00e9/\u6e29', '\U0001f600', 'a/' + 'b' * 200, ' ', 'a//b', '+/#',
                  '\u2028', '\u00a0x', 'e\u0301']


@robust
def special_topics(profile, ver):
    """inbound PUBLISH at every QoS under topics a decoder might be tempted to normalise (a leading U+FEFF is text, not a byte order mark; a
    non-character, separators, combining sequences, astral code points, '$' topics, wildcard characters): delivered exactly as carried"""
    s = Script(profile)
    s.do('build a0'); s.do('sethandlers 0 7'); s.do('connect 0 %s 0 %s 1' % (s_tok('st'), ver)); s.do('recv 0 20020000')
    mid = 100
    for i, t in enumerate(SPECIAL_TOPICS):
        q = i % 3
        mid += 1
        s.do('recv 0 %s' % hx(publish_pkt(t, bytes([0x30 + i]), q, mid=mid, retain=bool(i % 2))))
        if q == 2:
            s.do('recv 0 %s' % hx(ack(0x62, mid)))
    for i, t in enumerate(SPECIAL_TOPICS[:4]):
        mid += 1
        s.do('recv 0 %s' % hx(publish_pkt(t, b'again', 2, mid=mid)))
        s.do('recv 0 %s' % hx(publish_pkt(t, b'again', 2, mid=mid, dup=True)))
        s.do('recv 0 %s' % hx(ack(0x62, mid)))
    if profile in (1, 3):
        for t in SPECIAL_TOPICS[:6]:
            s.do('subscribe 0 %s 1' % s_tok(t))
            i = int(next(o for o in s.last if o.startswith('ret pending')).split()[3])
            s.do('recv 0 %s' % hx(suback(i, [1])))
    if profile in (2, 3):
        for t in SPECIAL_TOPICS[:6]:
            s.do('publish 0 %s b:41 0 0' % s_tok(t))
    s.do('lost 0 done'); s.fire_all(2)
    return s.lines


def for_prop(prop, ctx):
    """the long/large scenarios relevant to a property, as (name, lines)"""
    quick = ctx['tier'] == 'quick'
    out = []
    def add(name, lines):
        if lines:
            out.append((name, lines))
    if prop in ('C02', 'C04', 'C05', 'C06', 'C08', 'C09', 'C10', 'C11', 'C12', 'C13', 'C16', 'C17', 'C18'):
        n = 22 if quick else 70
        add('chain-3-alt', reconnect_chain(3, n, ('31', '311', '31', '31', '311')))
        if prop in ('C04', 'C06', 'C12', 'C18') or not quick:
            add('chain-2-311', reconnect_chain(2, n, ('311',)))
            add('chain-1', reconnect_chain(1, n if prop == 'C06' else 8, ('311', '31')))
    if prop in ('C05', 'C07', 'C08', 'C09', 'C11', 'C13', 'C16', 'C18', 'C02'):
        n = 22 if quick else 40
        for kind in ('publish1', 'publish2', 'pubrel', 'subscribe', 'unsubscribe'):
            if prop in ('C05', 'C09') and kind in ('subscribe', 'unsubscribe'):
                continue
            if prop == 'C07' and kind.startswith('pub'):
                continue
            for ver in ('31', '311') if (not quick or prop in ('C07', 'C08', 'C18', 'C02')) else ('311',):
                for ending in ('ack', 'loss'):
                    add('expiries-%s-%s-%s' % (kind, ver, ending), expiry_chain(3, ver, kind, n, ending))
        if not quick:
            add('expiries-1', expiry_chain(1, '311', 'subscribe', n, 'loss')); add('expiries-2', expiry_chain(2, '31', 'publish2', n, 'ack'))
    if prop in ('C10', 'C11', 'C05', 'C17'):
        add('deep-queue', deep_queue(3 if prop != 'C11' else 2, '311', 1100 if prop in ('C10', 'C11') else 300))
    if prop in ('C14', 'C16'):
        for prof, stage in ((2, 'connected'), (1, 'connected'), (3, 'connecting'), (3, 'connected')):
            add('flood-%d-%s' % (prof, stage), foreign_flood(prof, stage, 200 if quick else 600))
    if prop in ('C02', 'C08', 'C12', 'C18'):
        add('large-70000-311', large_payloads(3, '311', 70000))
        if prop in ('C08', 'C12') or not quick:
            add('large-70000-31', large_payloads(2, '31', 70000))
            add('large-1MiB', large_payloads(3, '311', (1 << 20) + 17))
    if prop in ('C04', 'C15', 'C13'):
        for k in (1024, 1025, 3600, 65535):
            for pattern in ('timeout', 'answered', 'silent'):
                if prop == 'C04' and pattern != 'timeout' and quick:
                    continue
                add('ka%d-%s' % (k, pattern), big_keepalive(3, '311' if k % 2 else '31', k, pattern))
    if prop in ('C12', 'C08', 'C09', 'C17', 'C02', 'C10'):
        for start in (65531, 65533, 65534):
            add('wrap-resume-%d' % start, wrap_resume(3 if start % 2 else 2, '311' if start != 65533 else '31', start))
        if prop == 'C12':
            add('wrap-resume-clean', wrap_resume(3, '311', 65532, clean_next=1))
    if prop in ('C18', 'C12', 'C10', 'C02', 'C11', 'C05'):
        for (w1, w2) in ((1, 4), (2, 3), (3, 1)):
            for when in ('before', 'connecting', 'after'):
                for clean_next in ((0, 1) if prop in ('C12', 'C10', 'C11') else (0,)):
                    if quick and (w1, w2) == (2, 3) and when != 'before':
                        continue
                    add('resume-window-%d-%d-%s-%d' % (w1, w2, when, clean_next),
                        resume_other_window(3 if w1 != 2 else 2, '311' if w1 != 3 else '31', w1, w2, clean_next, when))
    if prop in ('C06', 'C16', 'C02', 'C07', 'C18', 'C10'):
        add('special-topics-311', special_topics(3, '311'))
        add('special-topics-31', special_topics(1 if prop in ('C06', 'C16') else 3, '31'))
    if prop in ('C14', 'C16', 'C03', 'C04', 'C05', 'C06', 'C07', 'C15', 'C02'):
        for nb in (2, 3, 4):
            for refuse in (True, False):
                if quick and nb == 3 and not refuse:
                    continue
                prof = {2: 3, 3: 1, 4: 2}[nb] if prop not in ('C05', 'C06', 'C07') else 3
                add('nonminimal-%d-%d' % (nb, int(refuse)), nonminimal_lengths(prof, '311' if nb != 3 else '31', nb, refuse))
    if prop in ('C07', 'C01', 'C02'):
        for n in (125, 126, 127, 200):
            add('topics-%d' % n, many_topics(3 if n != 127 else 1, '311' if n % 2 else '31', n))
    return out
