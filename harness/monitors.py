# Trace monitors for the history-quantified properties C04..C18, written from the property
# statements (not from the code, not from the Lean model). They judge traces of the REAL code and
# are the oracle of the failing-input search; they never stand in for a theorem.
#
# A trace is a list of (op_line, [observation lines]) as produced by realworld.RealWorld.step.
import mqttparse
from mqttparse import parse, split_stream

TICK = 1 << 20
PUB_CAP = (2, 3)
SUB_CAP = (1, 3)


def clock_slack(ticks):
    """resolution, in ticks, of a float clock reading `ticks` ticks (0 below 2^53 ticks)"""
    import math
    return int(math.ulp(ticks / float(TICK)) * TICK)


class V(object):
    """a violation found by a monitor"""
    def __init__(self, prop, sig, msg, step):
        self.prop, self.sig, self.msg, self.step = prop, sig, msg, step
    def __repr__(self):
        return '%s[%s]@%d: %s' % (self.prop, self.sig, self.step, self.msg)


def unhex(h):
    return b'' if h == '-' else bytes.fromhex(h)


def parse_val(tok):
    if tok == 'none':
        return None
    if tok in ('b0', 'b1'):
        return tok == 'b1'
    if tok.startswith('i'):
        return int(tok[1:])
    if tok.startswith('g'):
        return [tuple(int(x) for x in it.split(':')) for it in tok[1:].split(',') if it]
    return tok


def parse_timers(line):
    out = {}
    for tok in line.split()[1:]:
        # t<id>@<due>:<kind>:<owner>[:<msgId>]
        a, rest = tok.split('@')
        parts = rest.split(':')
        out[int(a[1:])] = dict(due=int(parts[0]), kind=parts[1], owner=int(parts[2]), mid=(parts[3] if len(parts) > 3 else None))
    return out


class Step(object):
    def __init__(self, idx, op, obs):
        self.idx, self.opline, self.obs_lines = idx, op, obs
        self.op = op.split()
        self.ev = []           # parsed events in order
        self.now = None; self.states = ''; self.timers = {}
        for o in obs:
            t = o.split()
            k = t[0]
            if k == 'w':
                b = unhex(t[2])
                self.ev.append(dict(k='w', p=int(t[1]), raw=b, pkt=parse(b)))
            elif k in ('close', 'abort', 'onconn'):
                self.ev.append(dict(k=k, p=int(t[1])))
            elif k == 'ret':
                if t[1] == 'pending':
                    self.ev.append(dict(k='ret', how='pending', d=int(t[2]), mid=None if t[3] == '-' else int(t[3])))
                elif t[1] == 'ok':
                    self.ev.append(dict(k='ret', how='ok', val=parse_val(t[2])))
                elif t[1] == 'fail':
                    self.ev.append(dict(k='ret', how='fail', err=t[2]))
                else:
                    self.ev.append(dict(k='ret', how=t[1]))
            elif k == 'raised':
                self.ev.append(dict(k='raised', err=t[1]))
            elif k == 'fired':
                if t[2] == 'ok':
                    self.ev.append(dict(k='fired', d=int(t[1]), ok=True, val=parse_val(t[3])))
                else:
                    self.ev.append(dict(k='fired', d=int(t[1]), ok=False, err=t[3]))
            elif k == 'pub':
                self.ev.append(dict(k='pub', p=int(t[1]), topic=unhex(t[2]).decode('utf-8', 'surrogatepass'), payload=unhex(t[3]), qos=int(t[4]),
                                    dup=t[5] == '1', retain=t[6] == '1', mid=None if t[7] == '-' else int(t[7])))
            elif k == 'ondisc':
                self.ev.append(dict(k='ondisc', p=int(t[1]), err=t[2]))
            elif k == 'esc':
                self.ev.append(dict(k='esc', err=t[1]))
            elif k == 'nofire':
                self.ev.append(dict(k='nofire'))
            elif k == 'pkt':
                pass
            elif k == 'now':
                self.now = int(t[1])
            elif k == 'states':
                self.states = t[1] if len(t) > 1 else ''
            elif k == 'timers':
                self.timers = parse_timers(o)
        self.completed = []    # inbound packets completed by this recv step: list of (raw, parsed-or-None)


class Book(object):
    """bookkeeping shared by the monitors, reconstructed from the observations alone"""
    def __init__(self, profile):
        self.profile = profile
        self.protos = []        # dicts
        self.dfd = {}           # d -> record
        self.pubs = {}          # addr -> list of publish records in acceptance order
        self.subs = {}          # addr -> list of sub/unsub records
        self.rx2 = {}           # addr -> {id: inbound QoS 2 message awaiting PUBREL}
        self.jitter = 0.0
        self.prev_timers = {}
        self.prev_states = ''
        self.prev_now = 0
        self.all_timers = {}    # every timer ever seen pending: id -> info
        self.idcounter_set = False

    def proto(self, p):
        return self.protos[p] if 0 <= p < len(self.protos) else None

    def unfinished_ids(self):
        ids = []
        for lst in self.pubs.values():
            ids += [r['id'] for r in lst if r['qos'] and r['stage'] in ('queued', 'inflight', 'released')]
        for lst in self.subs.values():
            ids += [r['id'] for r in lst if r['stage'] == 'inflight']
        return ids

    def inflight(self, addr, mid, stages=('inflight',)):
        for r in self.pubs.get(addr, []):
            if r['qos'] and r['id'] == mid and r['stage'] in stages:
                return r
        return None


def run_monitors(trace, want=None):
    """returns list of V. `want`: set of property ids to run (None = all)"""
    mons = [M() for M in ALL_MONITORS if want is None or M.prop in want]
    viol = []
    profile = int(trace[0][0].split()[1])
    bk = Book(profile)
    for m in mons:
        m.bk = bk; m.out = viol
    for idx, (op, obs) in enumerate(trace[1:], 1):
        st = Step(idx, op, obs)
        annotate(bk, st)       # snapshots of the book BEFORE the step (st.pre_*)
        commit(bk, st)         # the book AFTER the step; events annotated with the records they concern
        for m in mons:
            if st.desync and m.prop not in ('C16', 'C18', 'C13'):
                continue
            m.check(st)
    for m in mons:
        m.finish()
    return viol


def annotate(bk, st):
    """fill in what the step's op and observations mean, against the book BEFORE the step"""
    op = st.op
    st.pre_states = bk.prev_states
    st.pre_timers = bk.prev_timers
    st.pre_now = bk.prev_now
    st.p = None
    if op[0] in ('connect', 'disconnect', 'publish', 'subscribe', 'unsubscribe', 'setwin', 'settimeout', 'setbw', 'recv', 'lost', 'sethandlers'):
        st.p = int(op[1])
    st.pre_state = st.pre_states[st.p] if st.p is not None and st.p < len(st.pre_states) else None
    st.desync = False
    if op[0] == 'recv':
        pr = bk.proto(st.p)
        if pr is not None and pr['inbuf'] is None:
            st.desync = True      # an earlier malformed length field: packet boundaries are no longer defined
        if pr is not None and pr['inbuf'] is not None:
            buf = pr['inbuf'] + unhex(op[2])
            pk, rest = split_stream(buf)
            st.completed = [(x, parse(x)) for x in pk]
            st.new_inbuf = rest
            if rest is None:
                st.desync = True
    if op[0] == 'fire':
        st.timer = bk.prev_timers.get(int(op[1]))
    st.pre_unfinished = bk.unfinished_ids()
    st.pre_stage = {}
    for lst in list(bk.pubs.values()) + list(bk.subs.values()):
        for r in lst:
            st.pre_stage[id(r)] = r['stage']
    st.pre_pending = [d for d, r in bk.dfd.items() if r['state'] == 'pending']
    st.pre_lost = [q['lost'] for q in bk.protos]
    st.pre_disc = [q['disc'] for q in bk.protos]
    st.pre_nwrites = [len(q['writes']) for q in bk.protos]
    st.pre_connected = [q['connected'] for q in bk.protos]


def commit(bk, st):
    op = st.op
    k = op[0]
    if k == 'build':
        a = op[1]
        bk.protos.append(dict(addr=a, lost=False, inbuf=b'', window=1, initialT=None, mask=0, conn=None, conns=0, writes=[], disc=False,
                              clean=None, ver=None, keepalive=None, connected=False, aborted=False, pings=[], bw=None, factor=None))
        bk.pubs.setdefault(a, []); bk.subs.setdefault(a, []); bk.rx2.setdefault(a, {})
    pr = bk.proto(st.p) if st.p is not None else None
    if k == 'sethandlers' and pr is not None:
        pr['mask'] = int(op[2])
    if k == 'jit':
        n, d = (op[1].split('/') + ['1'])[:2]
        bk.jitter = int(n) / int(d)
    if k == 'recv' and pr is not None and pr['inbuf'] is not None:
        pr['inbuf'] = st.new_inbuf        # None once the stream is unparseable
    rets = [e for e in st.ev if e['k'] in ('ret', 'raised')]
    ret = rets[0] if rets else None
    if k == 'setwin' and pr is not None and ret and ret.get('how') == 'none':
        pr['window'] = int(op[2])
    if k == 'settimeout' and pr is not None and ret and ret.get('how') == 'none':
        from fractions import Fraction
        v = Fraction(op[2])
        pr['initialT'] = int(v) if v.denominator == 1 else float(v)        # setTimeout() takes any number in range, not only integers
    if k == 'setbw' and pr is not None and ret and ret.get('how') == 'none':
        from fractions import Fraction
        try:
            pr['factor'] = Fraction(op[3])
        except (ValueError, ZeroDivisionError, IndexError):
            pass
    if k == 'connect' and pr is not None and ret and ret.get('how') == 'pending':
        pr['conns'] += 1
        pr['clean'] = op[5] == '1'; pr['ver'] = op[4]; pr['keepalive'] = int(op[3]); pr['connected'] = False
        pr['connect_now'] = st.now
        bk.dfd[ret['d']] = dict(kind='connect', p=st.p, addr=pr['addr'], state='pending', step=st.idx, keepalive=int(op[3]), at=st.now, conn=pr['conns'])
    addr = pr['addr'] if pr is not None else None
    if k == 'publish' and pr is not None and ret and ret.get('how') in ('pending', 'ok'):
        tok = op[3]
        # an accepted publish() may have arguments no PUBLISH can carry (a defect C20 reports): the book must survive it
        try:
            qos = int(op[4])
        except ValueError:
            qos = -1
        try:
            payload = unhex(tok[2:]) if tok[:2] in ('s:', 'b:') else None
        except ValueError:
            payload = None
        try:
            topic = unhex(op[2][2:]).decode('utf-8') if op[2][:2] == 's:' else None
        except (ValueError, UnicodeDecodeError):
            topic = None
        rec = dict(d=ret.get('d'), id=ret.get('mid'), qos=qos, topic=topic, payload=payload, retain=op[5] == '1',
                   p=st.p, addr=addr, stage='queued', txs=[], pubrec=False, step=st.idx, conn=(st.p, pr['conns']), acked_first=False,
                   factor_at=(pr.get('factor') or 2),
                   initial_created=pr['initialT'] if pr['initialT'] is not None else DEFAULT_INITIAL_T[0])
        bk.pubs[addr].append(rec)
        if rec['d'] is not None:
            bk.dfd[rec['d']] = dict(kind='publish', p=st.p, addr=addr, state='pending', step=st.idx, rec=rec, msgId=rec['id'], qos=qos)
    if k in ('subscribe', 'unsubscribe') and pr is not None and ret and ret.get('how') == 'pending':
        rec = dict(d=ret['d'], id=ret['mid'], kind=k, p=st.p, addr=addr, stage='inflight', txs=[], step=st.idx, arg=op[2], qos=(op[3] if len(op) > 3 else '0'))
        bk.subs[addr].append(rec)
        bk.dfd[rec['d']] = dict(kind=k, p=st.p, addr=addr, state='pending', step=st.idx, rec=rec, msgId=rec['id'])
    # observations in order
    for e in st.ev:
        if e['k'] == 'w':
            q = bk.proto(e['p'])
            if q is None:
                continue
            e['nwrites_before'] = len(q['writes'])
            e['lost_before'] = q['lost'] and not (k == 'lost' and st.p == e['p'] and False)
            e['disc_before'] = q['disc']
            q['writes'].append(e['raw'])
            pk = e['pkt']
            a = q['addr']
            if pk is None:
                continue
            if pk['type'] == 'PUBLISH':
                again = bk.inflight(a, pk['id'], ('inflight', 'released')) if pk['qos'] else None
                queued = next((r for r in bk.pubs[a] if r['stage'] == 'queued'), None)
                if pk['qos'] and not pk['dup'] and again is not None and again['txs'] and (queued is None or queued['id'] != pk['id']):
                    # the identifier of an exchange already on the wire, written again without DUP: a repeat, not a first transmission
                    rec = again
                    e['rec'] = rec; e['first'] = False
                    rec['txs'].append((st.now, e['raw'], e['p'], q['conns'], st.idx, bk.jitter))
                elif pk['qos'] == 0 or not pk['dup']:
                    # first transmission: the oldest queued record
                    rec = next((r for r in bk.pubs[a] if r['stage'] == 'queued'), None)
                    e['rec'] = rec; e['first'] = True
                    if rec is not None:
                        rec['stage'] = 'inflight' if rec['qos'] else 'done'
                        rec['txs'].append((st.now, e['raw'], e['p'], q['conns'], st.idx, bk.jitter))
                        rec['window_at_first'] = q['window']
                else:
                    rec = bk.inflight(a, pk['id'], ('inflight', 'released'))
                    e['rec'] = rec; e['first'] = False
                    if rec is not None:
                        rec['txs'].append((st.now, e['raw'], e['p'], q['conns'], st.idx, bk.jitter))
            elif pk['type'] == 'PUBREL':
                rec = bk.inflight(a, pk['id'], ('inflight', 'released'))
                e['rec'] = rec
                if rec is not None:
                    e['first'] = rec['stage'] == 'inflight'
                    rec['stage'] = 'released'
                    rec.setdefault('reltxs', []).append((st.now, e['raw'], e['p'], q['conns'], st.idx, bk.jitter))
            elif pk['type'] in ('SUBSCRIBE', 'UNSUBSCRIBE'):
                kind = pk['type'].lower()
                rec = next((r for r in bk.subs[a] if r['kind'] == kind and r['id'] == pk['id'] and r['stage'] == 'inflight'), None)
                if rec is None and k == kind and ret and ret.get('how') == 'pending':
                    pass
                e['rec'] = rec
                if rec is not None:
                    e['first'] = not rec['txs']
                    rec['txs'].append((st.now, e['raw'], e['p'], q['conns'], st.idx, bk.jitter))
            elif pk['type'] == 'PINGREQ':
                e['ping_prev'] = q['pings'][-1]['at'] if q['pings'] else q.get('connack_at')
                q['pings'].append(dict(at=st.now, answered=False))
            elif pk['type'] == 'DISCONNECT':
                q['disc'] = True
        elif e['k'] == 'abort':
            q = bk.proto(e['p'])
            if q is not None:
                q['aborted'] = True
        elif e['k'] == 'fired':
            r = bk.dfd.get(e['d'])
            if r is not None:
                e['prior_fires'] = r.get('fires', 0)
                r['fires'] = r.get('fires', 0) + 1
                r['state'] = 'ok' if e['ok'] else 'fail'
                r['fired_step'] = st.idx
                if not e['ok'] and e['err'] == 'MQTTStateError':
                    r['refused'] = True
                if r['kind'] == 'connect' and e['ok']:
                    q = bk.proto(r['p'])
                    q['connected'] = True; q['connack_at'] = st.now; q['session'] = e['val']
                rec = r.get('rec')
                if rec is not None:
                    rec['stage'] = 'done' if e['ok'] else 'failed'
    # inbound packets: broker-side facts
    if k == 'recv' and pr is not None:
        for raw, pk in st.completed:
            if pk is None:
                continue
            if pk['type'] == 'PUBREC':
                for rec in bk.pubs[addr]:
                    if rec['qos'] == 2 and rec['id'] == pk['id'] and st.pre_stage.get(id(rec)) == 'inflight' and rec['txs']:
                        rec['pubrec'] = True
            if pk['type'] == 'PINGRESP':
                for pg in pr['pings']:
                    pg['answered'] = True
    if k == 'lost' and pr is not None:
        pr['lost'] = True; pr['connected'] = False
        if pr['clean'] is True and pr['conns'] > 0:
            # a clean session carries nothing over: held-back QoS 0 messages (no Deferred to fail) are simply gone
            for r in bk.pubs[addr]:
                if r['stage'] == 'queued' and not r['qos']:
                    r['stage'] = 'dropped'
    bk.prev_timers = st.timers
    for tid, info in st.timers.items():
        bk.all_timers[tid] = info
    bk.prev_states = st.states
    bk.prev_now = st.now


class Monitor(object):
    prop = None
    def flag(self, sig, msg, st):
        self.out.append(V(self.prop, sig, msg, st.idx if st is not None else -1))
    def check(self, st):
        pass
    def finish(self):
        pass


def step_quiet(st, allow=()):
    """observations of the step other than the allowed kinds"""
    return [e for e in st.ev if e['k'] not in allow]


def ret_of(st):
    for e in st.ev:
        if e['k'] in ('ret', 'raised'):
            return e
    return None


# ------------------------------------------------------------------------------------------------
class C04(Monitor):
    prop = 'C04'

    def valid_connect(self, op):
        """the argument constraints C20 lists for connect() (self unused)"""
        try:
            ka = int(op[3]); ver = op[4]
            rest = op[6:] + ['n', 'n', '0', '0', 'n', 'n'][len(op[6:]):]
            wt, wm, wq, wr, user, pw = rest[:6]
            if op[2][:2] != 's:' or any(x != 'n' and x[:2] != 's:' for x in (wt, wm, user, pw)):
                return False          # a value of a type other than str where text is expected
            cid = unhex(op[2][2:]).decode('utf-8')
            if not (0 <= int(wq) < 3) or not (0 <= ka <= 65535) or ver not in ('31', '311'):
                return False
            if ver == '31' and len(cid) > 23:
                return False
            if (wt == 'n') != (wm == 'n'):
                return False
            if user == 'n' and pw != 'n':
                return False
            for s in (op[2], wt, wm, user, pw):
                if s != 'n' and len(unhex(s[2:])) > 65535:
                    return False
            return True
        except Exception:
            return False

    def check(self, st):
        bk = self.bk
        op = st.op
        if op[0] == 'connect':
            pr = bk.proto(st.p)
            r = ret_of(st)
            ws = [e for e in st.ev if e['k'] == 'w']
            if st.pre_state == 'I' and self.valid_connect(op) and pr is not None:
                if not (r and r.get('how') == 'pending'):
                    self.flag('connect-refused', 'valid connect() on an idle protocol was not accepted: %s' % (r,), st)
                else:
                    cn = [e for e in ws if e['p'] == st.p and e['pkt'] and e['pkt']['type'] == 'CONNECT']
                    if len(cn) != 1 or len(ws) != 1:
                        self.flag('connect-writes', 'accepted connect() wrote %d CONNECT / %d packets' % (len(cn), len(ws)), st)
                    # CONNACK timer: due exactly keepalive (10 if 0) seconds later
                    ka = int(op[3]) or 10
                    new = [t for tid, t in st.timers.items() if tid not in st.pre_timers and t['kind'] == 'connack' and t['owner'] == st.p]
                    # (the reactor's clock is a float number of seconds: beyond 2^53 ticks it cannot represent every tick, and a deadline
                    # "10 s from now" is only as exact as the clock's resolution at that magnitude -- reached only by the long chains
                    # of the thorough tier, whose back-off delays double at every resumption)
                    if len(new) != 1 or abs(new[0]['due'] - (st.now + ka * TICK)) > clock_slack(st.now + ka * TICK):
                        self.flag('connack-timer', 'CONNACK timeout not armed at keepalive-or-10 s: %s (now %s, keepalive %s)' % (new, st.now, op[3]), st)
                    if st.states[st.p] != 'G':
                        self.flag('connect-state', 'protocol is %s after an accepted connect()' % st.states[st.p], st)
            elif r and r.get('how') != 'pending':
                if ws:
                    self.flag('refused-connect-wrote', 'refused connect() wrote bytes', st)
        for e in st.ev:
            if e['k'] != 'fired':
                continue
            r = bk.dfd.get(e['d'])
            if r is None or r['kind'] != 'connect':
                continue
            p = r['p']
            if e.get('prior_fires', 0) >= 1:
                self.flag('connect-twice', 'connect Deferred %d fired a second time' % e['d'], st)
                continue
            if e['ok']:
                acks = [pk for raw, pk in st.completed if pk and pk['type'] == 'CONNACK'] if (op[0] == 'recv' and st.p == p) else []
                good = [pk for pk in acks if pk['rc'] == 0 and pk['session'] == e['val']]
                if not good:
                    self.flag('connect-ok-unjustified', 'connect Deferred succeeded (%r) without a CONNACK rc=0 carrying that flag in this step' % (e['val'],), st)
                if st.states[p] != 'C':
                    self.flag('connect-ok-state', 'protocol %d is %s after successful CONNACK' % (p, st.states[p]), st)
            elif e['err'] == 'MQTTStateError':
                acks = [pk for raw, pk in st.completed if pk and pk['type'] == 'CONNACK' and pk['rc'] != 0] if (op[0] == 'recv' and st.p == p) else []
                if not acks:
                    self.flag('connect-refused-unjustified', 'connect Deferred failed with MQTTStateError without a refusing CONNACK', st)
                if st.states[p] != 'I':
                    self.flag('refused-not-idle', 'protocol %d is %s after a refused CONNACK' % (p, st.states[p]), st)
            elif e['err'] == 'MQTTTimeoutError':
                tm = getattr(st, 'timer', None)
                if not (op[0] == 'fire' and tm and tm['kind'] == 'connack' and tm['owner'] == p):
                    self.flag('timeout-unjustified', 'connect Deferred failed with MQTTTimeoutError outside its CONNACK timer', st)
                elif not any(x['k'] == 'abort' and x['p'] == p for x in st.ev):
                    self.flag('timeout-no-abort', 'CONNACK timeout did not close the transport', st)
            else:
                self.flag('connect-odd-failure', 'connect Deferred failed with %s' % e['err'], st)
        # a refusing / accepting CONNACK for a pending connect must settle it in that very step
        if op[0] == 'recv' and st.pre_state == 'G':
            acks = [pk for raw, pk in st.completed if pk and pk['type'] == 'CONNACK' and pk.get('exact')]
            pend = [d for d in st.pre_pending if bk.dfd[d]['kind'] == 'connect' and bk.dfd[d]['p'] == st.p and bk.dfd[d]['conn'] == bk.proto(st.p)['conns']]
            if acks and pend and not any(e['k'] == 'fired' and e['d'] in pend for e in st.ev) and not any(e['k'] == 'esc' for e in st.ev):
                self.flag('connack-ignored', 'CONNACK (rc=%d) received while connecting but the connect Deferred did not fire' % acks[0]['rc'], st)
        if op[0] == 'lost':
            pr = bk.proto(st.p)
            if pr is not None:
                if st.states[st.p] != 'I':
                    self.flag('lost-not-idle', 'protocol %d is %s after connectionLost' % (st.p, st.states[st.p]), st)
                new = [t for tid, t in st.timers.items() if tid not in st.pre_timers and t['kind'] == 'ondisc' and t['owner'] == st.p]
                want = 1 if pr['mask'] & 2 else 0
                if len(new) != want and not any(e['k'] == 'esc' for e in st.ev):
                    self.flag('ondisc-count', 'connectionLost scheduled %d onDisconnection notifications, expected %d' % (len(new), want), st)
                pr['loss_reason'] = {'done': 'ConnectionDone', 'lostc': 'ConnectionLost', 'aborted': 'ConnectionAborted'}[op[2] if len(op) > 2 else 'done']
                pr['ondisc_seen'] = 0
        for e in st.ev:
            if e['k'] == 'ondisc':
                pr = bk.proto(e['p'])
                tm = getattr(st, 'timer', None)
                if not (op[0] == 'fire' and tm and tm['kind'] == 'ondisc' and tm['owner'] == e['p']):
                    self.flag('ondisc-unscheduled', 'onDisconnection called outside its scheduled notification', st)
                elif pr is not None:
                    pr['ondisc_seen'] = pr.get('ondisc_seen', 0) + 1
                    if pr['ondisc_seen'] > 1:
                        self.flag('ondisc-twice', 'onDisconnection called twice for one loss', st)
                    if pr.get('loss_reason') != e['err']:
                        self.flag('ondisc-reason', 'onDisconnection reason %s, loss reason %s' % (e['err'], pr.get('loss_reason')), st)
        tm = getattr(st, 'timer', None)
        if any(e['k'] == 'esc' for e in st.ev):
            if (op[0] == 'fire' and tm and tm['kind'] in ('connack', 'ondisc')) or \
               (op[0] == 'recv' and any(pk and pk['type'] == 'CONNACK' for raw, pk in st.completed)) or op[0] == 'lost':
                self.flag('handshake-escape', 'exception escaped while handling %s: %s' % (st.opline[:30], [e['err'] for e in st.ev if e['k'] == 'esc']), st)
        # a CONNACK timer may only be pending for a connect Deferred that can still fire
        for p in range(len(bk.protos)):
            n_d = sum(1 for r in bk.dfd.values() if r['kind'] == 'connect' and r['state'] == 'pending' and r['p'] == p)
            n_t = sum(1 for t in st.timers.values() if t['kind'] == 'connack' and t['owner'] == p)
            if n_t > n_d:
                key = ('stale', p, tuple(sorted(tid for tid, t in st.timers.items() if t['kind'] == 'connack' and t['owner'] == p)))
                if key not in getattr(self, '_stale', set()):
                    self._stale = getattr(self, '_stale', set()) | {key}
                    self.flag('stale-connack-timer', 'CONNACK timeout of protocol %d still armed although its connect Deferred has fired: it would fire a second time' % p, st)
        # liveness as safety: a pending connect Deferred always has its CONNACK timer pending
        for p in set(r['p'] for r in bk.dfd.values() if r['kind'] == 'connect' and r['state'] == 'pending'):
            n_d = sum(1 for r in bk.dfd.values() if r['kind'] == 'connect' and r['state'] == 'pending' and r['p'] == p)
            n_t = sum(1 for t in st.timers.values() if t['kind'] == 'connack' and t['owner'] == p)
            if n_t < n_d:
                for r in bk.dfd.values():
                    if r['kind'] == 'connect' and r['state'] == 'pending' and r['p'] == p:
                        r['state'] = 'flagged'
                self.flag('connect-hangs', 'a connect Deferred of protocol %d is pending with no CONNACK timer left: it can never fire' % p, st)


# ------------------------------------------------------------------------------------------------
class C05(Monitor):
    prop = 'C05'

    def check(self, st):
        bk, op = self.bk, st.op
        if op[0] == 'publish':
            r = ret_of(st)
            if r and r.get('how') == 'ok' and int(op[4]) == 0 and r.get('val') is not None:
                self.flag('qos0-value', 'QoS 0 publish Deferred succeeded with %r, not None' % (r.get('val'),), st)
            if r and r.get('how') == 'pending' and int(op[4]) == 0:
                self.flag('qos0-pending', 'QoS 0 publish returned a Deferred that has not fired', st)
            if r and r.get('how') == 'ok' and int(op[4]) in (1, 2):
                self.flag('qos>0-fired-early', 'QoS %s publish returned an already fired Deferred' % op[4], st)
            if r and r.get('how') == 'pending' and not (1 <= (r.get('mid') or 0) <= 65535):
                self.flag('msgid-attr', 'publish Deferred.msgId is %r' % (r.get('mid'),), st)
        # "the identifier on the wire ... [is] the same number": what the expiry of a request's retry timer re-sends carries that request's identifier
        if op[0] == 'fire' and op[1].isdigit():
            tm = st.pre_timers.get(int(op[1]))
            if tm and tm['kind'] in ('rpub', 'rrel') and str(tm.get('mid')).isdigit():
                want_type = 'PUBLISH' if tm['kind'] == 'rpub' else 'PUBREL'
                for e in st.ev:
                    if e['k'] == 'w' and e['pkt'] and e['pkt']['type'] == want_type and e['pkt'].get('id') is not None and e['pkt']['id'] != int(tm['mid']):
                        self.flag('id-wire', 'the retry timer of %s identifier %s re-sent a packet carrying identifier %d' % (want_type, tm['mid'], e['pkt']['id']), st)
        for e in st.ev:
            if e['k'] == 'w' and e['pkt'] and e['pkt']['type'] == 'PUBLISH' and e.get('first') and e['pkt']['qos']:
                rec = e.get('rec')
                if rec is not None and rec['id'] != e['pkt']['id']:
                    self.flag('id-wire', 'first PUBLISH carries id %d, Deferred.msgId is %r' % (e['pkt']['id'], rec['id']), st)
            if e['k'] != 'fired':
                continue
            r = bk.dfd.get(e['d'])
            if r is None or r['kind'] != 'publish':
                continue
            if e.get('prior_fires', 0) >= 1:
                self.flag('publish-twice', 'publish Deferred %d fired twice' % e['d'], st)
                continue
            if not e['ok']:
                continue
            rec = r['rec']
            p_ok = op[0] == 'recv' and bk.proto(st.p) is not None and bk.proto(st.p)['addr'] == r['addr']
            fits = 'PUBACK' if rec['qos'] == 1 else 'PUBCOMP'      # the acknowledgement its QoS level requires
            acks = [pk for raw, pk in st.completed if pk and pk['type'] == fits and pk['id'] == rec['id']] if p_ok else []
            if not acks:
                self.flag('publish-ok-unjustified', 'publish Deferred (qos %d, id %r) succeeded without a %s for its id in this step' % (rec['qos'], rec['id'], fits), st)
            elif rec['qos'] == 2 and all(pk['type'] == 'PUBCOMP' for pk in acks) and not rec['pubrec'] and not any(pk and pk['type'] == 'PUBREC' and pk['id'] == rec['id'] for raw, pk in st.completed):
                self.flag('pubcomp-before-pubrec', 'QoS 2 publish succeeded on PUBCOMP without a PUBREC', st)
            if not rec['txs']:
                self.flag('acked-unsent', 'publish Deferred succeeded before the message was ever transmitted', st)
            if e['val'] != rec['id']:
                self.flag('callback-value', 'callback value %r differs from msgId %r' % (e['val'], rec['id']), st)
        # "succeeds ... when a PUBACK for its packet identifier arrives" / "a PUBCOMP ... after the PUBREC": the acknowledgement its QoS level
        # requires, arriving for an exchange that is open on a connected protocol, does complete it -- whatever else is still in flight
        if op[0] == 'recv' and st.completed and not st.desync and not any(x['k'] in ('esc', 'abort') for x in st.ev):
            pr = bk.proto(st.p)
            if pr is not None and not pr['lost'] and st.p < len(st.pre_states) and st.pre_states[st.p] == 'C':
                fired_ok = {x['d'] for x in st.ev if x['k'] == 'fired' and x['ok']}
                seen_ids = set()
                for raw, pk in st.completed:
                    if not pk or not pk.get('exact') or pk['type'] not in ('PUBACK', 'PUBCOMP') or pk['id'] in seen_ids:
                        continue
                    seen_ids.add(pk['id'])
                    q, want = (1, 'inflight') if pk['type'] == 'PUBACK' else (2, 'released')
                    for r in bk.pubs[pr['addr']]:
                        if r['qos'] == q and r['id'] == pk['id'] and st.pre_stage.get(id(r)) == want and r.get('d') is not None and r['d'] not in fired_ok:
                            self.flag('ack-ignored', '%s for identifier %d arrived for an open QoS %d exchange, yet its Deferred did not succeed' % (pk['type'], pk['id'], q), st)
        # acknowledgements for identifiers with no exchange open change nothing
        if op[0] == 'recv' and st.completed and all(pk and pk['type'] in ('PUBACK', 'PUBREC', 'PUBCOMP') and pk.get('exact') for raw, pk in st.completed):
            pr = bk.proto(st.p)
            if pr is not None:
                a = pr['addr']
                def known(pk):
                    want = 'inflight' if pk['type'] in ('PUBACK', 'PUBREC') else 'released'
                    q = {'PUBACK': 1, 'PUBREC': 2, 'PUBCOMP': 2}[pk['type']]     # an acknowledgement of the wrong type for the message's QoS opens or closes nothing
                    return any(r['qos'] == q and r['id'] == pk['id'] and st.pre_stage.get(id(r)) == want for r in bk.pubs[a])
                if not any(known(pk) for raw, pk in st.completed):
                    if step_quiet(st) or st.timers != st.pre_timers:
                        self.flag('unknown-ack-effect', 'acknowledgement for an identifier with no open exchange had an effect: %s' % [x['k'] for x in st.ev], st)


# ------------------------------------------------------------------------------------------------
class C06(Monitor):
    prop = 'C06'

    def check(self, st):
        bk, op = self.bk, st.op
        acts = [e for e in st.ev if e['k'] == 'pub' or (e['k'] == 'w' and e['pkt'] and e['pkt']['type'] in ('PUBACK', 'PUBREC', 'PUBCOMP'))]
        if op[0] != 'recv':
            if acts:
                self.flag('unprompted', 'PUBACK/PUBREC/PUBCOMP/onPublish outside a dataReceived step: %s' % [a['k'] for a in acts], st)
            return
        pr = bk.proto(st.p)
        if pr is None:
            return
        a = pr['addr']
        expect = []
        active = bk.profile in SUB_CAP and st.pre_state == 'C'
        store = bk.rx2[a]
        if active:
            for raw, pk in st.completed:
                if pk is None:
                    continue
                if pk['type'] == 'PUBLISH' and pk['qos'] in (0, 1, 2):
                    if pk['qos'] == 0 and pk['dup']:
                        pass
                    msg = ('pub', pk['topic'], pk['payload'], pk['qos'], pk['dup'], pk['retain'], pk['id'])
                    if pk['qos'] == 0:
                        expect.append(msg)
                    elif pk['qos'] == 1:
                        expect.append(('w', 'PUBACK', pk['id'])); expect.append(msg)
                    else:
                        store[pk['id']] = msg
                        expect.append(('w', 'PUBREC', pk['id']))
                elif pk['type'] == 'PUBREL' and pk.get('exact'):
                    if pk['id'] in store:
                        expect.append(store.pop(pk['id']))
                    expect.append(('w', 'PUBCOMP', pk['id']))
        got = []
        for e in acts:
            if e['k'] == 'pub':
                got.append(('pub', e['topic'], e['payload'], e['qos'], e['dup'], e['retain'], e['mid']))
            else:
                got.append(('w', e['pkt']['type'], e['pkt']['id']))
        if not (pr['mask'] & 1):
            expect = [x for x in expect if x[0] != 'pub']
        if any(e['k'] == 'esc' for e in st.ev):
            return
        if any(pk is None or pk.get('exact') is False for raw, pk in st.completed):
            return      # malformed packets in this step: what they may cause is C16's business
        if got != expect:
            self.flag('inbound', 'inbound PUBLISH/PUBREL handling: expected %s, got %s' % (_short(expect), _short(got)), st)


def _short(seq):
    out = []
    for x in seq[:6]:
        if x[0] == 'pub':
            out.append(('pub', x[1][:10], x[2][:6].hex(), x[3], x[4], x[5], x[6]))
        else:
            out.append(x)
    return out


# ------------------------------------------------------------------------------------------------
def norm_sub_arg(kind, arg, qos):
    """the topics an accepted subscribe()/unsubscribe() names, or None if the argument is not one of the shapes"""
    try:
        if kind == 'subscribe':
            if arg.startswith('s:'):
                return [(unhex(arg[2:]).decode('utf-8'), int(qos))]
            if arg.startswith('t:'):
                a, b = arg[2:].split(',')
                if not a.startswith('s='):
                    return None
                return [(unhex(a[2:]).decode('utf-8'), int(b))]
            if arg.startswith('l:'):
                out = []
                for it in arg[2:].split(';'):
                    a, b = it.split(',')
                    if not a.startswith('s='):
                        return None
                    out.append((unhex(a[2:]).decode('utf-8'), int(b)))
                return out
        else:
            if arg.startswith('s:'):
                return [unhex(arg[2:]).decode('utf-8')]
            if arg.startswith('L:'):
                out = []
                for it in arg[2:].split(';'):
                    if not it.startswith('s='):
                        return None
                    out.append(unhex(it[2:]).decode('utf-8'))
                return out
    except Exception:
        return None
    return None


class C07(Monitor):
    prop = 'C07'

    def pending(self, addr, kind, st=None):
        """requests awaiting acknowledgement before this step (st given) or now"""
        if st is not None:
            return [r for r in self.bk.subs.get(addr, []) if r['kind'] == kind and st.pre_stage.get(id(r)) == 'inflight']
        return [r for r in self.bk.subs.get(addr, []) if r['kind'] == kind and r['stage'] == 'inflight']

    def check(self, st):
        bk, op = self.bk, st.op
        if op[0] in ('subscribe', 'unsubscribe'):
            pr = bk.proto(st.p)
            r = ret_of(st)
            ws = [e for e in st.ev if e['k'] == 'w']
            allowed = bk.profile in SUB_CAP and st.pre_state == 'C' and pr is not None
            if allowed and r is not None:
                npend = len(self.pending(pr['addr'], op[0], st))
                topics = norm_sub_arg(op[0], op[2], op[3] if len(op) > 3 else '0')
                if npend >= pr['window']:
                    if not (r.get('how') == 'fail' and r.get('err') == 'MQTTWindowError') or ws:
                        self.flag('window', '%s with %d pending >= window %d: %s, %d writes' % (op[0], npend, pr['window'], r, len(ws)), st)
                elif topics is not None and all(0 <= (t[1] if op[0] == 'subscribe' else 0) < 3 for t in topics) and topics \
                        and all(len((t[0] if op[0] == 'subscribe' else t).encode('utf-8')) <= 65535 for t in topics):
                    if r.get('how') != 'pending':
                        self.flag('refused', 'valid %s below the window was not accepted: %s' % (op[0], r), st)
                    else:
                        mine = [e for e in ws if e['pkt'] and e['pkt']['type'] == op[0].upper()]
                        if len(mine) != 1 or len(ws) != 1:
                            self.flag('request-writes', '%s wrote %d requests / %d packets' % (op[0], len(mine), len(ws)), st)
                        else:
                            pk = mine[0]['pkt']
                            if pk['topics'] != topics:
                                self.flag('topics', '%s names %s, argument was %s' % (op[0], pk['topics'][:4], topics[:4]), st)
                            if pk['id'] != r['mid']:
                                self.flag('id', '%s id on the wire %d, Deferred.msgId %r' % (op[0], pk['id'], r['mid']), st)
            if r is not None and r.get('how') == 'fail' and ws:
                self.flag('failed-wrote', 'failed %s wrote bytes' % op[0], st)
        for e in st.ev:
            if e['k'] != 'fired':
                continue
            r = bk.dfd.get(e['d'])
            if r is None or r['kind'] not in ('subscribe', 'unsubscribe'):
                continue
            if e.get('prior_fires', 0) >= 1:
                self.flag('twice', '%s Deferred fired twice' % r['kind'], st); continue
            rec = r['rec']
            if e['ok']:
                want = 'SUBACK' if r['kind'] == 'subscribe' else 'UNSUBACK'
                ok = op[0] == 'recv' and bk.proto(st.p) and bk.proto(st.p)['addr'] == r['addr']
                acks = [pk for raw, pk in st.completed if pk and pk['type'] == want and pk['id'] == rec['id']] if ok else []
                if not acks:
                    self.flag('ok-unjustified', '%s Deferred succeeded without a %s bearing id %d in this step' % (r['kind'], want, rec['id']), st)
                elif r['kind'] == 'subscribe':
                    exp = [(c & 0x7F, 1 if c & 0x80 else 0) for c in acks[0]['codes']]
                    val = e['val']
                    got = [tuple(x) if isinstance(x, (list, tuple)) else x for x in val] if isinstance(val, (list, tuple)) else val
                    if got != exp:
                        self.flag('granted', 'granted list %r, SUBACK carried %s' % (e['val'], exp), st)
                elif e['val'] != rec['id']:
                    self.flag('unsub-value', 'unsubscribe callback value %r, id %d' % (e['val'], rec['id']), st)
            else:
                if op[0] != 'lost':
                    self.flag('fail-unjustified', '%s Deferred failed (%s) outside connection loss' % (r['kind'], e['err']), st)
        if op[0] == 'recv' and st.completed and all(pk and pk['type'] in ('SUBACK', 'UNSUBACK') for raw, pk in st.completed):
            pr = bk.proto(st.p)
            if pr is not None:
                def known(pk):
                    kind = 'subscribe' if pk['type'] == 'SUBACK' else 'unsubscribe'
                    return any(r['id'] == pk['id'] for r in self.pending(pr['addr'], kind, st))
                if not any(known(pk) for raw, pk in st.completed) and (step_quiet(st) or st.timers != st.pre_timers):
                    self.flag('foreign-ack-effect', 'SUBACK/UNSUBACK with a foreign identifier had an effect', st)
        if op[0] == 'lost':
            pr = bk.proto(st.p)
            if pr is not None and not any(e['k'] == 'esc' for e in st.ev):
                for kind in ('subscribe', 'unsubscribe'):
                    for r in self.pending(pr['addr'], kind):
                        if r['p'] == st.p:
                            r['orphan'] = st.idx

    def finish(self):
        # a request whose connection has gone must have been failed or sent again; it may not stay pending
        for a, lst in self.bk.subs.items():
            for r in lst:
                if r.get('orphan') and r['stage'] == 'inflight' and not any(tx[4] > r['orphan'] for tx in r['txs']):
                    self.out.append(V('C07', 'orphan', '%s id %d stayed pending after its connection was lost (neither failed nor sent again)' % (r['kind'], r['id']), r['orphan']))


# ------------------------------------------------------------------------------------------------
class C08(Monitor):
    prop = 'C08'
    KINDS = {'PUBLISH': 'rpub', 'PUBREL': 'rrel', 'SUBSCRIBE': 'rsub', 'UNSUBSCRIBE': 'runsub'}

    def check(self, st):
        bk, op = self.bk, st.op
        for e in st.ev:
            if e['k'] != 'w' or not e['pkt']:
                continue
            pk = e['pkt']
            if pk['type'] not in self.KINDS or (pk['type'] == 'PUBLISH' and not pk['qos']):
                continue
            rec = e.get('rec')
            if rec is None:
                continue
            txs = rec['reltxs'] if pk['type'] == 'PUBREL' else rec['txs']
            q = bk.proto(e['p'])
            if len(txs) == 1:
                if pk['raw'][0] & 8:
                    self.flag('first-dup', 'first transmission of %s id %d carries DUP' % (pk['type'], pk['id']), st)
                continue
            prev, cur = txs[-2], txs[-1]
            # cause: expiry of this packet's own timer, or session resumption at CONNACK on a later connection
            tm = getattr(st, 'timer', None)
            own = op[0] == 'fire' and tm and tm['kind'] == self.KINDS[pk['type']] and tm['owner'] == e['p'] and tm['mid'] == str(pk['id'])
            resumed = op[0] == 'recv' and cur[2] != prev[2] and pk['type'] in ('PUBLISH', 'PUBREL') \
                and any(p2 and p2['type'] == 'CONNACK' and p2['rc'] == 0 for raw, p2 in st.completed)
            if not (own or resumed):
                self.flag('uncaused-retransmission', '%s id %d written again without its timer expiring or a session resumption (step: %s)' % (pk['type'], pk['id'], st.opline[:40]), st)
            want_dup = True if pk['type'] == 'PUBLISH' else (q['ver'] == '31')
            if bool(pk['raw'][0] & 8) != want_dup:
                self.flag('dup-flag', 'repeat of %s id %d under %s has DUP=%d' % (pk['type'], pk['id'], q['ver'], 1 if pk['raw'][0] & 8 else 0), st)
            first = txs[0][1]
            if bytes([first[0] & 0xF7]) + first[1:] != bytes([pk['raw'][0] & 0xF7]) + pk['raw'][1:]:
                self.flag('content', 'repeat of %s id %d differs from the first transmission' % (pk['type'], pk['id']), st)
            if cur[2] == prev[2]:
                init = (q['initialT_at'].get(id(rec) if pk['type'] != 'PUBREL' else ('rel', id(rec)))) if 'initialT_at' in q else None
                t0 = rec.get('rel_initial' if pk['type'] == 'PUBREL' else 'initial')
                if t0 is not None and cur[0] - prev[0] < t0 * TICK - clock_slack(cur[0]):
                    self.flag('too-early', 'repeat of %s id %d only %.3f s after the previous transmission (initial timeout %d s)' % (pk['type'], pk['id'], (cur[0] - prev[0]) / TICK, t0), st)
                if pk['type'] == 'PUBLISH' and len(txs) >= 3 and txs[-3][2] == cur[2]:
                    g1 = (prev[0] - txs[-3][0]) / TICK - txs[-3][5]
                    g2 = (cur[0] - prev[0]) / TICK - prev[5]
                    if g2 < g1 - 1e-4:
                        # the one accepted cause (known finding KF-3): the message was accepted while a factor below 1 was in force
                        sig = 'gap-shrinks-factor-below-one' if (rec.get('factor_at') or 2) < 1 else 'gap-shrinks'
                        self.flag(sig, 'PUBLISH id %d: retry gaps net of jitter shrink from %.4f s to %.4f s' % (pk['id'], g1, g2), st)
        # remember the initial timeout in force when a packet is first sent
        for e in st.ev:
            if e['k'] == 'w' and e['pkt'] and e.get('rec') is not None and e['pkt']['type'] in self.KINDS:
                rec = e['rec']; q = bk.proto(e['p'])
                it = q['initialT'] if q['initialT'] is not None else DEFAULT_INITIAL_T[0]
                if e['pkt']['type'] == 'PUBREL':
                    rec.setdefault('rel_initial', it)
                else:
                    # a held-back message may have been accepted under another setting: take the smaller one
                    rec.setdefault('initial', min(it, rec.get('initial_created', it)))
        # every expiry of a still unacknowledged packet's timer on a live connection retransmits and re-arms
        tm = getattr(st, 'timer', None)
        if op[0] == 'fire' and tm and tm['kind'] in self.KINDS.values() and not any(e['k'] in ('nofire',) for e in st.ev):
            q = bk.proto(tm['owner'])
            if q is not None and not q['lost']:
                typ = [k for k, v in self.KINDS.items() if v == tm['kind']][0]
                ws = [e for e in st.ev if e['k'] == 'w' and e['p'] == tm['owner'] and e['pkt'] and e['pkt']['type'] == typ and str(e['pkt']['id']) == tm['mid']]
                if len(ws) != 1:
                    self.flag('expiry-no-retransmission', 'timer of %s id %s expired: %d retransmissions written' % (typ, tm['mid'], len(ws)), st)
                rearmed = [t for tid, t in st.timers.items() if tid not in st.pre_timers and t['kind'] == tm['kind'] and t['owner'] == tm['owner'] and t['mid'] == tm['mid']]
                if len(rearmed) != 1:
                    self.flag('expiry-not-rearmed', 'timer of %s id %s expired: %d new timers armed' % (typ, tm['mid'], len(rearmed)), st)


DEFAULT_INITIAL_T = [4]


# ------------------------------------------------------------------------------------------------
class C09(Monitor):
    prop = 'C09'

    def check(self, st):
        bk = self.bk
        for e in st.ev:
            if e['k'] != 'w' or not e['pkt']:
                continue
            pk = e['pkt']
            q = bk.proto(e['p'])
            if q is None:
                continue
            if pk['type'] == 'PUBREL':
                rec = e.get('rec')
                if rec is None:
                    self.flag('pubrel-unknown', 'PUBREL id %d written with no QoS 2 exchange open for it' % pk['id'], st)
                elif rec['qos'] != 2:
                    self.flag('pubrel-not-qos2', 'PUBREL id %d written for a QoS %s message' % (pk['id'], rec['qos']), st)
                elif e.get('first') and not rec['pubrec'] and not any(p2 and p2['type'] == 'PUBREC' and p2['id'] == pk['id'] for raw, p2 in st.completed):
                    self.flag('pubrel-before-pubrec', 'PUBREL id %d written before any PUBREC for it' % pk['id'], st)
            if pk['type'] == 'PUBLISH' and pk['qos'] == 2 and not e.get('first'):
                rec = e.get('rec')
                if rec is not None and rec.get('reltxs'):
                    # the PUBLISH was written again after the PUBREL
                    if rec['stage'] == 'released':
                        self.flag('publish-after-pubrel', 'PUBLISH id %d written again after its PUBREL' % pk['id'], st)
            if pk['type'] == 'PUBLISH' and pk['qos'] and e.get('first'):
                # identifier must be free: no exchange for it still open at this address
                a = q['addr']
                others = [r for r in bk.pubs[a] if r['qos'] and r['id'] == pk['id'] and r['stage'] in ('inflight', 'released') and r is not e.get('rec')]
                if others:
                    self.flag('id-not-free', 'PUBLISH started with id %d while an exchange for that id is still open' % pk['id'], st)


# ------------------------------------------------------------------------------------------------
class C10(Monitor):
    prop = 'C10'

    def check(self, st):
        bk, op = self.bk, st.op
        if op[0] == 'publish':
            pr = bk.proto(st.p)
            r = ret_of(st)
            ok_state = bk.profile in PUB_CAP and st.pre_state in ('G', 'C') and pr is not None
            try:
                valid = op[2].startswith('s:') and op[3][:2] in ('s:', 'b:') and 0 <= int(op[4]) <= 2 and len(unhex(op[2][2:])) <= 65535
            except Exception:
                valid = False
            if ok_state and valid and r is not None and r.get('how') not in ('pending', 'ok'):
                self.flag('publish-refused', 'valid publish() in an allowed state was refused or dropped: %s' % r, st)
        for e in st.ev:
            if e['k'] == 'w' and e['pkt'] and e['pkt']['type'] == 'PUBLISH' and e.get('first'):
                pk = e['pkt']; rec = e.get('rec')
                q = bk.proto(e['p'])
                if rec is None:
                    self.flag('phantom-first', 'a first transmission (DUP=0) of PUBLISH id %r with no accepted publish() waiting' % pk['id'], st)
                    continue
                same = rec['topic'] == pk['topic'] and rec['qos'] == pk['qos'] and rec['retain'] == pk['retain'] and \
                    (rec['payload'] is None or rec['payload'] == pk['payload']) and (not pk['qos'] or rec['id'] == pk['id'])
                if not same:
                    self.flag('fifo', 'first transmissions out of publish() order: wrote (%s,qos %d,id %r), oldest waiting is (%s,qos %d,id %r)'
                              % (str(pk['topic'])[:12], pk['qos'], pk['id'], str(rec['topic'])[:12], rec['qos'], rec['id']), st)
                if pk['qos']:
                    a = q['addr']
                    n = sum(1 for r in bk.pubs[a] if r['qos'] and r['stage'] == 'inflight' and r['txs'])
                    if n > q['window']:
                        self.flag('window', '%d PUBLISH packets await their first acknowledgement, window size is %d' % (n, q['window']), st)

    def after(self, st):
        pass

    def finish(self):
        pass


class C10b(Monitor):
    """non-stranding, evaluated on the book AFTER each step (registered after C10 via run order in commit)"""
    prop = 'C10'

    def check(self, st):
        bk = self.bk
        for p, pr in enumerate(bk.protos):
            if pr['lost'] or p >= len(st.states) or st.states[p] != 'C' or pr['disc'] or pr['aborted']:
                continue
            a = pr['addr']
            queued = [r for r in bk.pubs[a] if r['stage'] == 'queued']
            outstanding = [r for r in bk.pubs[a] if r['qos'] and r['stage'] in ('inflight', 'released')]
            if queued and not outstanding:
                key = (p, queued[0]['step'])
                if key not in getattr(self, 'seen', set()):
                    self.seen = getattr(self, 'seen', set()) | {key}
                    self.out.append(V('C10', 'stranded', 'connection %d is up, nothing is outstanding, yet the message accepted at step %d is still unsent' % (p, queued[0]['step']), st.idx))


# ------------------------------------------------------------------------------------------------
class C11(Monitor):
    prop = 'C11'

    def check(self, st):
        bk, op = self.bk, st.op
        if op[0] == 'lost':
            pr = bk.proto(st.p)
            if pr is None or pr['conns'] == 0 or pr['clean'] is not True:
                return       # (an exception escaping from the loss report does not excuse the Deferreds it leaves pending)
            a = pr['addr']
            reason = {'done': 'ConnectionDone', 'lostc': 'ConnectionLost', 'aborted': 'ConnectionAborted'}[op[2] if len(op) > 2 else 'done']
            fired = {}
            for e in st.ev:
                if e['k'] == 'fired':
                    fired.setdefault(e['d'], []).append(e)
            for d in st.pre_pending:
                r = bk.dfd[d]
                if r['addr'] != a or r['kind'] not in ('publish', 'subscribe', 'unsubscribe'):
                    continue
                fs = fired.get(d, [])
                if len(fs) != 1 or fs[0]['ok'] or fs[0]['err'] != reason:
                    self.flag('not-failed', '%s Deferred %d pending at a clean-session loss: %s (expected one failure with %s)'
                              % (r['kind'], d, [('ok' if f['ok'] else f['err']) for f in fs], reason), st)
            pr['clean_lost_at'] = st.idx
            # nothing is carried over: remember what existed
            self.old = getattr(self, 'old', {})
            self.old[a] = [r for r in bk.pubs[a]] + [r for r in bk.subs[a]]
            self.cut = getattr(self, 'cut', {}); self.cut[a] = st.idx
        for e in st.ev:
            if e['k'] == 'w' and e['pkt'] and e.get('rec') is not None:
                q = bk.proto(e['p'])
                a = q['addr']
                cut = getattr(self, 'cut', {}).get(a)
                if cut is not None and e['rec']['step'] < cut and st.idx > cut:
                    self.flag('carried-over', '%s id %r requested before the clean-session loss at step %d was written afterwards' % (e['pkt']['type'], e['pkt'].get('id'), cut), st)
            if e['k'] == 'w' and e['pkt'] and e.get('rec') is None and e['pkt']['type'] in ('PUBLISH', 'PUBREL', 'SUBSCRIBE', 'UNSUBSCRIBE'):
                # a request packet nobody asked for on this connection: after a clean-session loss it can only be a leftover of the old one
                q = bk.proto(e['p'])
                cut = getattr(self, 'cut', {}).get(q['addr']) if q else None
                if cut is not None and st.idx > cut:
                    self.flag('carried-over', '%s id %r written after the clean-session loss at step %d although nothing requested since asks for it'
                              % (e['pkt']['type'], e['pkt'].get('id'), cut), st)
            if e['k'] == 'fired':
                r = bk.dfd.get(e['d'])
                cut = getattr(self, 'cut', {}).get(r['addr']) if r else None
                if r and cut is not None and r['step'] < cut and st.idx > cut and r['kind'] in ('publish', 'subscribe', 'unsubscribe'):
                    self.flag('late-outcome', '%s Deferred %d of the lost clean session fired after the loss' % (r['kind'], e['d']), st)


# ------------------------------------------------------------------------------------------------
class C12(Monitor):
    prop = 'C12'

    def check(self, st):
        bk, op = self.bk, st.op
        if op[0] == 'lost':
            pr = bk.proto(st.p)
            if pr is not None and pr['conns'] > 0 and pr['clean'] is False:
                for e in st.ev:
                    if e['k'] == 'fired':
                        r = bk.dfd.get(e['d'])
                        if r and r['kind'] == 'publish':
                            self.flag('publish-failed-on-loss', 'publish Deferred %d fired (%s) when a persistent-session connection was lost' % (e['d'], 'ok' if e['ok'] else e['err']), st)
        if op[0] == 'recv':
            pr = bk.proto(st.p)
            if pr is None or st.pre_state != 'G' or bk.profile not in PUB_CAP:
                return
            acks = [pk for raw, pk in st.completed if pk and pk['type'] == 'CONNACK' and pk.get('exact')]
            if not acks or acks[0]['rc'] != 0 or len(st.completed) != 1 or any(e['k'] == 'esc' for e in st.ev):
                return
            # the session is (re)established in the step in which the connect Deferred succeeds
            if not any(e['k'] == 'fired' and e['ok'] and bk.dfd.get(e['d'], {}).get('kind') == 'connect' and bk.dfd[e['d']]['p'] == st.p for e in st.ev):
                return
            a = pr['addr']
            me = st.p          # a connection is a transport, i.e. a protocol object
            carried = [r for r in bk.pubs[a] if r['qos'] and st.pre_stage.get(id(r)) in ('inflight', 'released') and r['txs'] and r['txs'][0][2] != me
                       and not any(tx[2] == me and tx[4] < st.idx for tx in r['txs'] + r.get('reltxs', []))]
            own = [r for r in bk.pubs[a] if r['conn'][0] == me]
            ws = [e for e in st.ev if e['k'] == 'w' and e['pkt'] and e['pkt']['type'] in ('PUBLISH', 'PUBREL')]
            fired = [e for e in st.ev if e['k'] == 'fired']
            if pr['clean'] is False:
                # the property fixes the order of the re-sent PUBLISHes (original order); for the PUBRELs it asks only that
                # every unacknowledged one is re-sent (the client keeps them in the order the PUBRECs arrived)
                exp_rel = sorted(r['id'] for r in carried if st.pre_stage.get(id(r)) == 'released')
                exp_pub = [r['id'] for r in carried if st.pre_stage.get(id(r)) == 'inflight']
                got = [(e['pkt']['type'], e['pkt']['id']) for e in ws if not e.get('first')]
                got_rel = sorted(i for t, i in got if t == 'PUBREL')
                got_pub = [i for t, i in got if t == 'PUBLISH']
                if got_rel != exp_rel or got_pub != exp_pub:
                    self.flag('resume-set', 'resumption at CONNACK re-sent %s, expected PUBRELs %s (any order) and PUBLISHes %s (original order)' % (got[:8], exp_rel[:8], exp_pub[:8]), st)
                for e in ws:
                    if e['pkt']['type'] == 'PUBLISH' and not e.get('first'):
                        rec = e.get('rec')
                        if not e['pkt']['dup']:
                            self.flag('resume-dup', 'resumed PUBLISH id %d without DUP' % e['pkt']['id'], st)
                        if rec is not None and rec['txs'] and (bytes([rec['txs'][0][1][0] | 8]) + rec['txs'][0][1][1:]) != e['raw']:
                            self.flag('resume-content', 'resumed PUBLISH id %d differs from the original' % e['pkt']['id'], st)
                for e in fired:
                    r = bk.dfd.get(e['d'])
                    if r and r['kind'] == 'publish':
                        self.flag('resume-fired', 'publish Deferred %d fired during a persistent-session resumption' % e['d'], st)
            elif pr['clean'] is True:
                failed = set(e['d'] for e in fired if not e['ok'] and e['err'] == 'MQTTSessionCleared')
                for r in carried:
                    if r['d'] not in failed:
                        self.flag('not-cleared', 'carried-over publish id %d was not failed with MQTTSessionCleared by a clean-session CONNACK' % r['id'], st)
                for e in ws:
                    if not e.get('first'):
                        self.flag('clean-resent', 'clean-session CONNACK re-sent %s id %d' % (e['pkt']['type'], e['pkt']['id']), st)
            # "releases held-back messages as the window allows": once the CONNACK has been processed either nothing waits or the window is full
            queued = [r for r in bk.pubs[a] if r['stage'] == 'queued']
            occupied = sum(1 for r in bk.pubs[a] if r['qos'] and r['stage'] == 'inflight')
            if queued and occupied < pr['window'] and not pr['disc'] and not pr.get('aborted'):
                self.flag('held-back-not-released', 'after the CONNACK %d message(s) are still held back although only %d of %d window slots are taken'
                          % (len(queued), occupied, pr['window']), st)
            for r in own:
                if any(e['d'] == r['d'] for e in fired if r['d'] is not None):
                    self.flag('own-failed', 'publish id %r requested on this connection before its CONNACK was settled by the resumption' % r['id'], st)
                if any(e.get('rec') is r and not e.get('first') for e in ws):
                    self.flag('own-resent', 'publish id %r requested on this connection before its CONNACK was re-sent by the resumption' % r['id'], st)


# ------------------------------------------------------------------------------------------------
class C13(Monitor):
    prop = 'C13'
    RETRY = {'rpub': 'PUBLISH', 'rrel': 'PUBREL', 'rsub': 'subscribe', 'runsub': 'unsubscribe'}

    def check(self, st):
        bk, op = self.bk, st.op
        # nothing is written to a transport once its loss has been reported
        for e in st.ev:
            if e['k'] == 'w':
                q = bk.proto(e['p'])
                if q is not None and (e.get('lost_before') or (op[0] == 'lost' and st.p == e['p'])):
                    sig = 'write-after-lost-connect' if op[0] == 'connect' else 'write-after-lost'
                    self.flag(sig, 'write to transport %d after its loss was reported (%s)' % (e['p'], e['pkt']['type'] if e['pkt'] else '?'), st)
                if e['pkt'] and e.get('rec') is not None and st.pre_stage.get(id(e['rec'])) in ('done', 'failed') and not e.get('first'):
                    self.flag('write-for-settled', '%s id %r written again after its request was settled' % (e['pkt']['type'], e['pkt'].get('id')), st)

    def post(self, st):
        pass


class C13b(Monitor):
    """timer clauses, evaluated on the committed book (state after the previous step)"""
    prop = 'C13'

    def check(self, st):
        bk = self.bk
        timers = st.timers
        seen = {}
        for tid, t in timers.items():
            q = bk.proto(t['owner'])
            if q is None:
                continue
            if t['kind'] in ('rpub', 'rrel', 'rsub', 'runsub'):
                a = q['addr']
                mid = int(t['mid']) if t['mid'] not in (None, 'None', '?') else None
                if t['kind'] == 'rpub':
                    live = [r for r in bk.pubs[a] if r['qos'] and r['id'] == mid and r['stage'] == 'inflight']
                elif t['kind'] == 'rrel':
                    live = [r for r in bk.pubs[a] if r['qos'] and r['id'] == mid and r['stage'] == 'released']
                else:
                    kind = 'subscribe' if t['kind'] == 'rsub' else 'unsubscribe'
                    live = [r for r in bk.subs[a] if r['kind'] == kind and r['id'] == mid and r['stage'] == 'inflight']
                key = (t['kind'], a, mid)
                if not live:
                    self.once(('stale', tid), 'stale-timer', 'pending %s timer t%d for id %s, but no such request is awaiting acknowledgement' % (t['kind'], tid, t['mid']), st)
                elif q['lost']:
                    self.once(('lost', tid), 'timer-of-lost-connection', 'retry timer t%d still pending after connection %d was reported lost' % (tid, t['owner']), st)
                else:
                    seen[key] = seen.get(key, 0) + 1
                    if seen[key] == 2:
                        self.once(('double', key), 'two-timers', 'two retry timers pending for %s id %s' % (t['kind'], t['mid']), st)
            elif t['kind'] in ('pingloop', 'pingalarm') and q['lost']:
                self.once(('ping', tid), 'keepalive-after-lost', '%s timer t%d pending after connection %d was reported lost' % (t['kind'], tid, t['owner']), st)
        for p in range(len(bk.protos)):
            n_d = sum(1 for r in bk.dfd.values() if r['kind'] == 'connect' and r['state'] == 'pending' and r['p'] == p)
            ct = [tid for tid, t in timers.items() if t['kind'] == 'connack' and t['owner'] == p]
            if len(ct) > n_d:
                self.once(('connack', p, tuple(ct)), 'stale-connack-timer', 'CONNACK timer(s) %s of connection %d pending although the connect request is settled' % (ct, p), st)
        # every connection that was ever opened has been reported lost: what is still pending can only be onDisconnection notifications
        # and CONNACK timeouts ("after [they] have run no timer of that connection remains") -- also timers the client gave no owner
        opened = [q for q in bk.protos if q['conns']]
        if opened and all(q['lost'] for q in opened):
            left = [tid for tid, t in timers.items() if t['kind'] not in ('ondisc', 'connack')]
            if left:
                self.once(('alllost', tuple(left)), 'timer-after-loss', 'every connection has been reported lost, yet timers %s (%s) are pending'
                          % (left, ', '.join(sorted({timers[t]['kind'] for t in left}))), st)
        # connected, keepalive off, nothing outstanding: only undelivered onDisconnection notifications may be pending
        for p, q in enumerate(bk.protos):
            if q['lost'] or p >= len(st.states) or st.states[p] != 'C' or q['keepalive'] != 0:
                continue
            a = q['addr']
            busy = any(r['qos'] and r['stage'] in ('inflight', 'released', 'queued') for r in bk.pubs[a]) or any(r['stage'] == 'inflight' for r in bk.subs[a])
            if busy:
                continue
            extra = [tid for tid, t in timers.items() if t['owner'] == p and t['kind'] != 'ondisc']
            if extra:
                self.once(('idle', p, tuple(extra)), 'idle-timer', 'connection %d idle with keepalive off, yet timers %s are pending' % (p, extra), st)

    def once(self, key, sig, msg, st):
        s = getattr(self, '_seen', set())
        if key in s:
            return
        s.add(key); self._seen = s
        self.out.append(V('C13', sig, msg, st.idx))


# ------------------------------------------------------------------------------------------------
API_ALLOWED = {
    'connect': lambda prof, s: s == 'I',
    'publish': lambda prof, s: prof in PUB_CAP and s in ('G', 'C'),
    'subscribe': lambda prof, s: prof in SUB_CAP and s == 'C',
    'unsubscribe': lambda prof, s: prof in SUB_CAP and s == 'C',
    'disconnect': lambda prof, s: s == 'C',
}
PKT_ALLOWED = {
    'CONNACK': lambda prof, s: s == 'G',
    'PINGRESP': lambda prof, s: s == 'C',
    'SUBACK': lambda prof, s: prof in SUB_CAP and s == 'C',
    'UNSUBACK': lambda prof, s: prof in SUB_CAP and s == 'C',
    'PUBLISH': lambda prof, s: prof in SUB_CAP and s == 'C',
    'PUBREL': lambda prof, s: prof in SUB_CAP and s == 'C',
    'PUBACK': lambda prof, s: prof in PUB_CAP and s == 'C',
    'PUBREC': lambda prof, s: prof in PUB_CAP and s == 'C',
    'PUBCOMP': lambda prof, s: prof in PUB_CAP and s == 'C',
}


class C14(Monitor):
    prop = 'C14'

    def check(self, st):
        bk, op = self.bk, st.op
        if op[0] in API_ALLOWED and st.pre_state is not None:
            if not API_ALLOWED[op[0]](bk.profile, st.pre_state):
                r = ret_of(st)
                good = r is not None and ((op[0] == 'disconnect' and r['k'] == 'raised' and r['err'] == 'MQTTStateError') or
                                          (op[0] != 'disconnect' and r.get('how') == 'fail' and r.get('err') == 'MQTTStateError'))
                others = [e for e in st.ev if e is not r]
                if not good or others or st.timers != st.pre_timers or st.states != st.pre_states:
                    self.flag('op-not-refused', '%s() in state %s of profile %d: %s, other effects %s' % (op[0], st.pre_state, bk.profile, r, [e['k'] for e in others]), st)
        if op[0] == 'connect' and st.pre_state is not None:
            # a connect() that was not accepted (it raised, or returned a failed Deferred) is not a transition: the protocol is in the state it was in
            r = ret_of(st)
            if r is not None and r.get('how') != 'pending' and st.states != st.pre_states:
                self.flag('refused-connect-moved', 'connect() was not accepted (%s) yet the protocol states went from %s to %s' % (r.get('err') or r.get('how'), st.pre_states, st.states), st)
        if op[0] == 'recv' and st.pre_state == 'G' and len(st.completed) == 1 and st.p < len(st.states):
            # the CONNACK's return code decides where a connecting protocol goes: connected on 0, idle again on anything else
            raw, pk = st.completed[0]
            waiting = any(bk.dfd[d]['kind'] == 'connect' and bk.dfd[d]['p'] == st.p for d in st.pre_pending if d in bk.dfd)
            if waiting and pk is not None and pk['type'] == 'CONNACK' and pk.get('exact') and not any(e['k'] == 'esc' for e in st.ev):
                want = 'C' if pk['rc'] == 0 else 'I'
                if st.states[st.p] != want:
                    self.flag('connack-transition', 'CONNACK with return code %d left the connecting protocol in state %s (expected %s)' % (pk['rc'], st.states[st.p], want), st)
        if op[0] == 'recv' and st.pre_state is not None and len(st.completed) == 1:
            raw, pk = st.completed[0]
            if pk is not None and pk['type'] in PKT_ALLOWED and not PKT_ALLOWED[pk['type']](bk.profile, st.pre_state):
                if st.ev or st.timers != st.pre_timers or st.states != st.pre_states:
                    self.flag('packet-not-ignored', '%s in state %s of profile %d had effects: %s' % (pk['type'], st.pre_state, bk.profile, [e['k'] for e in st.ev]), st)


# ------------------------------------------------------------------------------------------------
class C15(Monitor):
    prop = 'C15'

    def check(self, st):
        bk, op = self.bk, st.op
        for e in st.ev:
            if e['k'] == 'w' and e['pkt'] and e['pkt']['type'] == 'PINGREQ':
                q = bk.proto(e['p'])
                if q is None:
                    continue
                if q['keepalive'] == 0 and op[0] != 'ping':
                    self.flag('ping-with-keepalive-0', 'PINGREQ written on a connection with keepalive 0', st)
                if q['keepalive']:
                    k = q['keepalive'] * TICK
                    last = e.get('ping_prev')
                    if last is not None and st.now - last > k + clock_slack(st.now):
                        self.flag('ping-late', 'PINGREQ %.3f s after the previous one / CONNACK (keepalive %d)' % ((st.now - last) / TICK, q['keepalive']), st)
            if e['k'] == 'abort' and op[0] == 'fire':
                tm = getattr(st, 'timer', None)
                if tm and tm['kind'] == 'pingalarm':
                    q = bk.proto(e['p'])
                    k = (q['keepalive'] or 0) * TICK
                    un = [pg for pg in q['pings'] if not pg['answered'] and pg['at'] + k <= st.now + clock_slack(st.now)]
                    if not un:
                        self.flag('abort-though-answered', 'keepalive aborted connection %d although every PINGREQ was answered in time' % e['p'], st)
                    late = [pg for pg in q['pings'] if not pg['answered'] and pg['at'] + k + clock_slack(st.now) < st.now]
                    first = e['p'] not in getattr(self, 'aborted_seen', set())     # (a transport that was aborted and not yet reported lost is aborted again later)
                    self.aborted_seen = getattr(self, 'aborted_seen', set()) | {e['p']}
                    if late and k and first:
                        self.flag('abort-late', 'connection %d aborted %.3f s after a PINGREQ that was never answered (keepalive %d)'
                                  % (e['p'], (st.now - late[0]['at']) / TICK, q['keepalive']), st)

    def finish(self):
        pass


class C15b(Monitor):
    """deadline clauses on the committed book"""
    prop = 'C15'

    def check(self, st):
        bk = self.bk
        now = st.now
        for p, q in enumerate(bk.protos):
            if not q['keepalive'] or not q['connected'] or q['lost']:
                continue
            k = q['keepalive'] * TICK
            last = q['pings'][-1]['at'] if q['pings'] else None
            if last is None:
                if q.get('connack_at') is not None and now - q['connack_at'] > k + clock_slack(now):
                    self.once(('noping', p), 'no-ping', 'no PINGREQ within %d s of CONNACK on connection %d' % (q['keepalive'], p), st)
            elif now - last > k + clock_slack(now) and not q['aborted']:
                self.once(('gap', p, last), 'ping-gap', 'more than %d s since the last PINGREQ on connection %d' % (q['keepalive'], p), st)
            for pg in q['pings']:
                if not pg['answered'] and now > pg['at'] + k + clock_slack(now) and not q['aborted']:
                    self.once(('dead', p, pg['at']), 'no-abort', 'PINGREQ of connection %d unanswered for more than %d s and the connection was not aborted' % (p, q['keepalive']), st)

    def once(self, key, sig, msg, st):
        s = getattr(self, '_seen', set())
        if key in s:
            return
        s.add(key); self._seen = s
        self.out.append(V('C15', sig, msg, st.idx))


# ------------------------------------------------------------------------------------------------
class C16(Monitor):
    prop = 'C16'

    def check(self, st):
        bk, op = self.bk, st.op
        for e in st.ev:
            if e['k'] == 'esc':
                self.flag('escape', '%s escaped from %s' % (e['err'], op[0]), st)
        if op[0] != 'recv' or st.desync:
            return
        pr = bk.proto(st.p)
        if pr is None:
            return
        # (a QoS 0 PUBLISH with DUP set is accepted as received, as monitor C06 expects: 3.1 does not forbid it and the property does
        #  not make the client the broker's validator; QoS 3 is not a QoS level at all)
        wellformed = [pk for raw, pk in st.completed if pk is not None and not (pk['type'] == 'PUBLISH' and pk['qos'] == 3)]
        store = self.__dict__.setdefault('store', {}).setdefault(pr['addr'], {})
        released = []
        # the inbound QoS 2 store only moves when the packet is honoured: connected state of a subscribing profile
        # (a PUBLISH or PUBREL received while connecting, or by a publisher-only client, is ignored and must not be delivered later)
        active = bk.profile in SUB_CAP and st.pre_state == 'C'
        for pk in (wellformed if active else []):
            if pk['type'] == 'PUBLISH' and pk['qos'] == 2:
                store[pk['id']] = (pk['topic'], pk['payload'], pk['retain'])
            if pk['type'] == 'PUBREL' and pk['id'] in store:
                released.append(store.pop(pk['id']))
        for e in st.ev:
            if e['k'] == 'pub':
                ok = any(pk['type'] == 'PUBLISH' and pk['qos'] == e['qos'] and pk['topic'] == e['topic'] and pk['payload'] == e['payload'] for pk in wellformed) or \
                    (e['qos'] == 2 and (e['topic'], e['payload'], e['retain']) in released)
                if not ok:
                    self.flag('unjustified-delivery', 'onPublish(%r, %d bytes) although no well-formed PUBLISH/PUBREL carrying it was received in this step' % (e['topic'][:20], len(e['payload'])), st)
            if e['k'] == 'fired' and e['ok']:
                r = bk.dfd.get(e['d'])
                want = {'connect': ('CONNACK',), 'publish': ('PUBACK', 'PUBCOMP'), 'subscribe': ('SUBACK',), 'unsubscribe': ('UNSUBACK',)}.get(r['kind'] if r else None, ())
                rec = r.get('rec') if r else None
                if rec is not None and r['kind'] == 'publish':
                    want = ('PUBACK',) if rec['qos'] == 1 else ('PUBCOMP',)
                if rec is not None and r['kind'] in ('publish', 'subscribe', 'unsubscribe'):
                    just = any(pk['type'] in want and pk.get('id') == rec['id'] for pk in wellformed)
                else:
                    just = any(pk['type'] in want for pk in wellformed)
                if not just:
                    self.flag('unjustified-success', '%s Deferred succeeded in a step that received no well-formed %s' % (r['kind'] if r else '?', '/'.join(want)), st)
        # reaction to malformed input: at most abort
        if st.completed and all(pk is None or (pk['type'] == 'PUBLISH' and pk['qos'] == 3) for raw, pk in st.completed):
            bad = [e for e in st.ev if e['k'] not in ('abort',)]
            if bad:
                self.flag('malformed-effect', 'malformed packet(s) caused %s' % [e['k'] for e in bad], st)


# ------------------------------------------------------------------------------------------------
class C17(Monitor):
    prop = 'C17'

    def check(self, st):
        bk, op = self.bk, st.op
        for e in st.ev:
            if e['k'] == 'w' and e['pkt'] and e['pkt']['type'] in ('PUBLISH', 'PUBREL', 'SUBSCRIBE', 'UNSUBSCRIBE'):
                i = e['pkt'].get('id')
                if e['pkt']['type'] == 'PUBLISH' and not e['pkt']['qos']:
                    continue
                if not (1 <= i <= 65535):
                    self.flag('range', '%s with packet identifier %r on the wire' % (e['pkt']['type'], i), st)
        r = ret_of(st)
        if op[0] in ('publish', 'subscribe', 'unsubscribe') and r and r.get('how') == 'pending':
            mid = r.get('mid')
            if mid is None or not (1 <= mid <= 65535):
                self.flag('range', '%s() returned identifier %r' % (op[0], mid), st)
            elif mid in st.pre_unfinished:
                self.flag('reuse', 'identifier %d given to a new %s while an earlier request carrying it is unfinished' % (mid, op[0]), st)


# ------------------------------------------------------------------------------------------------
class C18(Monitor):
    prop = 'C18'

    def check(self, st):
        bk, op = self.bk, st.op
        for e in st.ev:
            if e['k'] != 'w':
                continue
            q = bk.proto(e['p'])
            if q is None:
                continue
            pk = e['pkt']
            n_before = e['nwrites_before']
            typ = pk['type'] if pk else None
            if e.get('lost_before') or (op[0] == 'lost' and st.p == e['p']):
                self.flag('write-after-lost-connect' if op[0] == 'connect' else 'write-after-lost', 'write (%s) to transport %d after its loss was reported' % (typ, e['p']), st)
                continue
            if pk is None:
                self.flag('unparseable', 'bytes written to transport %d are not a complete MQTT packet: %s' % (e['p'], e['raw'][:16].hex()), st)
                continue
            if typ in ('CONNACK', 'SUBACK', 'UNSUBACK', 'PINGRESP'):
                self.flag('broker-only', 'broker-only packet %s written' % typ, st)
            if n_before == 0 and typ != 'CONNECT':
                self.flag('not-led-by-connect', 'first packet on transport %d is %s' % (e['p'], typ), st)
            if typ == 'CONNECT' and n_before > 0:
                # situation: was the previous connect of this protocol answered by a refusing CONNACK (idle again by design)?
                prev = [r for r in bk.dfd.values() if r['kind'] == 'connect' and r['p'] == e['p'] and r['step'] < st.idx]
                refused = bool(prev) and prev[-1]['state'] == 'fail' and prev[-1].get('refused')
                self.flag('second-connect-after-refusal' if refused else 'second-connect', 'a second CONNECT on transport %d' % e['p'], st)
            if typ == 'CONNECT' and op[0] != 'connect':
                self.flag('connect-unprompted', 'CONNECT written outside connect()', st)
            if e.get('disc_before'):
                self.flag('after-disconnect', '%s written after DISCONNECT on transport %d' % (typ, e['p']), st)
            if typ == 'DISCONNECT':
                if op[0] != 'disconnect':
                    self.flag('disconnect-unprompted', 'DISCONNECT written outside disconnect()', st)
                elif not any(x['k'] == 'close' and x['p'] == e['p'] for x in st.ev):
                    self.flag('disconnect-no-close', 'disconnect() did not ask the transport to close', st)
            e['c18_check_strict'] = True

    def finish(self):
        pass


ALL_MONITORS = [C04, C05, C06, C07, C08, C09, C10, C10b, C11, C12, C13, C13b, C14, C15, C15b, C16, C17, C18]


# ------------------------------------------------------------------------------------------------
class C20(Monitor):
    """invalid arguments are refused atomically with ValueError/TypeError; in-range values are accepted"""
    prop = 'C20'

    @staticmethod
    def strlen(tok):
        return len(unhex(tok[2:])) if tok[:2] in ('s:',) else None

    def verdict(self, op):
        """'valid' / 'invalid' / None (not judged)"""
        k = op[0]
        try:
            if k == 'setwin':
                return 'valid' if op[2].lstrip('-').isdigit() and 1 <= int(op[2]) <= 16 else 'invalid'
            if k == 'settimeout':
                try:
                    from fractions import Fraction
                    return 'valid' if 1 <= Fraction(op[2]) <= 1024 else 'invalid'
                except (ValueError, ZeroDivisionError):
                    return 'invalid'
            if k == 'setbw':
                def num(x):
                    n, d = (x.split('/') + ['1'])[:2]
                    return int(n) / int(d)
                vals = [num(x) for x in op[2:4]]
                return 'valid' if all(v > 0 for v in vals) else 'invalid'
            if k == 'connect':
                return 'valid' if C04.valid_connect(None, op) else 'invalid'
            if k == 'publish':
                if not op[4].lstrip('-').isdigit() or not (0 <= int(op[4]) <= 2):
                    return 'invalid'
                if op[3][:2] not in ('s:', 'b:'):
                    return 'invalid'
                if not op[2].startswith('s:') or len(unhex(op[2][2:])) > 65535:
                    return 'invalid'
                return 'valid'
            if k in ('subscribe', 'unsubscribe'):
                topics = norm_sub_arg(k, op[2], op[3] if len(op) > 3 else '0')
                if topics is None:
                    return 'invalid'
                if not topics:
                    # an empty list: a SUBSCRIBE/UNSUBSCRIBE without payload is a protocol violation [MQTT-3.8.3-3, 3.10.3-2];
                    # C18 forbids writing it, so the call cannot be accepted
                    return 'invalid'
                for t in topics:
                    name = t[0] if k == 'subscribe' else t
                    if len(name.encode('utf-8')) > 65535:
                        return 'invalid'
                    if k == 'subscribe' and not (0 <= t[1] <= 2):
                        return 'invalid'
                return 'valid'
        except Exception:
            return 'invalid'
        return None

    def check(self, st):
        bk, op = self.bk, st.op
        k = op[0]
        if k not in ('setwin', 'settimeout', 'setbw', 'connect', 'publish', 'subscribe', 'unsubscribe'):
            return
        pr = bk.proto(st.p)
        if pr is None:
            return
        if k in API_ALLOWED and (st.pre_state is None or not API_ALLOWED[k](bk.profile, st.pre_state)):
            return      # refused for its state/profile: C14's business
        v = self.verdict(op)
        if v is None:
            return
        r = ret_of(st)
        if v == 'invalid':
            good = r is not None and ((r['k'] == 'raised' and r['err'] in ('ValueError', 'TypeError')) or
                                      (r['k'] == 'ret' and r.get('how') == 'fail' and r.get('err') in ('ValueError', 'TypeError')))
            if k in ('subscribe', 'unsubscribe') and r is not None and r.get('err') == 'MQTTWindowError':
                good = True       # the window is checked before the arguments
            others = [e for e in st.ev if e is not r]
            if not good:
                self.flag('not-rejected', 'invalid %s was not rejected with ValueError/TypeError: %s' % (st.opline[:60], r), st)
            elif others or st.timers != st.pre_timers or st.states != st.pre_states:
                self.flag('not-atomic', 'rejected %s had effects: %s' % (st.opline[:60], [e['k'] for e in others]), st)
        else:
            acc = r is not None and r['k'] == 'ret' and r.get('how') in ('pending', 'ok', 'none')
            if k in ('subscribe', 'unsubscribe') and r is not None and r.get('err') == 'MQTTWindowError':
                acc = True
            if not acc:
                self.flag('valid-refused', 'valid %s was refused: %s' % (st.opline[:60], r), st)


ALL_MONITORS.append(C20)
