# A small independent MQTT packet parser for the trace monitors (written from the standard's
# layouts; bounds-checked; not derived from pdu.py).  parse(bytes) -> dict or None (malformed).
TYPES = {1: 'CONNECT', 2: 'CONNACK', 3: 'PUBLISH', 4: 'PUBACK', 5: 'PUBREC', 6: 'PUBREL', 7: 'PUBCOMP',
         8: 'SUBSCRIBE', 9: 'SUBACK', 10: 'UNSUBSCRIBE', 11: 'UNSUBACK', 12: 'PINGREQ', 13: 'PINGRESP', 14: 'DISCONNECT'}


def read_remlen(b, i):
    """returns (value, next index) or None if incomplete / over 4 bytes"""
    mult, val = 1, 0
    for k in range(4):
        if i + k >= len(b):
            return None
        d = b[i + k]
        val += (d & 127) * mult
        mult *= 128
        if d < 128:
            return val, i + k + 1
    return 'bad'


def split_stream(buf):
    """(list of complete packets, rest). A length field longer than 4 bytes yields ('bad')."""
    out = []
    i = 0
    while True:
        if len(buf) - i < 2:
            break
        r = read_remlen(buf, i + 1)
        if r is None:
            break
        if r == 'bad':
            return out, None
        n, j = r
        if len(buf) < j + n:
            break
        out.append(bytes(buf[i:j + n]))
        i = j + n
    return out, bytes(buf[i:])


def _str(b, i):
    if i + 2 > len(b):
        return None
    n = b[i] * 256 + b[i + 1]
    if i + 2 + n > len(b):
        return None
    try:
        s = bytes(b[i + 2:i + 2 + n]).decode('utf-8')
    except UnicodeDecodeError:
        return None
    return s, i + 2 + n


def parse(pk, lenient_flags=True):
    """parse one complete packet (fixed header included). None if the fields do not fit the packet."""
    if len(pk) < 2:
        return None
    r = read_remlen(pk, 1)
    if r is None or r == 'bad':
        return None
    n, j = r
    if len(pk) != j + n:
        return None
    t, fl = pk[0] >> 4, pk[0] & 15
    body = pk[j:]
    name = TYPES.get(t)
    if name is None:
        return None
    d = dict(type=name, flags=fl, raw=bytes(pk))
    if name in ('PUBACK', 'PUBREC', 'PUBREL', 'PUBCOMP', 'UNSUBACK'):
        if len(body) < 2:
            return None
        d['id'] = body[0] * 256 + body[1]
        d['exact'] = len(body) == 2
        d['dup'] = bool(fl & 8)
        return d
    if name == 'CONNACK':
        if len(body) < 2:
            return None
        d['session'] = bool(body[0] & 1); d['rc'] = body[1]; d['exact'] = len(body) == 2
        return d
    if name in ('PINGREQ', 'PINGRESP', 'DISCONNECT'):
        d['exact'] = len(body) == 0
        return d
    if name == 'PUBLISH':
        d['dup'] = bool(fl & 8); d['qos'] = (fl >> 1) & 3; d['retain'] = bool(fl & 1)
        s = _str(body, 0)
        if s is None:
            return None
        d['topic'], i = s
        if d['qos']:
            if i + 2 > len(body):
                return None
            d['id'] = body[i] * 256 + body[i + 1]; i += 2
        else:
            d['id'] = None
        d['payload'] = bytes(body[i:])
        return d
    if name == 'SUBACK':
        if len(body) < 2:
            return None
        d['id'] = body[0] * 256 + body[1]
        d['codes'] = list(body[2:])
        return d
    if name in ('SUBSCRIBE', 'UNSUBSCRIBE'):
        if len(body) < 2:
            return None
        d['id'] = body[0] * 256 + body[1]
        d['dup'] = bool(fl & 8)
        i, topics = 2, []
        while i < len(body):
            s = _str(body, i)
            if s is None:
                return None
            t_, i = s
            if name == 'SUBSCRIBE':
                if i >= len(body):
                    return None
                topics.append((t_, body[i])); i += 1
            else:
                topics.append(t_)
        d['topics'] = topics
        return d
    if name == 'CONNECT':
        s = _str(body, 0)
        if s is None:
            return None
        d['proto'], i = s
        if i + 4 > len(body):
            return None
        d['level'] = body[i]; cf = body[i + 1]; d['keepalive'] = body[i + 2] * 256 + body[i + 3]; i += 4
        d['clean'] = bool(cf & 2)
        s = _str(body, i)
        if s is None:
            return None
        d['clientId'], i = s
        if cf & 4:
            s = _str(body, i)
            if s is None: return None
            d['willTopic'], i = s
            s = _str(body, i)
            if s is None: return None
            d['willMessage'], i = s
        if cf & 0x80:
            s = _str(body, i)
            if s is None: return None
            d['username'], i = s
        if cf & 0x40:
            if i + 2 > len(body): return None
            n2 = body[i] * 256 + body[i + 1]
            if i + 2 + n2 > len(body): return None
            d['password'] = bytes(body[i + 2:i + 2 + n2]); i += 2 + n2
        d['exact'] = i == len(body)
        return d
    return None
