# Common machinery of ./check: regenerate the configuration from /repo, build the Lean targets a
# property needs, audit the axioms of its headline theorems, run the property's correspondence /
# monitor campaign, decide the verdict, write the evidence file.
import os, sys, json, time, subprocess, hashlib, re, fcntl, glob

HERE = os.path.dirname(os.path.abspath(__file__))
ROOT = os.path.abspath(os.path.join(HERE, '..'))
LEAN = os.path.join(ROOT, 'lean')
SCRATCH = os.path.join(ROOT, 'out')
EVID = os.path.join(ROOT, 'evidence')
ALLOWED_AXIOMS = {'propext', 'Classical.choice', 'Quot.sound'}
FORBIDDEN = re.compile(r'\b(sorry|admit|native_decide|bv_decide|implemented_by)\b|^\s*axiom\s|unsafe\s|maxHeartbeats\s+0\b')

TRUSTED_BASE = [
    "Lean 4.33.0 kernel (thorough tier: compiled .olean files re-checked by leanchecker)",
    "axioms used by the headline theorems, as printed by `#print axioms` on this run (must be a subset of propext, Classical.choice, Quot.sound; no native_decide, no bv_decide, no sorry)",
    "hand-written Lean model of the code (lean/MqttVerif/Model/*): tied to /repo only through the correspondence check of this run (differential execution of the real code and the compiled model on generated inputs) and through harness/gen_config.py, which regenerates Generated/Config.lean (constants, dispatch matrix) and Generated/AddrScan.lean (AST scan: per-address dictionary accesses keyed / not keyed by self.addr) from the current source",
    "Lean compiler/runtime for the executable use of the model (line-protocol driver)",
    "harness: virtual reactor (task.Clock subclass on a 2^-20 s grid), logging transport, canonicalisation of observations, generators",
    "modelled, not verified: Twisted (Deferred, DelayedCall, LoopingCall, Protocol), CPython (bytearray, str codecs, dict order, int arithmetic), random.random as an arbitrary value in [0,1)",
]


def sh(cmd, cwd=None, timeout=3600, env=None):
    e = dict(os.environ)
    if env:
        e.update(env)
    r = subprocess.run(cmd, cwd=cwd, stdout=subprocess.PIPE, stderr=subprocess.STDOUT, timeout=timeout, env=e)
    return r.returncode, r.stdout.decode('utf-8', 'replace')


class BuildLock(object):
    def __enter__(self):
        os.makedirs(SCRATCH, exist_ok=True)
        self.f = open(os.path.join(SCRATCH, 'build.lock'), 'w')
        fcntl.flock(self.f, fcntl.LOCK_EX)
        return self
    def __exit__(self, *a):
        fcntl.flock(self.f, fcntl.LOCK_UN)
        self.f.close()


def obligations():
    return json.load(open(os.path.join(LEAN, 'obligations.json')))


def gen_config():
    """regenerate Generated/Config.lean from /repo's current source"""
    rc, out = sh(['/venv/bin/python', os.path.join(HERE, 'gen_config.py')], env={'PYTHONDONTWRITEBYTECODE': '1'})
    info = {}
    if rc == 0:
        try:
            info = json.loads(out.strip().splitlines()[-1])
        except Exception:
            pass
    return rc == 0, info, out


def lake_build(targets):
    rc, out = sh(['lake', 'build'] + targets, cwd=LEAN, timeout=3000)
    return rc == 0, out


def import_closure(modules):
    """the MqttVerif.* modules the given modules import, transitively (for the kernel re-check)"""
    seen, todo = [], list(modules)
    while todo:
        m = todo.pop()
        if m in seen or not m.startswith('MqttVerif'):
            continue
        seen.append(m)
        path = os.path.join(LEAN, *m.split('.')) + '.lean'
        try:
            for line in open(path):
                mm = re.match(r'\s*import\s+(\S+)', line)
                if mm:
                    todo.append(mm.group(1))
        except IOError:
            pass
    return sorted(seen)


def leanchecker(modules):
    """thorough tier: replay the compiled declarations of the property's modules and everything of this project they
    import through Lean's independent re-checker"""
    mods = import_closure(modules)
    rc, out = sh(['lake', 'env', 'leanchecker'] + mods, cwd=LEAN, timeout=3000)
    return rc == 0, out, mods


def scan_forbidden():
    """grep the Lean sources for sorry/admit/axiom/native_decide/... outside comments"""
    hits = []
    for path in glob.glob(os.path.join(LEAN, '**', '*.lean'), recursive=True):
        if os.sep + '.lake' + os.sep in path:
            continue
        txt = open(path).read()
        # strip block comments and line comments
        txt = re.sub(r'/-.*?-/', lambda m: '\n' * m.group(0).count('\n'), txt, flags=re.S)
        for i, line in enumerate(txt.split('\n')):
            line = line.split('--')[0]
            if FORBIDDEN.search(line):
                hits.append('%s:%d: %s' % (os.path.relpath(path, ROOT), i + 1, line.strip()[:100]))
    return hits


def audit(prop, ob):
    """#print axioms for each headline theorem; returns dict name -> list of axioms or None (missing)"""
    os.makedirs(SCRATCH, exist_ok=True)
    path = os.path.join(SCRATCH, 'Audit_%s.lean' % prop)
    with open(path, 'w') as f:
        for m in ob['modules']:
            f.write('import %s\n' % m)
        for t in ob['theorems']:
            f.write('#print axioms %s\n' % t)
    rc, out = sh(['lake', 'env', 'lean', path], cwd=LEAN, timeout=1200)
    res = {}
    # messages may wrap over several lines: join them
    flat = re.sub(r'\n\s+', ' ', out)
    for t in ob['theorems']:
        m = re.search(r"'%s' depends on axioms: \[([^\]]*)\]" % re.escape(t), flat)
        if m:
            res[t] = [a.strip() for a in m.group(1).split(',') if a.strip()]
        elif re.search(r"'%s' does not depend on any axioms" % re.escape(t), flat):
            res[t] = []
        else:
            res[t] = None
    return res, out


def source_digest():
    h = hashlib.sha256()
    base = '/repo/src/mqtt'
    for root, _, names in sorted(os.walk(base)):
        if os.sep + 'test' in root:
            continue
        for n in sorted(names):
            if n.endswith('.py') and n != '_version.py':
                p = os.path.join(root, n)
                h.update(p.encode()); h.update(open(p, 'rb').read())
    return h.hexdigest()


def known_findings():
    try:
        return json.load(open(os.path.join(ROOT, 'known_findings.json')))
    except Exception:
        return {'open': [], 'fixed': []}


class Result(object):
    """what a property's campaign returns"""
    def __init__(self):
        self.violations = []       # dicts: signature, what, replay (scenario lines or case), detail -- property fails on the REAL code
        self.divergences = []      # dicts: correspondence breaks (model vs real), no monitor rejection
        self.evaluations = 0
        self.distinct = set()
        self.programs = 0          # scenarios executed on the implementation
        self.samples = []
        self.rule = ''
        self.extra = {}
        self.exhaustive = None
        self.assumptions = []

    def sample(self, x, cap=3):
        if len(self.samples) < cap:
            self.samples.append(x)


def write_replay(prop, seed, n, payload):
    d = os.path.join(SCRATCH, 'replays')
    os.makedirs(d, exist_ok=True)
    path = os.path.join(d, '%s-seed%d-%d.json' % (prop, seed, n))
    json.dump(payload, open(path, 'w'), indent=1, default=str)
    return path


IMPL_COVERAGE = None


def impl_coverage_report():
    """line/branch coverage of /repo/src/mqtt reached by this run's campaign (thorough tier)"""
    cov = IMPL_COVERAGE
    if cov is None:
        return None
    try:
        cov.stop()
        out = {}
        for f in sorted(cov.get_data().measured_files()):
            an = cov._analyze(f)
            nums = an.numbers
            out[os.path.relpath(f, '/repo')] = dict(statements=nums.n_statements, missed=nums.n_missing,
                                                   branches=nums.n_branches, partial_branches=nums.n_partial_branches,
                                                   missing_lines=sorted(an.missing)[:80])
        tot_s = sum(v['statements'] for v in out.values()); tot_m = sum(v['missed'] for v in out.values())
        return dict(files=out, statements=tot_s, missed=tot_m, line_rate=round(1 - tot_m / max(1, tot_s), 4))
    except Exception as e:
        return dict(error=repr(e))


def run_check(prop, tier, seed, campaign, replay=None):
    """campaign(ctx) -> Result. ctx: dict(tier, seed, model_ok, prop)"""
    t0 = time.time()
    obs_all = obligations()
    ob = obs_all[prop]
    notes = []
    with BuildLock():
        cfg_ok, cfg_info, cfg_out = gen_config()
        if not cfg_ok:
            notes.append('gen_config failed: ' + cfg_out[-400:])
        prop_ok, out1 = lake_build(ob['modules'])
        if not prop_ok:
            notes.append('lake build of %s failed:\n%s' % (ob['modules'], out1[-1500:]))
        drv_ok, out2 = lake_build(['driver'])
        if not drv_ok:
            notes.append('lake build driver failed:\n' + out2[-1500:])
        ax, ax_out = (audit(prop, ob) if prop_ok else ({t: None for t in ob['theorems']}, ''))
        forb = scan_forbidden()
        rechecked = None
        if tier == 'thorough' and prop_ok:
            lc_ok, lc_out, lc_mods = leanchecker(ob['modules'])
            rechecked = dict(ok=lc_ok, modules=lc_mods)
            if not lc_ok:
                prop_ok = False
                notes.append('leanchecker rejected the compiled modules:\n' + lc_out[-1500:])
    n_obl = len(ob['theorems']) + len(ob.get('config_obligations', []))
    bad_ax = {t: a for t, a in ax.items() if a is None or not set(a) <= ALLOWED_AXIOMS}
    discharged = sum(1 for t, a in ax.items() if a is not None and set(a) <= ALLOWED_AXIOMS)
    if prop_ok:
        discharged += len(ob.get('config_obligations', []))
    if forb:
        notes.append('forbidden tokens in Lean sources: ' + '; '.join(forb[:5]))
    proof_ok = prop_ok and cfg_ok and not bad_ax and not forb

    ctx = dict(tier=tier, seed=seed, model_ok=drv_ok and cfg_ok, prop=prop, replay=replay)
    try:
        res = campaign(ctx)
    except Exception as ex:
        # An exception that escapes from the implementation's own frames while the campaign drives it is behaviour of the code
        # under test (on the unchanged tree no campaign raises); one raised by the harness itself stays a harness failure (exit 2).
        import traceback as _tb
        frames = _tb.extract_tb(ex.__traceback__)
        inner = frames[-1].filename if frames else ''
        if not inner.startswith('/repo/'):
            raise
        res = Result()
        res.evaluations = 1
        res.rule = 'campaign aborted: the implementation raised out of a call the campaign makes on every run'
        res.violations.append(dict(what='%s: the implementation raised %s: %s at %s:%d in a call that returns normally on the reference tree'
                                   % (prop, type(ex).__name__, ex, inner, frames[-1].lineno),
                                   signature='%s impl-raised %s' % (prop, type(ex).__name__),
                                   traceback=_tb.format_exception(type(ex), ex, ex.__traceback__)))

    if res.divergences and replay is None and prop not in ('C01', 'C03'):
        # model and code part on some scenario: look for an input on which the real code breaks the property itself
        try:
            import props_session
            props_session.extend_search(prop, ctx, res)
        except Exception:
            pass
    kf = known_findings()
    open_sigs = [(sg, e) for e in kf.get('open', []) if prop in e.get('properties', []) for sg in e.get('signatures', {}).get(prop, [])]
    lines, exit_code, nviol = [], 0, 0
    seen_known = set()
    reported = 0
    for v in res.violations:
        hit = None
        for sig, e in open_sigs:
            if v.get('signature', '').startswith(sig):
                hit = e
        if hit is not None:
            if hit['id'] not in seen_known:
                seen_known.add(hit['id'])
                lines.append('KNOWN-FINDING: property=%s %s [%s]' % (prop, hit['what'], hit['id']))
            continue
        nviol += 1
        if reported < 5:
            path = write_replay(prop, seed, reported, dict(property=prop, kind='violation', **v))
            lines.append('VIOLATION property=%s replay=%s' % (prop, path))
            lines.append('  ' + str(v.get('what', ''))[:300])
            reported += 1
        exit_code = 1
    if nviol == 0 and (res.divergences or not proof_ok or not ctx['model_ok']):
        # a proof obligation or the correspondence no longer checks and no concrete failing input was found
        why = []
        if not proof_ok:
            why.append('proof obligations not discharged: ' + '; '.join(notes)[:1500])
            if bad_ax:
                why.append('axiom audit: %r' % bad_ax)
        if not ctx['model_ok']:
            why.append('the executable model could not be built from the current tree')
        payload = dict(property=prop, kind='no-failing-input-found', reasons=why,
                       broken_theorems=[t for t in ob['theorems'] if ax.get(t) is None] if not prop_ok else [],
                       divergences=res.divergences[:5])
        path = write_replay(prop, seed, 99, payload)
        lines.append('VIOLATION property=%s replay=%s no-failing-input-found' % (prop, path))
        if res.divergences:
            d = res.divergences[0]
            lines.append('  correspondence broken: ' + str(d.get('what', ''))[:300])
        exit_code = 1
        nviol += 1

    cov = dict(
        obligations=n_obl, discharged=discharged if proof_ok else min(discharged, n_obl - 1) if n_obl > 1 else 0,
        checker_cmd='cd /verif/lean && lake build %s && lake env lean ../out/Audit_%s.lean   # then: ./check %s --tier %s' % (' '.join(ob['modules']), prop, prop, tier),
        trusted_base=TRUSTED_BASE + ['axioms found on this run: %s' % json.dumps({k: v for k, v in ax.items()})],
        evaluations=max(1, res.evaluations), distinct_nontrivial=len(res.distinct), rule=res.rule,
        samples=res.samples or ['(none)'], programs=res.programs, traces_validated_against_impl=res.programs,
        disagreements_checked=len(res.divergences), theorems=ob['theorems'],
        source_digest=source_digest(), config_regenerated=cfg_info, notes=notes,
    )
    if rechecked is not None:
        cov['kernel_recheck'] = rechecked
    ic = impl_coverage_report()
    if ic is not None:
        cov['impl_coverage_of_this_campaign'] = ic
    if res.exhaustive is not None:
        cov['exhaustive'] = res.exhaustive
    cov.update(res.extra)
    ev = dict(property_id=prop, tier=tier, seed=seed, level='proof', coverage=cov,
              assumptions=res.assumptions + ob.get('assumptions', []), wall_s=round(time.time() - t0, 2), violations=nviol)
    os.makedirs(EVID, exist_ok=True)
    json.dump(ev, open(os.path.join(EVID, '%s.json' % prop), 'w'), indent=1, default=str)
    for l in lines:
        print(l)
    print('%s tier=%s seed=%d obligations=%d discharged=%d evaluations=%d distinct=%d violations=%d wall=%.1fs' % (
        prop, tier, seed, n_obl, cov['discharged'], cov['evaluations'], cov['distinct_nontrivial'], nviol, time.time() - t0))
    return exit_code
