# property id -> campaign function
import props_codec
CAMPAIGNS = {
    'C01': props_codec.c01,
    'C02': props_codec.c02,
    'C03': props_codec.c03,
}
