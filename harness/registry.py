# property id -> campaign function
import props_codec, props_session
CAMPAIGNS = {
    'C01': props_codec.c01,
    'C02': props_codec.c02,
    'C03': props_codec.c03,
    'C04': props_session.c04,
    'C05': props_session.c05,
    'C06': props_session.c06,
    'C07': props_session.c07,
    'C08': props_session.c08,
    'C09': props_session.c09,
    'C10': props_session.c10,
    'C11': props_session.c11,
    'C12': props_session.c12,
    'C13': props_session.c13,
    'C14': props_session.c14,
    'C15': props_session.c15,
    'C16': props_session.c16,
    'C17': props_session.c17,
    'C18': props_session.c18,
    'C19': props_session.c19,
    'C20': props_session.c20,
}
