# State-aware random scenario generator. It drives the REAL code in lockstep (through
# realworld.RealWorld) only to know which identifiers/timers/states exist, so that the operations
# it emits are mostly relevant; every choice derives from one random.Random(seed).
# The result is a plain list of op lines, replayable on the real code and on the Lean model.
import random as _random
import realworld
from realworld import RealWorld

REAL_RANDOM = _random.Random     # realworld patches random.random only; Random instances are untouched


def hx(b):
    return bytes(b).hex() or '-'

def s_tok(s):
    return 's:' + (s.encode('utf-8').hex())

def enc_len(n):
    out = bytearray()
    while True:
        d = n % 128
        n //= 128
        if n > 0:
            d |= 128
        out.append(d)
        if n == 0:
            break
    return bytes(out)

def pkt(first, body=b''):
    return bytes([first]) + enc_len(len(body)) + bytes(body)

def u16(n):
    return bytes([(n >> 8) & 0xFF, n & 0xFF])

def mqtt_str(s):
    b = s.encode('utf-8')
    return u16(len(b)) + b

def connack(rc=0, session=0):
    return pkt(0x20, bytes([session, rc]))

def ack(first, mid):
    return pkt(first, u16(mid))

def suback(mid, codes):
    return pkt(0x90, u16(mid) + bytes(codes))

def publish_pkt(topic, payload, qos=0, dup=0, retain=0, mid=None):
    body = mqtt_str(topic)
    if qos:
        body += u16(mid)
    body += payload
    return pkt(0x30 | (dup << 3) | (qos << 1) | retain, body)


TOPICS = ['t', 'a/b', 'x/y/z', 'café', '温度/室', 'emoji/\U0001F600', 'long/' + 'q' * 40]
PAYLOADS = [b'', b'A', b'hello', bytes(range(256)), b'x' * 130, b'y' * 300]

DEFAULT_WEIGHTS = dict(
    build=4, sethandlers=1, connect=6, connack=8, publish=14, subscribe=5, unsubscribe=4,
    puback=8, pubrec=6, pubcomp=6, suback=5, unsuback=4, inpub=8, pubrel=5, pingresp=3,
    fire=12, lost=3, disconnect=1, setwin=2, settimeout=1, setbw=1, jit=2, garbage=1,
    badcall=1, dupack=3, chunked=3, connect_bad=1, connack_bad=1,
)


class Walker(object):
    def __init__(self, seed, profile=3, weights=None, naddr=1, keepalives=(0, 0, 0, 2, 5, 60),
                 clean=None, versions=('311', '311', '31'), max_payload=None, allow_garbage=True,
                 allow_api_after_lost=True, reconnect_idle_again=False):
        self.rng = REAL_RANDOM(seed)
        self.profile = profile
        self.weights = dict(DEFAULT_WEIGHTS)
        if weights:
            self.weights.update(weights)
        self.naddr = naddr
        self.keepalives = keepalives
        self.clean = clean
        self.versions = versions
        self.max_payload = max_payload
        self.allow_garbage = allow_garbage
        self.allow_api_after_lost = allow_api_after_lost
        self.reconnect_idle_again = reconnect_idle_again     # connect() again on a protocol that was already connected once (known finding F-16b)
        self.ever_connected = set()
        self.world = RealWorld(profile)
        self.lines = ['factory %d' % profile]
        self.trace = [(self.lines[0], [])]
        # bookkeeping from observations
        self.nprotos = 0
        self.addr_of = {}
        self.lost = set()
        self.out_pub = {}        # p -> list of ids of PUBLISH qos>0 written (possibly acked)
        self.out_rel = {}
        self.out_sub = {}
        self.out_unsub = {}
        self.in_q2 = {}          # p -> ids of inbound QoS 2 PUBLISH sent
        self.next_in_id = 100
        self.pending_chunks = {} # p -> list of remaining chunks of a packet being delivered piecewise

    # ---- executing ---------------------------------------------------------------
    def do(self, line):
        obs = self.world.step(line)
        self.lines.append(line)
        self.trace.append((line, obs))
        for o in obs:
            t = o.split()
            if t[0] == 'w' and t[2] != '-':
                p = int(t[1]); b = bytes.fromhex(t[2]); typ = b[0] >> 4
                if typ in (3, 6, 8, 10):
                    mid = self._mid_of(b)
                    if mid is not None:
                        {3: self.out_pub, 6: self.out_rel, 8: self.out_sub, 10: self.out_unsub}[typ].setdefault(p, []).append(mid)
        return obs

    @staticmethod
    def _mid_of(b):
        typ = b[0] >> 4
        i = 1
        while b[i] & 0x80:
            i += 1
        body = b[i + 1:]
        if typ == 3:
            qos = (b[0] >> 1) & 3
            if qos == 0:
                return None
            tl = body[0] * 256 + body[1]
            return body[2 + tl] * 256 + body[3 + tl]
        return body[0] * 256 + body[1]

    # ---- state views -------------------------------------------------------------
    def states(self):
        return self.world.states_line().split(' ', 1)[1] if self.nprotos else ''

    def live(self):
        return [p for p in range(self.nprotos) if p not in self.lost]

    def live_for_addr(self, a):
        return [p for p in self.live() if self.addr_of[p] == a]

    def pick_proto(self, want=None):
        """mostly a live protocol (in one of the wanted states if given), sometimes any"""
        live = self.live()
        st = self.states()
        if want:
            c = [p for p in live if st[p] in want]
            if c and self.rng.random() < 0.93:
                return self.rng.choice(c)
        if not self.allow_api_after_lost:
            pool = live
        else:
            pool = live if (live and self.rng.random() < 0.9) else list(range(self.nprotos))
        if not pool:
            return None
        return self.rng.choice(pool)

    def some_id(self, table, p):
        ids = table.get(p, [])
        r = self.rng.random()
        if ids and r < 0.85:
            # prefer recent ids
            return ids[-1 - min(len(ids) - 1, int(self.rng.expovariate(0.7)))]
        if r < 0.90:
            return self.rng.choice([1, 2, 3, 9, 65535, 300])
        if r < 0.95:
            # an identifier in flight on ANOTHER connection of the factory (never issued on this one)
            other = [i for q, ids2 in table.items() if q != p for i in ids2]
            if other:
                return self.rng.choice(other)
        # an id from another table (ack of the wrong kind of thing)
        allids = sum((t.get(p, []) for t in (self.out_pub, self.out_rel, self.out_sub, self.out_unsub)), [])
        return self.rng.choice(allids) if allids else 7

    # ---- one random step ---------------------------------------------------------
    def deliver(self, p, data):
        """recv, sometimes cut into chunks. Never after `lost p` (Twisted's contract)."""
        if p is None or p in self.lost:
            return
        if len(data) > 1 and self.rng.random() < self.weights['chunked'] / 20.0:
            ncuts = self.rng.choice([1, 1, 2, 3])
            cuts = sorted(set(self.rng.randrange(1, len(data)) for _ in range(ncuts)))
            prev = 0
            for c in cuts + [len(data)]:
                self.do('recv %d %s' % (p, hx(data[prev:c])))
                prev = c
        else:
            self.do('recv %d %s' % (p, hx(data)))

    def step(self):
        rng, W = self.rng, self.weights
        names = list(W.keys())
        kind = rng.choices(names, weights=[W[k] for k in names])[0]
        st = self.states()
        if kind == 'build' or self.nprotos == 0:
            a = rng.randrange(self.naddr)
            if self.live_for_addr(a):
                return
            self.do('build a%d' % a)
            self.addr_of[self.nprotos] = a
            self.nprotos += 1
            if rng.random() < 0.9:
                self.do('sethandlers %d %d' % (self.nprotos - 1, rng.choice([7, 7, 7, 5, 3, 1, 0])))
            if rng.random() < 0.85:
                self.connect(self.nprotos - 1)
            return
        if kind not in ('fire', 'lost', 'jit') and not self.live() and not self.allow_api_after_lost:
            return
        if kind == 'sethandlers':
            p = self.pick_proto()
            self.do('sethandlers %d %d' % (p, rng.randrange(8)))
        elif kind == 'connect':
            p = self.pick_proto('I')
            self.connect(p)
        elif kind == 'connect_bad':
            p = self.pick_proto('I')
            self.connect(p, bad=True)
        elif kind == 'connack':
            p = self.pick_proto('G')
            self.deliver(p, connack(0, rng.choice([0, 0, 1])))
        elif kind == 'connack_bad':
            p = self.pick_proto('G')
            self.deliver(p, connack(rng.choice([1, 2, 3, 4, 5, 6, 17, 128, 255]), rng.choice([0, 1])))
        elif kind == 'publish':
            p = self.pick_proto('GC')
            topic = rng.choice(TOPICS)
            pl = rng.choice(PAYLOADS)
            if self.max_payload is not None:
                pl = pl[:self.max_payload]
            ptok = ('s:' + pl.decode('latin-1').encode('utf-8').hex()) if rng.random() < 0.3 else 'b:' + pl.hex()
            self.do('publish %d %s %s %d %d' % (p, s_tok(topic), ptok, rng.choice([0, 1, 1, 2, 2]), rng.choice([0, 0, 1])))
        elif kind == 'subscribe':
            p = self.pick_proto('C')
            shape = rng.randrange(3)
            t = rng.choice(TOPICS)
            if shape == 0:
                self.do('subscribe %d %s %d' % (p, s_tok(t), rng.randrange(3)))
            elif shape == 1:
                self.do('subscribe %d t:%s,%d 0' % (p, s_tok(t).replace(':', '='), rng.randrange(3)))
            else:
                n = rng.randrange(1, 4)
                items = ';'.join('%s,%d' % (s_tok(rng.choice(TOPICS)).replace(':', '='), rng.randrange(3)) for _ in range(n))
                self.do('subscribe %d l:%s 0' % (p, items))
        elif kind == 'unsubscribe':
            p = self.pick_proto('C')
            if rng.random() < 0.5:
                self.do('unsubscribe %d %s' % (p, s_tok(rng.choice(TOPICS))))
            else:
                n = rng.randrange(1, 4)
                self.do('unsubscribe %d L:%s' % (p, ';'.join(s_tok(rng.choice(TOPICS)).replace(':', '=') for _ in range(n))))
        elif kind in ('puback', 'pubrec'):
            p = self.pick_proto('C')
            self.deliver(p, ack(0x40 if kind == 'puback' else 0x50, self.some_id(self.out_pub, p)))
        elif kind == 'pubcomp':
            p = self.pick_proto('C')
            self.deliver(p, ack(0x70, self.some_id(self.out_rel, p)))
        elif kind == 'dupack':
            p = self.pick_proto('C')
            first = rng.choice([0x40, 0x50, 0x70, 0xB0])
            table = {0x40: self.out_pub, 0x50: self.out_pub, 0x70: self.out_rel, 0xB0: self.out_unsub}[first]
            mid = self.some_id(table, p)
            self.deliver(p, ack(first, mid) + ack(first, mid))
        elif kind == 'suback':
            p = self.pick_proto('C')
            codes = [rng.choice([0, 1, 2, 0x80]) for _ in range(rng.randrange(0, 4))]
            self.deliver(p, suback(self.some_id(self.out_sub, p), codes))
        elif kind == 'unsuback':
            p = self.pick_proto('C')
            self.deliver(p, ack(0xB0, self.some_id(self.out_unsub, p)))
        elif kind == 'inpub':
            p = self.pick_proto('C')
            qos = rng.choice([0, 1, 2, 2])
            ids = self.in_q2.setdefault(p, [])
            if qos and ids and rng.random() < 0.3:
                mid = rng.choice(ids)
            else:
                mid = self.next_in_id; self.next_in_id += 1
            if qos == 2:
                ids.append(mid)
            pl = rng.choice(PAYLOADS)
            self.deliver(p, publish_pkt(rng.choice(TOPICS), pl, qos, rng.choice([0, 0, 1]) if qos else 0, rng.choice([0, 1]), mid))
        elif kind == 'pubrel':
            p = self.pick_proto('C')
            ids = self.in_q2.get(p, [])
            mid = rng.choice(ids) if ids and rng.random() < 0.85 else rng.choice([1, 5, 100, 9999])
            self.deliver(p, ack(0x6A if rng.random() < 0.25 else 0x62, mid))       # a repeated PUBREL may carry DUP (3.1)
        elif kind == 'pingresp':
            p = self.pick_proto('C')
            self.deliver(p, pkt(0xD0))
        elif kind == 'fire':
            e = self.world.earliest_timers()
            if e:
                self.do('fire %d' % rng.choice(e)._vid)
        elif kind == 'lost':
            # Env: a connection is lost only after connect() has been called on it (see DESIGN.md, F-15)
            live = [p for p in self.live() if p in self.ever_connected]
            if live:
                p = rng.choice(live)
                self.do('lost %d %s' % (p, rng.choice(['done', 'lostc', 'aborted'])))
                self.lost.add(p)
                # the broker-side inbound QoS 2 state belongs to the address: keep ids for the next protocol
                if rng.random() < 0.8:
                    a = self.addr_of[p]
                    self.do('build a%d' % a)
                    q = self.nprotos
                    self.addr_of[q] = a
                    self.nprotos += 1
                    self.in_q2[q] = list(self.in_q2.get(p, []))
                    self.out_pub[q] = list(self.out_pub.get(p, []))
                    self.out_rel[q] = list(self.out_rel.get(p, []))
                    if rng.random() < 0.9:
                        self.do('sethandlers %d 7' % q)
                    if rng.random() < 0.9:
                        self.connect(q)
        elif kind == 'disconnect':
            p = self.pick_proto('C')
            self.do('disconnect %d' % p)
        elif kind == 'setwin':
            p = self.pick_proto()
            self.do('setwin %d %d' % (p, rng.choice([1, 1, 2, 3, 4, 16, 16, 0, 17])))
        elif kind == 'settimeout':
            p = self.pick_proto()
            self.do('settimeout %d %d' % (p, rng.choice([1, 2, 4, 7, 1024, 0, 1025])))
        elif kind == 'setbw':
            p = self.pick_proto()
            self.do('setbw %d %s %s' % (p, rng.choice(['1', '10', '100', '1000', '10000', '8', '3', '0', '-5']),
                                        rng.choice(['1', '2', '2', '3', '3/2', '0'])))
        elif kind == 'jit':
            self.do('jit %d/1024' % rng.randrange(0, 1024))
        elif kind == 'garbage':
            if not self.allow_garbage:
                return
            p = self.pick_proto('GC')
            n = rng.randrange(1, 8)
            if p is None or p in self.lost:
                return
            self.do('recv %d %s' % (p, hx(bytes(rng.choice([0, 1, 2, 0x10, 0x20, 0x30, 0x32, 0x40, 0x62, 0x7f, 0x80, 0x90, 0xd0, 0xf0, 0xff]) for _ in range(n)))))
        elif kind == 'badcall':
            p = self.pick_proto()
            c = rng.randrange(6)
            if c == 0:
                self.do('publish %d %s b:00 %d 0' % (p, s_tok('t'), rng.choice([-1, 3, 7])))
            elif c == 1:
                self.do('publish %d %s %s 1 0' % (p, s_tok('t'), rng.choice(['i:5', 'n', 'y:00', 'f:1.5', 'l:'])))
            elif c == 2:
                self.do('subscribe %d %s %d' % (p, rng.choice(['i:5', 'n', 's:74']), rng.choice([-1, 3, 0])))
            elif c == 3:
                self.do('unsubscribe %d %s' % (p, rng.choice(['i:5', 'n'])))
            elif c == 4:
                self.do('publish %d %s b:00 1 0' % (p, rng.choice(['n', 'i:3'])))
            elif rng.random() < 0.3:
                self.do(rng.choice(['subscribe %d l: 0', 'unsubscribe %d L:']) % p)       # empty topic lists
            else:
                self.do('subscribe %d l:%s,%d 0' % (p, s_tok('t').replace(':', '='), rng.choice([3, -1, 2])))

    def connect(self, p, bad=False):
        rng = self.rng
        if p is None:
            return
        if p in self.lost:
            return          # connect() on a protocol whose loss has been reported: only in the known-finding witness (KF-2)
        if p in self.ever_connected and not self.reconnect_idle_again:
            return
        ka = rng.choice(self.keepalives)
        ver = rng.choice(self.versions)
        clean = self.clean if self.clean is not None else rng.choice([0, 1])
        extra = ''
        r = rng.random()
        if r < 0.15:
            extra = ' %s %s %d %d' % (s_tok(rng.choice(['will/t', 'wíll/€'])), s_tok(rng.choice(['bye', 'desconexión', '', '温\U0001F600'])), rng.randrange(3), rng.randrange(2))
        elif r < 0.3:
            extra = ' n n 0 0 %s %s' % (s_tok(rng.choice(['user', 'üser'])), s_tok('päss') if rng.random() < 0.7 else 'n')
        elif r < 0.42:
            # every optional CONNECT field at once, multi-byte text in each: a wrong length prefix in one field shifts the ones after it
            extra = ' %s %s %d %d %s %s' % (s_tok(rng.choice(['w', 'wíll/€'])), s_tok(rng.choice(['adiós', 'bye', 'Ж'])), rng.randrange(3), rng.randrange(2),
                                            s_tok(rng.choice(['user', 'üser'])), s_tok('päss') if rng.random() < 0.7 else 'n')
        cid = 'cli%d' % p
        if bad:
            c = rng.randrange(6)
            if c == 0:
                ka = rng.choice([-1, 65536])
            elif c == 1:
                ver = 'x'
            elif c == 2:
                extra = ' %s n 0 0' % s_tok('will/t')
            elif c == 3:
                extra = ' n n 0 0 n %s' % s_tok('pw')
            elif c == 4:
                extra = ' %s %s %d 0' % (s_tok('w'), s_tok('m'), rng.choice([3, -1]))
            else:
                ver = '31'; cid = 'c' * 24
        obs = self.do('connect %d %s %d %s %d%s' % (p, s_tok(cid), ka, ver, clean, extra))
        if any(o.startswith('ret pending') for o in obs):
            self.ever_connected.add(p)

    def run(self, nsteps):
        for _ in range(nsteps):
            self.step()
        return self.lines


def generate(seed, nsteps, **kw):
    w = Walker(seed, **kw)
    w.run(nsteps)
    return w.lines, w.trace
