# Correspondence: run scenarios on the real code (realworld.RealWorld) and on the compiled Lean
# model (lean/.lake/build/bin/driver), compare the observation streams step by step.
import os, sys, subprocess

HERE = os.path.dirname(os.path.abspath(__file__))
DRIVER = os.path.join(HERE, '..', 'lean', '.lake', 'build', 'bin', 'driver')


def run_model(scenarios):
    """scenarios: list of lists of op lines (each starting with 'factory N').
    Returns list (per scenario) of list (per op, factory line included) of obs-line lists."""
    inp = '\n'.join('\n'.join(s) for s in scenarios) + '\n'
    r = subprocess.run([DRIVER], input=inp.encode(), stdout=subprocess.PIPE, stderr=subprocess.PIPE)
    if r.returncode != 0:
        raise RuntimeError('driver failed: %s' % r.stderr.decode()[-2000:])
    steps, cur = [], []
    for ln in r.stdout.decode().split('\n'):
        if ln == '.':
            steps.append(cur); cur = []
        elif ln != '':
            cur.append(ln)
    out, i = [], 0
    for s in scenarios:
        out.append(steps[i:i + len(s)]); i += len(s)
    if i != len(steps):
        raise RuntimeError('driver produced %d steps for %d ops' % (len(steps), i))
    return out


def first_diff(real, model, project=None):
    """real/model: list per op of obs-line lists. Returns None or (index, real_lines, model_lines)."""
    for i, (a, b) in enumerate(zip(real, model)):
        if project is not None:
            a, b = project(a), project(b)
        if a != b:
            return (i, a, b)
    return None


if __name__ == '__main__':
    import realworld
    lines = [l.strip() for l in sys.stdin.read().splitlines() if l.strip() and not l.startswith('#')]
    real = realworld.run_scenario(lines)
    model = run_model([lines])[0]
    bad = 0
    for (op, ro), mo in zip(real, model):
        mark = '  ' if ro == mo else '!!'
        if ro != mo:
            bad += 1
        print('%s > %s' % (mark, op))
        if ro != mo:
            for l in ro: print('     real : ' + l)
            for l in mo: print('     model: ' + l)
    print('DIFFS', bad)
