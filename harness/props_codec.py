# Campaigns of the pure-layer properties C01 (round trip), C02 (reference wire format), C03 (framing).
import itertools, hashlib
import realworld, corr, walker
import codec_check as cc
from checklib import Result
from walker import hx, pkt, u16, ack, suback, connack, publish_pkt, s_tok


def _digest(x):
    return hashlib.sha1(repr(x).encode()).hexdigest()[:16]


def _codec_fail_to_result(res, fails, prop_tag):
    for f in fails:
        what = f['what']
        entry = dict(what=what + ' :: ' + str(cc.jsonable({k: v for k, v in f.items() if k != 'what'}))[:600],
                     signature=what.split(':')[0], case=cc.jsonable(dict(kind=f.get('kind'), fields=f.get('fields'))))
        if what.startswith('correspondence'):
            res.divergences.append(entry)
        elif what.startswith(prop_tag) or what.startswith('encoding is not deterministic'):
            res.violations.append(entry)
        # failures tagged with the other property's id belong to that property's check


def four_byte_cases():
    """packets whose remaining length needs the fourth length byte (>= 2 097 152), named so that a replay can rebuild them:
    PUBLISH on both sides of the boundary with bytes and text payloads, SUBSCRIBE / UNSUBSCRIBE naming 33 topics of 65 535 bytes"""
    out = {}
    for total in (2097151, 2097152, 2097153, 2097152 + 70000):
        for qos in (0, 1, 2):
            overhead = 2 + 1 + (2 if qos else 0)
            out['publish-b-%d-q%d' % (total, qos)] = ('publish', dict(topic='t', payload=('b', bytes((i * 7) % 251 for i in range(total - overhead))), qos=qos, dup=0, retain=0,
                                                                  msgId=5 if qos else None))
    out['publish-s'] = ('publish', dict(topic='t/ñ', payload=('s', 'añ€' * 400000), qos=1, dup=0, retain=1, msgId=65535))
    long = ['%02d' % i + 'x' * 65533 for i in range(33)]
    out['subscribe-33'] = ('subscribe', dict(msgId=9, topics=[(t, i % 3) for i, t in enumerate(long)]))
    out['unsubscribe-33'] = ('unsubscribe', dict(msgId=9, topics=long))
    return out


def _four_byte_round_trip(res, only=None):
    """real code only (the model's byte lists make multi-megabyte packets slow): decode(encode(x)) = x across the 3/4-byte boundary of the
    remaining-length field, in every tier"""
    n = 0
    for name, (kind, f) in four_byte_cases().items():
        if only is not None and name != only:
            continue
        n += 1
        try:
            r = cc.real_encode(kind, f)
            if r[0] != 'ok':
                res.violations.append(dict(what='C01: %s with a four-byte remaining length is refused by encode(): %s' % (name, str(r[1])[:80]),
                                           signature='C01 four-byte', case=dict(kind='four-byte', fields=dict(name=name))))
                continue
            d = cc.real_decode_canon(kind, r[1]); e = cc.expected_decode_canon(kind, f)
        except Exception as ex:
            d, e = 'raised %s' % type(ex).__name__, None
        if d != e:
            res.violations.append(dict(what='C01: decode(encode(x)) != x for %s (remaining length >= 2097151): decoded %s, expected %s' % (name, str(d)[:120], str(e)[:120]),
                                       signature='C01 four-byte', case=dict(kind='four-byte', fields=dict(name=name))))
    return n


def c01(ctx):
    res = Result()
    rng = cc.RNG(ctx['seed'])
    if ctx.get('replay') and ctx['replay']['case'].get('kind') == 'four-byte':
        n = _four_byte_round_trip(res, only=ctx['replay']['case']['fields']['name'])
        res.evaluations = res.programs = n
        res.rule = 'replay of one four-byte remaining-length round trip'
        return res
    if ctx.get('replay'):
        case = ctx['replay']['case']
        cases = [(case['kind'], _unjson(case['fields']))]
    else:
        n = 1200 if ctx['tier'] == 'quick' else 40000
        cases = list(cc.gen_cases(rng, n, big=(ctx['tier'] != 'quick')))
    fails, stats = cc.check(cases, want_c02=False) if ctx['model_ok'] else _real_only(cases, False)
    _codec_fail_to_result(res, fails, 'C01')
    nhist = 0
    if not ctx.get('replay'):
        # history independence: the same fields encode to the same bytes after every refused encode() of every packet class
        fh, nhist = cc.check_history_independence(cases[:40] + cases[-80:] if ctx['tier'] == 'quick' else cases[:200] + cases[-800:])
        _codec_fail_to_result(res, fh, 'C01')
    # the 16-bit codec, exhaustively, both directions, against the model
    n16 = 0
    if not ctx.get('replay'):
        import mqtt.pdu as pdu
        bad = []
        for v in range(65536):
            try:
                e = bytes(pdu.encode16Int(v))
                if pdu.decode16Int(bytearray(e)) != v or e != bytes([v >> 8, v & 255]):
                    bad.append(v)
            except Exception:
                bad.append(v)
        n16 = 65536
        for v in bad[:3]:
            res.violations.append(dict(what='C01: decode16Int(encode16Int(%d)) != %d' % (v, v), signature='C01 int16', case=dict(kind='int16', fields=dict(v=v))))
        # remaining-length field across all byte-count boundaries
        for v in [0, 1, 127, 128, 129, 16383, 16384, 16385, 2097151, 2097152, 2097153, 268435454, 268435455] + [rng.randrange(268435456) for _ in range(3000)]:
            try:
                e = bytes(pdu.encodeLength(v))
                good = pdu.decodeLength(bytearray(e) + b'\xff\x7f') == v and len(e) <= 4
            except Exception:
                good = False
            if not good:
                res.violations.append(dict(what='C01: decodeLength(encodeLength(%d)) != %d' % (v, v), signature='C01 remlen', case=dict(kind='remlen', fields=dict(v=v))))
        if ctx['model_ok']:
            vals = [0, 1, 127, 128, 16383, 16384, 2097151, 2097152, 268435455] + [rng.randrange(268435456) for _ in range(500)]
            outs = cc.run_lines(['codec elen %d' % v for v in vals])
            for v, o in zip(vals, outs):
                try:
                    real = hx(pdu.encodeLength(v))
                except Exception as ex:
                    real = 'raised ' + type(ex).__name__
                if o != 'ok ' + real:
                    res.divergences.append(dict(what='correspondence: encodeLength(%d): real %s model %s' % (v, real, o)))
    n4 = 0 if ctx.get('replay') else _four_byte_round_trip(res)
    res.evaluations = stats['cases'] + n16 + n4
    res.programs = stats['cases'] + n4
    for (k, f) in cases:
        res.distinct.add(_digest((k, cc.jsonable(f))))
    for i in range(n4):
        res.distinct.add(_digest(('four-byte', i)))
    for c in cases[:2] + cases[-1:]:
        res.sample(dict(kind=c[0], fields=_short(c[1])))
    res.rule = ('field assignments from a boundary-biased generator over the repo\'s own packet classes (all CONNECT/PUBLISH flag '
                'combinations, ids/keepalives {0,1,255,256,65534,65535}+random, strings over 1-4 byte UTF-8 sequences at byte lengths '
                '{0,1,127,128,16383,16384,65535}, remaining lengths on both sides of 128/16384(/2097152 in thorough), topic lists 1..8, '
                'payload as str and bytearray); each is encoded by the real class (twice, and on a fresh object), decoded by the real class, '
                'compared with the expected fields and with the Lean model\'s bytes and fields; distinct = distinct (kind, fields); '
                'all are non-trivial (each exercises an encoder and a decoder); plus the 16-bit codec exhaustively (65536 values); plus, real code only, '
                'round trips of PUBLISH/SUBSCRIBE/UNSUBSCRIBE whose remaining length needs the fourth length byte (2097151..2167152, 33 topics of 65535 bytes)')
    res.extra = dict(by_kind=stats['by_kind'], remaining_length_bytes=stats['remlen_bytes'], int16_exhaustive=n16, history_independence_cases=nhist)
    res.assumptions = ['str values with lone surrogates are outside the model (they cannot be encoded; covered by the C02 table of unrepresentable inputs)']
    return res


def c02(ctx):
    res = Result()
    rng = cc.RNG(ctx['seed'] + 1000)
    if ctx.get('replay') and 'case' not in ctx['replay']:
        # a witness from the live-session families (bytes written / broker packets read during sessions): those families are deterministic
        # and are simply run again in full
        ctx2 = dict(ctx); ctx2.pop('replay')
        _session_writes(ctx2, res)
        _session_reads(ctx2, res)
        res.evaluations = res.programs = int(res.extra.get('session_reads_checked', 0)) + 1
        res.rule = 'replay: the live-session families of C02 (writes compared with the reference encoding, broker packets read in the prescribed formats)'
        return res
    if ctx.get('replay'):
        case = ctx['replay']['case']
        cases = [(case['kind'], _unjson(case['fields']))]
    else:
        n = 1200 if ctx['tier'] == 'quick' else 40000
        cases = list(cc.gen_cases(rng, n, big=(ctx['tier'] != 'quick')))
    if ctx['model_ok']:
        fails, stats = cc.check(cases, want_c02=True)
    else:
        fails, stats = _real_only(cases, True)
    _codec_fail_to_result(res, fails, 'C02')
    nun = nbr = 0
    if not ctx.get('replay'):
        # the remaining-length field itself, on both sides of every byte-count boundary and up to the maximum, against the reference table
        import mqtt.pdu as pdu
        def ref_len(v):
            out = bytearray()
            while True:
                b, v = v % 128, v // 128
                out.append(b | (0x80 if v else 0))
                if not v:
                    return bytes(out)
        for v in [0, 1, 127, 128, 129, 16383, 16384, 16385, 2097151, 2097152, 2097153, 2097152 + 16384, 3 * 2097152 + 5, 268435454, 268435455] + [rng.randrange(268435456) for _ in range(2000)]:
            try:
                got = bytes(pdu.encodeLength(v))
            except Exception as e:
                got = ('raised ' + type(e).__name__).encode()
            if got != ref_len(v):
                res.violations.append(dict(what='C02: remaining length %d is encoded as %s, the standard prescribes %s' % (v, got.hex(), ref_len(v).hex()),
                                           signature='C02 remlen', case=dict(kind='remlen', fields=dict(v=v))))
                break
        f2, nun = cc.check_unrepresentable()
        _codec_fail_to_result(res, f2, 'C02')
        if ctx['model_ok']:
            f3, nbr = cc.check_broker(rng, 400 if ctx['tier'] == 'quick' else 8000)
            _codec_fail_to_result(res, f3, 'C02')
        # session-level: bytes handed to transport.write() during live sessions are the reference encoding
        f4, nw = _session_writes(ctx, res)
        _session_reads(ctx, res)
        # long and large sessions (many reconnections alternating protocol versions, many retransmissions, 64 KiB payloads, 200-topic
        # requests): every write must equal the model's and parse with the reference decoder under the connection's version
        import props_session, longrun
        if ctx['model_ok']:
            lr = longrun.for_prop('C02', ctx)
            r2 = Result()
            tr = props_session.run_scenarios('C02', ctx, lr, r2, label='long')
            r2.all_traces = [(e[0], e[1], t) for e, t in zip(lr, tr)]
            props_session.strict_decode_writes(ctx, r2, 'C02')
            res.violations += r2.violations; res.divergences += r2.divergences
            res.extra['long_scenarios'] = {n: len(l) for n, l in lr}
    res.evaluations = stats['cases'] + nun + nbr
    res.programs = stats['cases']
    for (k, f) in cases:
        res.distinct.add(_digest((k, cc.jsonable(f))))
    for c in cases[:2] + cases[-1:]:
        res.sample(dict(kind=c[0], fields=_short(c[1])))
    res.rule = ('the C01 input space for both protocol versions; the real bytes are compared with Spec.encode (reference written from the '
                'OASIS text, run in the Lean driver) and with the model; reference-encoded broker packets are decoded by the real classes; '
                'a table of unrepresentable inputs must raise ValueError/TypeError and leave .encoded untouched; every packet written during '
                'random live sessions must parse with the strict reference decoder; distinct = distinct (kind, fields)')
    res.extra = dict(by_kind=stats['by_kind'], spec_comparisons=stats.get('spec_compared', 0), unrepresentable_inputs=nun, broker_packets=nbr)
    return res


def _session_writes(ctx, res):
    """every packet written to the transport in random live sessions parses with the strict reference decoder"""
    if not ctx['model_ok']:
        return [], 0
    lines, meta = [], []
    nscen = 40 if ctx['tier'] == 'quick' else 600
    for i in range(nscen):
        seed = ctx['seed'] * 7919 + i
        prof = [3, 3, 1, 2][i % 4]
        w = walker.Walker(seed, profile=prof, weights=dict(garbage=0, badcall=0, connect_bad=0, disconnect=0), allow_api_after_lost=False)
        w.run(50)
        ver = {}
        for (op, obs) in w.trace:
            t = op.split()
            if t[0] == 'connect' and any(o.startswith('ret pending') for o in obs):
                ver[int(t[1])] = t[4]
            for o in obs:
                if o.startswith('w '):
                    _, p, h = o.split()
                    lines.append('codec specdec %s %s' % ('31' if ver.get(int(p)) == '31' else '311', h))
                    meta.append((w.lines, o))
    outs = cc.run_lines(lines) if lines else []
    for (scen, o), r in zip(meta, outs):
        if r == 'none':
            res.violations.append(dict(what='C02: a packet written during a live session is not a well-formed MQTT packet: ' + o,
                                       signature='C02 session write', scenario=scen))
    res.extra['session_writes_checked'] = len(lines)
    return [], len(lines)


def _session_reads(ctx, res):
    """broker packets in the standard layout, several per TCP segment (non-ASCII topics, 1/2/3-byte remaining lengths, all flag
    combinations), reach onPublish with the field values the standard assigns and are acknowledged under the identifier they carry"""
    import mqttparse
    rng = cc.RNG(ctx['seed'] + 4242)
    topics = ['t', 'caf\u00e9/\u6e29\u5ea6', 'a/b/\u00f1', 'x' * 130]
    sizes = [0, 1, 5, 126, 127, 128, 200, 16379, 16384] + ([70000] if ctx['tier'] != 'quick' else [])
    n = 0
    for ver in ('311', '31'):
        for rep in range(3 if ctx['tier'] == 'quick' else 30):
            pk = []
            for _ in range(rng.randrange(2, 6)):
                q = rng.choice([0, 1, 1, 2])
                body = bytes(rng.randrange(256) for _ in range(rng.choice(sizes)))
                mid = rng.choice([1, 255, 256, 0x1234, 65535])
                hdr_extra = dict(dup=bool(rng.randrange(2)) if q else False, retain=bool(rng.randrange(2)))
                pk.append(publish_pkt(rng.choice(topics), body, q, mid=mid, **hdr_extra))
            # delivery: the whole stream in one segment; or every byte of each fixed header (type byte and each byte of the
            # remaining-length field) in a segment of its own; or cut at random places
            pre = _prefix(3, ver, 'connected')
            mode = rep % 3
            if mode == 0:
                chunks = [b''.join(pk)]
            elif mode == 1:
                chunks = []
                for b in pk:
                    k = min(6, len(b))
                    chunks += [b[i:i + 1] for i in range(k)] + ([b[k:]] if len(b) > k else [])
            else:
                stream = b''.join(pk)
                cuts = sorted({rng.randrange(1, len(stream)) for _ in range(rng.randrange(1, 6))}) if len(stream) > 1 else []
                chunks = [stream[i:j] for i, j in zip([0] + cuts, cuts + [len(stream)])]
            lines = pre + ['recv 0 ' + hx(c) for c in chunks if c]
            trace = realworld.run_scenario(lines)
            obs = [o for step in trace[len(pre):] for o in step[1]]
            got = [o for o in obs if o.startswith('pub ')]
            acks = [o.split()[2] for o in obs if o.startswith('w ')]
            want, wacks = [], []
            for b in pk:
                d = mqttparse.parse(b)
                if d['qos'] < 2:
                    want.append('pub 0 %s %s %d %d %d %s' % (hx(d['topic'].encode('utf-8')), hx(d['payload']), d['qos'], int(d['dup']),
                                                          int(d['retain']), '-' if d['id'] is None else str(d['id'])))
                if d['qos'] == 1:
                    wacks.append(hx(bytes([0x40, 2, d['id'] >> 8, d['id'] & 255])))
                if d['qos'] == 2:
                    wacks.append(hx(bytes([0x50, 2, d['id'] >> 8, d['id'] & 255])))
            n += len(pk)
            if got != want or acks != wacks:
                res.violations.append(dict(what='C02: broker PUBLISH packets in the standard layout are not decoded to the standard\'s field values '
                                           '(delivered %s, expected %s; acknowledgements %s, expected %s)' % (str(got)[:300], str(want)[:300], acks, wacks),
                                           signature='C02 session read', scenario=lines))
    # the other broker packet with version-dependent flag bits: PUBREL, whose first byte is 0x62 under 3.1.1 and may carry DUP (0x6A) when
    # it is sent again under 3.1 -- both are "the prescribed format" for their version and must complete the exchange
    for ver in ('311', '31'):
        for first in ([0x62] + ([0x6A] if ver == '31' else [])):
            again = 0x6A if ver == '31' else 0x62
            pre = _prefix(3, ver, 'connected')
            # (another PUBLISH arrives between the QoS 2 PUBLISH and its PUBREL: what is released must still be the message that carried the identifier)
            lines = pre + ['recv 0 ' + hx(publish_pkt('q/\u00f1', b'z', 2, mid=0x1234)), 'recv 0 ' + hx(publish_pkt('other', b'yy', 1, mid=0x0777, retain=True)),
                           'recv 0 ' + hx(ack(first, 0x1234)), 'recv 0 ' + hx(ack(again, 0x1234))]
            trace = realworld.run_scenario(lines)
            obs = [o for step in trace[len(pre):] for o in step[1]]
            got = [o for o in obs if o.startswith('pub ')]
            acks = [o.split()[2] for o in obs if o.startswith('w ')]
            n += 4
            want2 = ['pub 0 %s %s 1 0 1 1911' % (hx(b'other'), hx(b'yy')), 'pub 0 %s %s 2 0 0 4660' % (hx('q/\u00f1'.encode('utf-8')), hx(b'z'))]
            if got != want2 or acks != ['50021234', '40020777', '70021234', '70021234'] or any(o.startswith('abort') for o in obs):
                res.violations.append(dict(what='C02: a PUBREL in the format prescribed for version %s (first byte %#x, then %#x) does not complete the exchange '
                                           '(deliveries %s, written %s, aborted %s)' % (ver, first, again, got, acks, any(o.startswith('abort') for o in obs)),
                                           signature='C02 session read', scenario=lines))
    # inbound packets whose remaining length sits on the three/four-byte boundary of the length field (2 097 151 / 2 097 152), in three segments
    for ver in ('311', '31'):
        for rem in (2097151, 2097152):
            body = bytes((i * 13) % 251 for i in range(rem - 2 - 1 - 2))
            b = publish_pkt('t', body, 1, mid=0x0102)
            pre = _prefix(3, ver, 'connected')
            lines = pre + ['recv 0 ' + hx(b[:3]), 'recv 0 ' + hx(b[3:70000]), 'recv 0 ' + hx(b[70000:])]
            trace = realworld.run_scenario(lines)
            obs = [o for step in trace[len(pre):] for o in step[1]]
            got = [o for o in obs if o.startswith('pub ')]
            acks = [o.split()[2] for o in obs if o.startswith('w ')]
            n += 1
            want = ['pub 0 %s %s 1 0 0 258' % (hx(b't'), hx(body))]
            if got != want or acks != ['40020102'] or any(o.startswith(('abort', 'esc')) for o in obs):
                res.violations.append(dict(what='C02: a broker PUBLISH with remaining length %d (version %s) is not decoded to the standard\'s field values '
                                           '(deliveries %d, payload bytes %s, written %s, other %s)' % (rem, ver, len(got), [len(g.split()[3]) // 2 for g in got], acks,
                                                                                                      [o for o in obs if o.startswith(('abort', 'esc'))]),
                                           signature='C02 session read', scenario=lines[:len(pre)] + ['# followed by the %d-byte PUBLISH in three segments' % len(b)], realonly=True))
    res.extra['session_reads_checked'] = n


def _real_only(cases, want_c02):
    """model unavailable: judge the real code against the property alone (C01 round trip)"""
    fails = []
    stats = dict(cases=len(cases), by_kind={}, remlen_bytes={1: 0, 2: 0, 3: 0, 4: 0}, errors=0)
    for kind, f in cases:
        stats['by_kind'][kind] = stats['by_kind'].get(kind, 0) + 1
        r = cc.real_encode(kind, f)
        if r[0] == 'ok' and kind in cc.DECODABLE:
            d = cc.real_decode_canon(kind, r[1]); e = cc.expected_decode_canon(kind, f)
            if d != e:
                fails.append(dict(what='C01: decode(encode(x)) != x', kind=kind, fields=f, decoded=d[:300], expected=e[:300]))
    return fails, stats


def _short(f):
    out = {}
    for k, v in f.items():
        if isinstance(v, (str, bytes)) and len(v) > 40:
            out[k] = '<%s of %d>' % (type(v).__name__, len(v))
        elif isinstance(v, tuple) and len(v) == 2 and isinstance(v[1], (str, bytes)) and len(v[1]) > 40:
            out[k] = (v[0], '<%d bytes>' % len(v[1]))
        else:
            out[k] = cc.jsonable(v)
    return out


def _unjson(f):
    out = {}
    for k, v in f.items():
        if isinstance(v, dict) and 'hex' in v:
            out[k] = bytes.fromhex(v['hex'])
        elif k == 'payload' and isinstance(v, list):
            out[k] = (v[0], bytes.fromhex(v[1]['hex']) if isinstance(v[1], dict) else v[1])
        elif k in ('topics', 'granted') and isinstance(v, list):
            out[k] = [tuple(x) if isinstance(x, list) else x for x in v]
        else:
            out[k] = v
    return out


# ---------------------------------------------------------------------------------------------
# C03
# ---------------------------------------------------------------------------------------------
OBS_KEEP = ('w ', 'pub ', 'fired ', 'abort ', 'close ', 'esc ', 'onconn', 'ondisc')

def _prefix(profile, ver, stage):
    """a session with requests of every kind in flight, so that the broker's packets have effects"""
    L = ['factory %d' % profile, 'build a0', 'sethandlers 0 7', 'connect 0 %s 0 %s 0' % (s_tok('cli'), ver)]
    if stage == 'connecting':
        return L
    L.append('recv 0 20020000')
    L.append('setwin 0 8')
    if profile in (2, 3):
        L += ['publish 0 %s b:4141 1 0' % s_tok('a'), 'publish 0 %s b:42 2 0' % s_tok('b'), 'publish 0 %s b:43 2 1' % s_tok('c'),
              'recv 0 50020003']       # ids 1 (q1), 2 (q2), 3 (q2, PUBREC received -> PUBREL out)
    if profile in (1, 3):
        L += ['subscribe 0 %s 1' % s_tok('s/#'), 'unsubscribe 0 %s' % s_tok('u')]
    return L


def _streams(rng, profile, tier):
    """lists of broker packets (bytes)"""
    pub_ids = {3: (1, 2, 3), 2: (1, 2, 3), 1: ()}[profile]
    sub_id, unsub_id = {3: (4, 6), 1: (1, 3), 2: (None, None)}[profile]
    def small():
        c = []
        if pub_ids:
            c += [ack(0x40, 1), ack(0x50, 2), ack(0x70, 3), ack(0x70, 2), ack(0x40, 9)]
        if sub_id:
            c += [suback(sub_id, [1]), ack(0xB0, unsub_id), publish_pkt('t', b'', 0), publish_pkt('t', b'x', 1, mid=10),
                  publish_pkt('q', b'yz', 2, mid=11), ack(0x62, 11)]
        c += [pkt(0xD0)]
        return c
    out = []
    cand = small()
    # short streams for the exhaustive sweep
    for _ in range(6 if tier == 'quick' else 40):
        k = rng.randrange(2, 4)
        out.append([rng.choice(cand) for _ in range(k)])
    # long streams: payloads that push the remaining length to 2 and 3 bytes
    sizes = [120, 125, 130, 200, 16379, 16381, 16390] + ([70000, 2097150] if tier != 'quick' else [])
    for sz in sizes:
        if sub_id:
            out.append([publish_pkt('big/ñ', bytes((i * 7) % 256 for i in range(sz)), rng.choice([0, 1, 2]), mid=20)] + [rng.choice(cand) for _ in range(2)])
    # remaining lengths exactly at the boundaries of the base-128 field (first length byte 0x80, 0xFF, ...), between other packets
    if sub_id:
        for rem in [127, 128, 129, 255, 256, 384, 16383, 16384, 16385] + ([2097151, 2097152] if tier != 'quick' else []):
            q = rng.choice([0, 1, 2])
            head = 2 + len('b/ñ'.encode('utf-8')) + (2 if q else 0)
            big = publish_pkt('b/ñ', bytes((i * 11) % 256 for i in range(rem - head)), q, mid=21)
            out.append([rng.choice(cand), big, rng.choice(cand), rng.choice(cand)])
    return out


def _compositions(n):
    """all 2^(n-1) compositions of n as lists of cut positions"""
    for mask in range(1 << (n - 1)):
        yield [i + 1 for i in range(n - 1) if mask >> i & 1]


def _cuts_for(stream_bytes, pkts, rng, tier):
    n = len(stream_bytes)
    if n <= 12:
        return list(_compositions(n)), True
    cuts = [[]]
    cuts += [[c] for c in range(1, n) if c < 40 or n - c < 8 or c % max(1, n // 50) == 0]
    # 2-cuts inside the first 8 bytes of each packet
    starts, off = [], 0
    for p in pkts:
        starts.append(off); off += len(p)
    for s in starts:
        lo = [c for c in range(s + 1, min(s + 8, n))]
        for a, b in itertools.combinations(lo, 2):
            cuts.append([a, b])
    for _ in range(40 if tier == 'quick' else 300):
        k = rng.choice([2, 3, 3, 5, 9])
        cuts.append(sorted(set(rng.randrange(1, n) for _ in range(k))))
    if n <= 4096:
        cuts.append(list(range(1, n)))          # byte at a time
    return cuts, False


def _collect(trace, nprefix):
    out, frames = [], []
    for (op, obs) in trace[nprefix:]:
        out += [o for o in obs if o.startswith(OBS_KEEP)]
        frames += [o.split()[2] for o in obs if o.startswith('pkt ')]
    tail = [o for o in trace[-1][1] if o.startswith(('states', 'timers'))]
    return out, tail, frames


def _c03_multi(ctx, rng):
    """framing is per connection: (a) segments of two connections (two broker addresses through one factory) interleaved, (b) a new
    connection for an address whose previous connection died in the middle of a packet, (c) reads of exactly 65536 bytes (the size
    Twisted's TCP transport reads at once) ending on and inside packet boundaries. Each as (scenario, reference, nprefix, None):
    the reference delivers one packet per dataReceived call, connection by connection."""
    out = []
    profs = (3,) if ctx['tier'] == 'quick' else (3, 1)
    for prof in profs:
        for ver in ('311', '31') if ctx['tier'] != 'quick' else ('311',):
            pre = ['factory %d' % prof, 'build a0', 'build a1', 'sethandlers 0 7', 'sethandlers 1 7',
                   'connect 0 %s 0 %s 0' % (s_tok('c0'), ver), 'connect 1 %s 0 %s 1' % (s_tok('c1'), ver), 'recv 0 20020000', 'recv 1 20020000']
            sA = [publish_pkt('a/x', b'A' * 21, 0), publish_pkt('a/\u00f1', b'B' * 140, 1, mid=10), publish_pkt('a/z', b'', 2, mid=11), ack(0x62, 11)]
            sB = [publish_pkt('b/x', b'C' * 130, 0), publish_pkt('b/y', b'D', 1, mid=12), pkt(0xD0), publish_pkt('b/z', b'EE', 0)]
            ref = pre + ['recv 0 %s' % hx(p) for p in sA] + ['recv 1 %s' % hx(p) for p in sB]
            bA, bB = b''.join(sA), b''.join(sB)
            for rep in range(6 if ctx['tier'] == 'quick' else 60):
                cA = sorted(set(rng.randrange(1, len(bA)) for _ in range(rng.choice([1, 2, 4, 8]))))
                cB = sorted(set(rng.randrange(1, len(bB)) for _ in range(rng.choice([1, 2, 4, 8]))))
                chA = [bA[a:b] for a, b in zip([0] + cA, cA + [len(bA)])]
                chB = [bB[a:b] for a, b in zip([0] + cB, cB + [len(bB)])]
                sc = list(pre)
                while chA or chB:
                    if chA and (not chB or rng.random() < 0.5):
                        sc.append('recv 0 %s' % hx(chA.pop(0)))
                    else:
                        sc.append('recv 1 %s' % hx(chB.pop(0)))
                out.append((sc, ref, len(pre), 'perproto'))
            # (b) the previous connection of the address died with half a packet in its buffer
            pre1 = ['factory %d' % prof, 'build a0', 'sethandlers 0 7', 'connect 0 %s 0 %s 0' % (s_tok('c0'), ver), 'recv 0 20020000']
            tail = ['lost 0 lostc', 'build a0', 'sethandlers 1 7', 'connect 1 %s 0 %s 0' % (s_tok('c0'), ver), 'recv 1 20020000'] + ['recv 1 %s' % hx(p) for p in sA]
            for k in (1, 2, 3, 7, len(sA[1]) - 1):
                out.append((pre1 + ['recv 0 %s' % hx(sA[1][:k])] + tail, pre1 + tail, len(pre1), None))
    # (c) reads of exactly 65536 bytes
    prof, ver = 3, '311'
    pre = ['factory %d' % prof, 'build a0', 'sethandlers 0 7', 'connect 0 %s 0 %s 0' % (s_tok('c0'), ver), 'recv 0 20020000', 'setwin 0 4',
           'publish 0 %s b:41 1 0' % s_tok('t')]
    big = publish_pkt('big', b'z' * (65536 - 1 - 3 - 5), 0)            # a packet of exactly 65536 bytes
    assert len(big) == 65536
    huge = publish_pkt('huge', b'x' * (2097152 + 777), 0)            # four-byte remaining length
    for cuts in ([1], [2], [3], [4], [5], [1, 2, 3, 4, 5], [4, 65540]):
        sb = huge + ack(0x40, 1)
        pos = [0] + cuts + [len(sb)]
        out.append((pre + ['recv 0 %s' % hx(sb[a:b]) for a, b in zip(pos, pos[1:])], pre + ['recv 0 %s' % hx(huge), 'recv 0 %s' % hx(ack(0x40, 1))], len(pre), None))
    mid_ = publish_pkt('big', b'y' * 70000, 1, mid=20)
    for pk in ([big], [big, ack(0x40, 1)], [mid_, ack(0x40, 1), publish_pkt('t', b'q' * (2 * 65536 - len(mid_) - 4 - 6), 0)], [ack(0x40, 1), big, big]):
        sb = b''.join(pk)
        ref = pre + ['recv 0 %s' % hx(p) for p in pk]
        for cuts in ([], [1], [65535], [65536], [65537], [65536, 131072], [4096 * i for i in range(1, len(sb) // 4096 + 1) if 4096 * i < len(sb)]):
            cuts = [c for c in cuts if 0 < c < len(sb)]
            pos = [0] + cuts + [len(sb)]
            out.append((pre + ['recv 0 %s' % hx(sb[a:b]) for a, b in zip(pos, pos[1:])], ref, len(pre), None))
    return out


def c03(ctx):
    res = Result()
    rng = cc.RNG(ctx['seed'] + 3000)
    exhaustive_streams = 0
    if ctx.get('replay'):
        rp = ctx['replay']
        cases = [(rp['scenario'], rp.get('reference'), rp.get('nprefix', 0), rp.get('packets'))]
    else:
        cases = []
        for profile in (3, 1, 2):
            for ver in ('311', '31'):
                for stage in ('connected', 'connecting'):
                    if stage == 'connecting' and (ver == '31' or ctx['tier'] == 'quick' and profile != 3):
                        continue
                    pre = _prefix(profile, ver, stage)
                    streams = _streams(rng, profile, ctx['tier']) if stage == 'connected' else [[connack(0, 0)] + [pkt(0xD0)], [connack(0, 1), pkt(0xD0), pkt(0xD0)]]
                    if ctx['tier'] == 'quick':
                        streams = streams[:7] if ver == '311' else streams[:3]
                    for pk in streams:
                        sb = b''.join(pk)
                        ref = pre + ['recv 0 %s' % hx(p) for p in pk]
                        cuts, ex = _cuts_for(sb, pk, rng, ctx['tier'])
                        exhaustive_streams += 1 if ex else 0
                        for c in cuts:
                            pos = [0] + list(c) + [len(sb)]
                            sc = pre + ['recv 0 %s' % hx(sb[a:b]) for a, b in zip(pos, pos[1:])]
                            cases.append((sc, ref, len(pre), [hx(p) for p in pk]))
        # a full window with messages held back: what an acknowledgement releases must go out at the same point of the stream whether
        # the packets that follow it arrive in the same segment or not
        for profile in (3, 2):
            for ver in ('311', '31'):
                for win in (1, 2):
                    pre = ['factory %d' % profile, 'build a0', 'sethandlers 0 7', 'connect 0 %s 0 %s 0' % (s_tok('cli'), ver), 'recv 0 20020000',
                           'setwin 0 %d' % win] + ['publish 0 %s b:5%d %d 0' % (s_tok('h%d' % i), i, (1, 2, 1, 0, 1)[i]) for i in range(5)]
                    inbound = [publish_pkt('t', b'x', 1, mid=10), publish_pkt('q', b'yz', 2, mid=11), ack(0x62, 11)] if profile == 3 else [pkt(0xD0)]
                    streams = [[ack(0x40, 1), inbound[0], ack(0x40, 2)], [ack(0x40, 1), ack(0x50, 2), ack(0x70, 2), ack(0x40, 3)],
                               [ack(0x40, 1), ack(0x50, 2), inbound[-1], ack(0x70, 2)], [ack(0x50, 2), ack(0x40, 1), ack(0x40, 3), ack(0x40, 4)]]
                    if ctx['tier'] == 'quick' and (ver == '31' or profile == 2):
                        streams = streams[:2]
                    for pk in streams:
                        sb = b''.join(pk)
                        ref = pre + ['recv 0 %s' % hx(p) for p in pk]
                        bounds = []
                        o = 0
                        for p_ in pk[:-1]:
                            o += len(p_); bounds.append(o)
                        # every subset of the packet boundaries (coalescing), plus one cut inside each packet
                        for mask in range(1 << len(bounds)):
                            c = [b for i, b in enumerate(bounds) if mask >> i & 1]
                            pos = [0] + c + [len(sb)]
                            sc = pre + ['recv 0 %s' % hx(sb[a:b]) for a, b in zip(pos, pos[1:])]
                            cases.append((sc, ref, len(pre), [hx(p) for p in pk]))
                        pos = [0] + sorted(set(b - 1 for b in bounds + [len(sb)])) + [len(sb)]
                        cases.append((pre + ['recv 0 %s' % hx(sb[a:b]) for a, b in zip(pos, pos[1:])], ref, len(pre), [hx(p) for p in pk]))
        cases += _c03_multi(ctx, rng)
    ref_cache = {}
    split_queries = []      # (scenario, step index, buffer hex, real frames of that step, real buffer after)
    for (sc, ref, npre, packets) in cases:
        key = tuple(ref) if ref else None
        if ref and key not in ref_cache:
            tr = realworld.run_scenario(ref, frames=True)
            ref_cache[key] = _collect(tr, npre)
            res.programs += 1
        tr, world = realworld.run_scenario(sc, frames=True, keep_world=True)
        res.programs += 1
        res.evaluations += 1
        got = _collect(tr, npre)
        res.distinct.add(_digest(sc[npre:]))
        if len(res.samples) < 2:
            res.sample(sc[npre:][:6])
        if packets == 'perproto':
            # several connections: the order of events across connections follows the interleaving; each connection's own sequence must not
            byp = lambda obs: {q: [o for o in obs if o.split()[1:2] == [q]] for q in ('0', '1', '2')}
            if byp(got[0]) != byp(ref_cache[key][0]) or got[1] != ref_cache[key][1]:
                a, b = byp(got[0]), byp(ref_cache[key][0])
                q = next((q for q in a if a[q] != b[q]), '0')
                res.violations.append(dict(what='C03: with segments of two connections interleaved, connection %s acts differently from one packet per chunk: chunked=%s reference=%s'
                                                % (q, [x[:40] for x in a[q]][:6], [x[:40] for x in b[q]][:6]),
                                           signature='C03 chunking (two connections)', scenario=sc, reference=ref, nprefix=npre, packets=None))
            packets = None
        elif ref and got[:2] != ref_cache[key][:2]:
            a, b = got, ref_cache[key]
            res.violations.append(dict(what='C03: chunked delivery acts differently from one packet per chunk: chunked=%s reference=%s' % (a[0][:8], b[0][:8]),
                                       signature='C03 chunking', scenario=sc, reference=ref, nprefix=npre, packets=packets))
        if packets is not None and (got[2] != packets or len(world.protos[0]._buffer) != 0):
            res.violations.append(dict(what='C03: packets handed on differ from the packets sent (dropped/duplicated/merged/truncated/reordered): handed=%s sent=%s left-in-buffer=%d'
                                            % ([x[:24] for x in got[2]][:6], [x[:24] for x in packets][:6], len(world.protos[0]._buffer)),
                                       signature='C03 conservation', scenario=sc, reference=ref, nprefix=npre, packets=packets))
        if any(o.startswith('esc') for o in got[0]):
            res.violations.append(dict(what='C03: exception escaped dataReceived during chunked delivery: %s' % got[0][:6], signature='C03 escape',
                                       scenario=sc, reference=ref, nprefix=npre, packets=packets))
        # framing correspondence: what the model's splitPackets predicts for each dataReceived call
        bufs = {}
        for (op, obs) in tr[npre:]:
            t = op.split()
            if t[0] != 'recv':
                continue
            buf = bufs.get(t[1], b'') + (bytes.fromhex(t[2]) if t[2] != '-' else b'')      # one receive buffer per connection
            frames = [o.split()[2] for o in obs if o.startswith('pkt ') and o.split()[1] == t[1]]
            if len(buf) <= 20000:
                split_queries.append((sc, op, buf, frames))
            consumed = sum(len(bytes.fromhex(f)) for f in frames)
            bufs[t[1]] = buf[consumed:]
    if ctx['model_ok'] and split_queries:
        sub = split_queries if len(split_queries) <= 30000 else split_queries[::max(1, len(split_queries) // 30000)]
        outs = cc.run_lines(['codec split %s' % hx(q[2]) for q in sub])
        for (sc, op, buf, frames), o in zip(sub, outs):
            exp = 'ok %s | %s' % (','.join(frames), hx(buf[sum(len(bytes.fromhex(f)) for f in frames):]))
            if o != exp:
                res.divergences.append(dict(what='correspondence (framing): buffer %s: real hands on %s, model %s' % (hx(buf)[:60], exp[:120], o[:120]), scenario=sc))
                if len(res.divergences) > 5:
                    break
        res.extra['framing_steps_compared_with_model'] = len(sub)
    res.rule = ('streams of 2-4 broker packets of every type (ids matching requests in flight in a prepared session, all three profiles, both versions, '
                'CONNECTING and CONNECTED), delivered under every composition of the byte stream for streams <= 12 bytes (all 2^(n-1)), and for long '
                'streams (PUBLISH with 2- and 3-byte remaining lengths) under 1-cuts, 2-cuts in the first 8 bytes of each packet, random 2..9-cuts and '
                'byte-at-a-time; each compared with the one-packet-per-chunk run (observable actions in order + final timers/states), the packets handed '
                'to _processPacket compared with the packets sent, and every dataReceived call compared with the Lean model\'s splitPackets; '
                'distinct = distinct chunk sequences; every case is non-trivial (at least two packets with effects)')
    res.extra['streams_swept_exhaustively'] = exhaustive_streams
    res.exhaustive = False
    return res
