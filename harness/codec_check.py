# C01 / C02 correspondence: the real pdu.py classes, the Lean transcription (driver `codec enc/dec`)
# and the reference wire format (driver `codec specenc/specdec`) on the same field assignments.
import sys, os, json, random as _random
import realworld            # installs the virtual reactor; gives access to the repo's modules
from realworld import err_name
import corr
from mqtt import pdu, v31, v311

RNG = _random.Random

def hx(b):
    return bytes(b).hex() or '-'

def s_tok(s):
    return 'n' if s is None else 's:' + s.encode('utf-8').hex()

# ---------------------------------------------------------------------------------------------
# generators (boundary-biased, from the repo's own classes)
# ---------------------------------------------------------------------------------------------
CHARS = ['a', 'Z', '/', '+', '#', ' ', 'ñ', 'ß', 'Ж', '€', '温', '￿', '\U0001F600', '\U0010FFFF', '\x01', '\x7f', '\x80', '߿', 'ࠀ', '\ufeff', '\ufffe', '\u2028']

def rand_str(rng, nbytes=None, maxlen=12):
    """a str over the whole Unicode range (1-4 byte UTF-8 sequences), optionally of an exact byte length"""
    if nbytes is None:
        n = rng.randrange(0, maxlen)
        return ''.join(rng.choice(CHARS) for _ in range(n))
    out, size = [], 0
    while size < nbytes:
        c = rng.choice(CHARS)
        l = len(c.encode('utf-8'))
        if size + l > nbytes:
            c, l = 'a', 1
        out.append(c); size += l
    return ''.join(out)

STR_BOUNDS = [0, 1, 127, 128, 16383, 16384, 65535]
IDS = [0, 1, 255, 256, 65534, 65535]

def gen_cases(rng, n, big):
    """yield (kind, fields) field assignments; `big` enables the multi-megabyte remaining lengths"""
    kinds = ['connect', 'connack', 'publish', 'puback', 'pubrec', 'pubrel', 'pubcomp', 'subscribe',
             'suback', 'unsubscribe', 'unsuback', 'pingreq', 'pingres', 'disconnect']
    # systematic part: every flag combination of CONNECT and PUBLISH
    for clean in (0, 1):
        for will in (0, 1):
            for wq in (0, 1, 2):
                for wr in (0, 1):
                    for user in (0, 1):
                        for pw in (0, 1):
                            if pw and not user:
                                continue
                            for ver in ('31', '311'):
                                yield ('connect', dict(clientId=rand_str(rng), keepalive=rng.choice(IDS), version=ver, cleanStart=clean,
                                                       willTopic=rand_str(rng) if will else None, willMessage=rand_str(rng) if will else None,
                                                       willQoS=wq if will else 0, willRetain=wr if will else 0,
                                                       username=rand_str(rng) if user else None, password=rand_str(rng) if pw else None))
    for qos in (0, 1, 2):
        for dup in (0, 1):
            for retain in (0, 1):
                if qos == 0 and dup:
                    continue
                for pt in ('s', 'b'):
                    yield ('publish', dict(topic=rand_str(rng), payload=(pt, rand_str(rng) if pt == 's' else bytes(rng.randrange(256) for _ in range(rng.randrange(0, 20)))),
                                           qos=qos, dup=dup, retain=retain, msgId=rng.choice(IDS[1:]) if qos else None))
    # string length classes
    for nb in STR_BOUNDS:
        s = rand_str(rng, nb)
        yield ('publish', dict(topic=s, payload=('b', b'x'), qos=1, dup=0, retain=0, msgId=7))
        yield ('subscribe', dict(msgId=9, topics=[(s, 1), ('t', 0)]))
        yield ('unsubscribe', dict(msgId=9, topics=[s]))
        yield ('connect', dict(clientId='c', keepalive=0, version='311', cleanStart=1, willTopic=s, willMessage=s, willQoS=1, willRetain=0, username=s, password=s))
    # remaining-length boundaries through PUBLISH payload size
    bounds = [0, 1, 126, 127, 128, 129, 16383, 16384, 16385]
    if big:
        bounds += [2097151, 2097152, 2097153]
    for total in bounds:
        for qos in (0, 1):
            overhead = 2 + 1 + (2 if qos else 0)
            if total >= overhead:
                yield ('publish', dict(topic='t', payload=('b', b'z' * (total - overhead)), qos=qos, dup=0, retain=0, msgId=5 if qos else None))
    for i in IDS:
        for k in ('puback', 'pubrec', 'pubrel', 'pubcomp', 'unsuback'):
            yield (k, dict(msgId=i))
        yield ('suback', dict(msgId=i, granted=[(0, 0), (1, 0), (2, 0), (0, 1)]))
    # acknowledgements whose remaining length needs two bytes: SUBACK with 126+ return codes; SUBSCRIBE/UNSUBSCRIBE naming many topics
    for cnt in (125, 126, 127, 128, 200, 16381, 16382):
        yield ('suback', dict(msgId=rng.choice(IDS[1:]), granted=[((i * 7) % 3, 0) if i % 11 else (0, 1) for i in range(cnt)]))
    for cnt in (40, 130):
        yield ('subscribe', dict(msgId=9, topics=[('t/%d' % i, i % 3) for i in range(cnt)]))
        yield ('unsubscribe', dict(msgId=9, topics=['t/%d' % i for i in range(cnt)]))
    for s in (0, 1):
        for rc in (0, 1, 5, 6, 128, 255):
            yield ('connack', dict(session=s, resultCode=rc))
    for k in ('pingreq', 'pingres', 'disconnect'):
        yield (k, {})
    # random part
    for _ in range(n):
        k = rng.choice(kinds)
        if k == 'connect':
            will = rng.random() < 0.5; user = rng.random() < 0.5; pw = user and rng.random() < 0.6
            yield (k, dict(clientId=rand_str(rng, maxlen=30), keepalive=rng.choice(IDS + [rng.randrange(65536)]), version=rng.choice(['31', '311']),
                           cleanStart=rng.randrange(2), willTopic=rand_str(rng) if will else None, willMessage=rand_str(rng, maxlen=40) if will else None,
                           willQoS=rng.randrange(3) if will else 0, willRetain=rng.randrange(2) if will else 0,
                           username=rand_str(rng) if user else None, password=rand_str(rng) if pw else None))
        elif k == 'publish':
            qos = rng.randrange(3)
            pt = rng.choice('sb')
            size = rng.choice([0, 1, 5, 50, 120, 130, 300, 20000])
            pl = rand_str(rng, size) if pt == 's' else bytes(rng.randrange(256) for _ in range(min(size, 400))) * (1 if size <= 400 else size // 400)
            yield (k, dict(topic=rand_str(rng, maxlen=20), payload=(pt, pl), qos=qos, dup=rng.randrange(2) if qos else 0, retain=rng.randrange(2),
                           msgId=rng.choice(IDS[1:] + [rng.randrange(1, 65536)]) if qos else None))
        elif k == 'subscribe':
            yield (k, dict(msgId=rng.choice(IDS + [rng.randrange(65536)]), topics=[(rand_str(rng, maxlen=20), rng.randrange(3)) for _ in range(rng.randrange(1, 9))]))
        elif k == 'unsubscribe':
            yield (k, dict(msgId=rng.choice(IDS + [rng.randrange(65536)]), topics=[rand_str(rng, maxlen=20) for _ in range(rng.randrange(1, 9))]))
        elif k == 'suback':
            yield (k, dict(msgId=rng.randrange(65536), granted=[(rng.randrange(3), 0) if rng.random() < 0.8 else (0, 1) for _ in range(rng.randrange(0, 6))]))
        elif k == 'connack':
            yield (k, dict(session=rng.randrange(2), resultCode=rng.randrange(256)))
        elif k in ('pingreq', 'pingres', 'disconnect'):
            yield (k, {})
        else:
            yield (k, dict(msgId=rng.randrange(65536)))

# ---------------------------------------------------------------------------------------------
# the three sides
# ---------------------------------------------------------------------------------------------
CLASSES = dict(connect=pdu.CONNECT, connack=pdu.CONNACK, publish=pdu.PUBLISH, puback=pdu.PUBACK, pubrec=pdu.PUBREC,
               pubrel=pdu.PUBREL, pubcomp=pdu.PUBCOMP, subscribe=pdu.SUBSCRIBE, suback=pdu.SUBACK,
               unsubscribe=pdu.UNSUBSCRIBE, unsuback=pdu.UNSUBACK, pingreq=pdu.PINGREQ, pingres=pdu.PINGRES,
               disconnect=pdu.DISCONNECT)

def real_object(kind, f):
    o = CLASSES[kind]()
    if kind == 'connect':
        for k in ('clientId', 'keepalive', 'willTopic', 'willMessage', 'willQoS', 'username', 'password'):
            setattr(o, k, f[k])
        o.willRetain = bool(f['willRetain']); o.cleanStart = bool(f['cleanStart'])
        o.version = v31 if f['version'] == '31' else v311
    elif kind == 'connack':
        o.session = bool(f['session']); o.resultCode = f['resultCode']
    elif kind == 'publish':
        pt, pl = f['payload']
        o.topic = f['topic']; o.qos = f['qos']; o.dup = bool(f['dup']); o.retain = bool(f['retain']); o.msgId = f['msgId']
        o.payload = pl if pt == 's' else (bytearray(pl) if pt == 'b' else pl)
    elif kind == 'subscribe':
        o.msgId = f['msgId']; o.topics = list(f['topics'])
    elif kind == 'unsubscribe':
        o.msgId = f['msgId']; o.topics = list(f['topics'])
    elif kind == 'suback':
        o.msgId = f['msgId']; o.granted = [(q, bool(fl)) for (q, fl) in f['granted']]
    elif kind in ('puback', 'pubrec', 'pubrel', 'pubcomp', 'unsuback'):
        o.msgId = f['msgId']
    return o

def real_encode(kind, f):
    try:
        o = real_object(kind, f)
        b = o.encode()
        b2 = o.encode()
        b3 = real_object(kind, f).encode()
        if not (bytes(b) == bytes(b2) == bytes(b3)):
            return ('nondet', hx(b))
        return ('ok', bytes(b))
    except Exception as e:
        return ('err', err_name(e))

def enc_line(kind, f, spec=None):
    pre = 'codec enc ' if spec is None else 'codec specenc %s ' % spec
    if kind == 'connect':
        return pre + 'connect %s %d %s %d %s %s %d %d %s %s' % (s_tok(f['clientId']), f['keepalive'], f['version'], f['cleanStart'],
               s_tok(f['willTopic']), s_tok(f['willMessage']), f['willQoS'], f['willRetain'], s_tok(f['username']), s_tok(f['password']))
    if kind == 'connack':
        return pre + 'connack %d %d' % (f['session'], f['resultCode'])
    if kind == 'publish':
        pt, pl = f['payload']
        ptok = ('s:' + pl.encode('utf-8').hex()) if pt == 's' else ('b:' + bytes(pl).hex() if pt == 'b' else 'o:')
        return pre + 'publish %s %s %d %d %d %s' % (s_tok(f['topic']), ptok, f['qos'], f['dup'], f['retain'], 'n' if f['msgId'] is None else f['msgId'])
    if kind == 'subscribe':
        items = ';'.join('%s,%d' % (t.encode('utf-8').hex() or '-', q) for (t, q) in f['topics'])
        return pre + ('subscribe %d l:%s' if spec is None else 'subscribe 0 %d l:%s') % (f['msgId'], items)
    if kind == 'unsubscribe':
        items = ';'.join((t.encode('utf-8').hex() or '-') for t in f['topics'])
        return pre + ('unsubscribe %d L:%s' if spec is None else 'unsubscribe 0 %d L:%s') % (f['msgId'], items)
    if kind == 'suback':
        if spec is None:
            return pre + 'suback %d g%s' % (f['msgId'], ','.join('%d:%d' % (q, fl) for (q, fl) in f['granted']))
        codes = ','.join(str(128 if fl else q) for (q, fl) in f['granted']) or '-'
        return pre + 'suback %d %s' % (f['msgId'], codes)
    if kind == 'pubrel' and spec is not None:
        return pre + 'pubrel 0 %d' % f['msgId']
    if kind in ('puback', 'pubrec', 'pubrel', 'pubcomp', 'unsuback'):
        return pre + '%s %d' % (kind, f['msgId'])
    if kind == 'pingres' and spec is not None:
        return pre + 'pingresp'
    return pre + kind

def real_decode_canon(kind, b):
    """decode with the real class, print as the driver's `codec dec` does"""
    try:
        o = CLASSES[kind]()
        o.decode(bytearray(b))
    except Exception as e:
        return 'err ' + err_name(e)
    def b01(x): return '1' if x else '0'
    def osx(s): return 'n' if s is None else 's:' + (s.encode('utf-8').hex() or '-')
    if kind == 'connect':
        return 'ok %s %d %d %s %s %s %s %s %s %s' % (osx(o.clientId), o.keepalive, o.version['level'], b01(o.cleanStart), osx(o.willTopic), osx(o.willMessage),
            'n' if o.willQoS is None else o.willQoS, 'n' if o.willRetain is None else b01(o.willRetain), osx(o.username),
            'n' if o.password is None else 'b:' + hx(o.password))
    if kind == 'connack':
        return 'ok %s %d' % (b01(o.session), o.resultCode)
    if kind == 'publish':
        return 'ok %s %s %d %s %s %s' % (osx(o.topic), hx(o.payload), o.qos, b01(o.dup), b01(o.retain), 'n' if o.msgId is None else o.msgId)
    if kind == 'subscribe':
        return 'ok %d l:%s' % (o.msgId, ';'.join('%s,%d' % (t.encode('utf-8').hex() or '-', q) for (t, q) in o.topics))
    if kind == 'unsubscribe':
        return 'ok %d L:%s' % (o.msgId, ';'.join((t.encode('utf-8').hex() or '-') for t in o.topics))
    if kind == 'suback':
        return 'ok %d g%s' % (o.msgId, ','.join('%d:%s' % (q, b01(fl)) for (q, fl) in o.granted))
    if kind == 'pubrel':
        return 'ok %d %s' % (o.msgId, b01(o.dup))
    if kind in ('puback', 'pubrec', 'pubcomp', 'unsuback'):
        return 'ok %d' % o.msgId
    return 'ok'

def expected_decode_canon(kind, f):
    """what the property says decode(encode(f)) must give (computed here, independently)"""
    def b01(x): return '1' if x else '0'
    def osx(s): return 'n' if s is None else 's:' + (s.encode('utf-8').hex() or '-')
    if kind == 'connect':
        will = f['willTopic'] is not None and f['willMessage'] is not None
        return 'ok %s %d %d %s %s %s %s %s %s %s' % (osx(f['clientId']), f['keepalive'], 3 if f['version'] == '31' else 4, b01(f['cleanStart']),
            osx(f['willTopic'] if will else None), osx(f['willMessage'] if will else None), f['willQoS'] if will else 'n', b01(f['willRetain']) if will else 'n',
            osx(f['username']), 'n' if f['password'] is None else 'b:' + hx(f['password'].encode('utf-8')))
    if kind == 'connack':
        return 'ok %s %d' % (b01(f['session']), f['resultCode'])
    if kind == 'publish':
        pt, pl = f['payload']
        plb = pl.encode('utf-8') if pt == 's' else bytes(pl)
        return 'ok %s %s %d %s %s %s' % (osx(f['topic']), hx(plb), f['qos'], b01(f['dup'] if f['qos'] else 0), b01(f['retain']), 'n' if not f['qos'] else f['msgId'])
    if kind == 'subscribe':
        return 'ok %d l:%s' % (f['msgId'], ';'.join('%s,%d' % (t.encode('utf-8').hex() or '-', q) for (t, q) in f['topics']))
    if kind == 'unsubscribe':
        return 'ok %d L:%s' % (f['msgId'], ';'.join((t.encode('utf-8').hex() or '-') for t in f['topics']))
    if kind == 'suback':
        return 'ok %d g%s' % (f['msgId'], ','.join('%d:%s' % (q, b01(fl)) for (q, fl) in f['granted']))
    if kind == 'pubrel':
        return 'ok %d 0' % f['msgId']
    if kind in ('puback', 'pubrec', 'pubcomp', 'unsuback'):
        return 'ok %d' % f['msgId']
    return 'ok'

def run_lines(lines):
    """run codec lines through the driver; returns one output line each"""
    outs = corr.run_model([lines])[0]
    return [o[0] if o else '' for o in outs]

DECODABLE = set(CLASSES) - {'pingreq', 'pingres', 'disconnect'}

def spec_representable(kind, f):
    """does the standard allow this packet at all (ids 1..65535 where an id is carried)?"""
    if kind in ('puback', 'pubrec', 'pubrel', 'pubcomp', 'unsuback', 'subscribe', 'unsubscribe', 'suback'):
        if f['msgId'] == 0:
            return False
    if kind == 'publish' and f['qos'] and f['msgId'] == 0:
        return False
    if kind in ('subscribe', 'unsubscribe') and not f['topics']:
        return False
    return True

def check(cases, want_c02, versions=('311', '31')):
    """returns (failures, stats). failures: list of dicts describing a disagreement / violation."""
    cases = list(cases)
    lines = []
    idx = []
    for i, (kind, f) in enumerate(cases):
        lines.append(enc_line(kind, f)); idx.append((i, 'enc'))
        if want_c02:
            vs = [f['version']] if kind == 'connect' else list(versions)
            for v in vs:
                lines.append(enc_line(kind, f, spec=v)); idx.append((i, 'spec' + v))
    outs = run_lines(lines)
    res = {}
    for (i, tag), o in zip(idx, outs):
        res.setdefault(i, {})[tag] = o
    fails = []
    stats = dict(cases=len(cases), by_kind={}, remlen_bytes={1: 0, 2: 0, 3: 0, 4: 0}, errors=0, spec_compared=0)
    dec_lines, dec_idx = [], []
    real_bytes = {}
    for i, (kind, f) in enumerate(cases):
        stats['by_kind'][kind] = stats['by_kind'].get(kind, 0) + 1
        r = real_encode(kind, f)
        m = res[i]['enc']
        if r[0] == 'nondet':
            fails.append(dict(what='encoding is not deterministic', kind=kind, fields=f)); continue
        rcanon = ('ok ' + hx(r[1])) if r[0] == 'ok' else 'err ' + r[1]
        if rcanon != m:
            fails.append(dict(what='correspondence: real encode differs from model', kind=kind, fields=f, real=rcanon[:200], model=m[:200]))
        if r[0] != 'ok':
            stats['errors'] += 1
            continue
        b = r[1]
        real_bytes[i] = b
        n = 1
        while b[n] & 0x80:
            n += 1
        stats['remlen_bytes'][n] += 1
        if kind in DECODABLE:
            d = real_decode_canon(kind, b)
            e = expected_decode_canon(kind, f)
            if d != e:
                fails.append(dict(what='C01: decode(encode(x)) != x', kind=kind, fields=f, decoded=d[:300], expected=e[:300], bytes=hx(b)[:200]))
            dec_lines.append('codec dec %s %s' % (kind, hx(b))); dec_idx.append((i, d))
        if want_c02 and spec_representable(kind, f):
            for tag, o in res[i].items():
                if tag.startswith('spec'):
                    stats['spec_compared'] += 1
                    if o != 'some ' + hx(b):
                        fails.append(dict(what='C02: bytes differ from the reference encoding (MQTT %s)' % tag[4:], kind=kind, fields=f, real=hx(b)[:200], spec=o[:200]))
    douts = run_lines(dec_lines) if dec_lines else []
    for (i, d), o in zip(dec_idx, douts):
        if d != o:
            fails.append(dict(what='correspondence: real decode differs from model', kind=cases[i][0], fields=cases[i][1], real=d[:300], model=o[:300]))
    return fails, stats

def jsonable(x):
    if isinstance(x, (bytes, bytearray)):
        return {'hex': bytes(x).hex()}
    if isinstance(x, dict):
        return {k: jsonable(v) for k, v in x.items()}
    if isinstance(x, (list, tuple)):
        return [jsonable(v) for v in x]
    return x

# ---------------------------------------------------------------------------------------------
# C02: unrepresentable inputs must raise ValueError/TypeError and emit nothing
# ---------------------------------------------------------------------------------------------
def unrepresentable_cases():
    big = 'x' * 65536
    bigm = 'ñ' * 32768           # 32768 characters, 65536 bytes
    sur = 'a\ud800b'             # lone surrogate: not encodable as UTF-8
    base_pub = dict(topic='t', payload=('b', b'x'), qos=1, dup=0, retain=0, msgId=5)
    base_con = dict(clientId='c', keepalive=0, version='311', cleanStart=1, willTopic=None, willMessage=None, willQoS=0,
                    willRetain=0, username=None, password=None)
    out = []
    for s in (big, bigm, sur):
        out.append(('publish', dict(base_pub, topic=s)))
        out.append(('publish', dict(base_pub, topic=s, qos=0, msgId=None)))
        out.append(('subscribe', dict(msgId=3, topics=[('ok', 0), (s, 1)])))
        out.append(('unsubscribe', dict(msgId=3, topics=[s])))
        out.append(('unsubscribe', dict(msgId=3, topics=['ok', 'also/ok', s])))
        out.append(('subscribe', dict(msgId=3, topics=[('ok', 0), ('also/ok', 2), (s, 1), ('t', 0)])))
        out.append(('connect', dict(base_con, clientId=s)))
        out.append(('connect', dict(base_con, willTopic=s, willMessage='m')))
        out.append(('connect', dict(base_con, willTopic='w', willMessage=s)))
        out.append(('connect', dict(base_con, username=s)))
        out.append(('connect', dict(base_con, username='u', password=s)))
    for bad in (-1, 65536, 70000, None):
        for k in ('puback', 'pubrec', 'pubrel', 'pubcomp', 'unsuback'):
            out.append((k, dict(msgId=bad)))
        out.append(('publish', dict(base_pub, msgId=bad)))
        out.append(('subscribe', dict(msgId=bad, topics=[('t', 0)])))
        out.append(('unsubscribe', dict(msgId=bad, topics=['t'])))
        out.append(('suback', dict(msgId=bad, granted=[(0, 0)])))
        if bad is not None:
            out.append(('connect', dict(base_con, keepalive=bad)))
    for pl in (('o', 5), ('o', b'bytes'), ('o', None), ('o', [1, 2]), ('o', 1.5), ('o', ('a',)), ('o', True)):
        out.append(('publish', dict(base_pub, payload=pl)))
        out.append(('publish', dict(base_pub, payload=pl, qos=0, msgId=None)))
    out.append(('publish', dict(base_pub, payload=('s', sur))))
    out.append(('subscribe', dict(msgId=3, topics=[('t', 256)])))
    out.append(('subscribe', dict(msgId=3, topics=[(None, 0)])))
    out.append(('unsubscribe', dict(msgId=3, topics=[None])))
    out.append(('unsubscribe', dict(msgId=3, topics=[5])))
    out.append(('connack', dict(session=0, resultCode=256)))
    return out

def check_unrepresentable():
    fails, n = [], 0
    for kind, f in unrepresentable_cases():
        n += 1
        o = None
        try:
            o = real_object(kind, f)
            b = o.encode()
            fails.append(dict(what='C02: unrepresentable input was encoded instead of raising', kind=kind, fields=f, bytes=hx(b)[:80]))
        except Exception as e:
            name = err_name(e)
            if name not in ('ValueError', 'TypeError'):
                fails.append(dict(what='C02: unrepresentable input raised %s (not ValueError/TypeError)' % name, kind=kind, fields=f))
            elif o is not None and o.encoded is not None:
                fails.append(dict(what='C02: failed encode left bytes in .encoded', kind=kind, fields=f))
    return fails, n

def check_history_independence(cases):
    """the bytes of a packet do not depend on what was encoded before it -- in particular not on encode() calls that were refused
    part-way (a topic list whose second or later element cannot be encoded, an identifier out of range, a payload of the wrong type)"""
    fails, n = [], 0
    bad = unrepresentable_cases()
    for kind, f in cases:
        if kind not in CLASSES:
            continue
        try:
            b0 = bytes(real_object(kind, f).encode())
        except Exception:
            continue
        for bk, bf in bad:
            try:
                real_object(bk, bf).encode()
            except Exception:
                pass
        n += 1
        try:
            b1 = bytes(real_object(kind, f).encode())
        except Exception as e:
            b1 = ('raised ' + err_name(e)).encode()
        if b0 != b1:
            fails.append(dict(what='C01: the encoding of a packet depends on what was (unsuccessfully) encoded before it', kind=kind, fields=f,
                              before=hx(b0)[:80], after=hx(b1)[:80]))
    return fails, n

# ---------------------------------------------------------------------------------------------
# C02: packets the broker sends, produced by the reference encoder, decoded by the real classes
# ---------------------------------------------------------------------------------------------
def broker_cases(rng, n):
    out = []
    for s in (0, 1):
        for rc in list(range(0, 8)) + [127, 128, 255]:
            out.append(('connack', dict(session=s, resultCode=rc)))
    for _ in range(n):
        k = rng.choice(['publish', 'publish', 'puback', 'pubrec', 'pubrel', 'pubcomp', 'suback', 'unsuback'])
        mid = rng.choice([1, 2, 255, 256, 65534, 65535, rng.randrange(1, 65536)])
        if k == 'publish':
            qos = rng.randrange(3)
            size = rng.choice([0, 1, 100, 126, 127, 128, 129, 1000, 16380, 16390, 70000])
            out.append((k, dict(topic=rand_str(rng, maxlen=16), payload=('b', bytes(rng.randrange(256) for _ in range(min(size, 64))) * max(1, size // 64) if size else b''),
                                qos=qos, dup=rng.randrange(2) if qos else 0, retain=rng.randrange(2), msgId=mid if qos else None)))
        elif k == 'suback':
            out.append((k, dict(msgId=mid, granted=[(rng.randrange(3), 0) if rng.random() < 0.75 else (0, 1) for _ in range(rng.randrange(0, 6))])))
        else:
            out.append((k, dict(msgId=mid)))
    return out

def check_broker(rng, n, versions=('311', '31')):
    cases = broker_cases(rng, n)
    lines, idx = [], []
    for i, (kind, f) in enumerate(cases):
        for v in versions:
            lines.append(enc_line(kind, f, spec=v)); idx.append((i, v))
            if kind == 'pubrel' and v == '31':
                lines.append('codec specenc 31 pubrel 1 %d' % f['msgId']); idx.append((i, '31dup'))
    outs = run_lines(lines)
    fails, compared = [], 0
    dec_lines, dec_exp = [], []
    for (i, v), o in zip(idx, outs):
        kind, f = cases[i]
        if not o.startswith('some '):
            fails.append(dict(what='reference encoder refused a broker packet', kind=kind, fields=f, out=o)); continue
        b = bytes.fromhex(o[5:]) if o[5:] != '-' else b''
        d = real_decode_canon(kind, b)
        e = expected_decode_canon(kind, f)
        if v == '31dup':
            e = 'ok %d 1' % f['msgId']
        compared += 1
        if d != e:
            fails.append(dict(what='C02: broker packet in the prescribed format decodes to other fields', kind=kind, fields=f, decoded=d[:200], expected=e[:200], bytes=hx(b)[:120]))
        dec_lines.append('codec dec %s %s' % (kind, hx(b))); dec_exp.append((i, d))
    douts = run_lines(dec_lines) if dec_lines else []
    for (i, d), o in zip(dec_exp, douts):
        if d != o:
            fails.append(dict(what='correspondence: real decode differs from model', kind=cases[i][0], fields=cases[i][1], real=d[:200], model=o[:200]))
    return fails, compared
